#!/usr/bin/env python3
"""mkmut.py <name> <file relative to repo> <old> <new> [count]: write mutants/<name>.patch replacing
the (count-th, default only) occurrence of <old> by <new> in /repo's working tree version of file."""
import sys, difflib, os
name, rel, old, new = sys.argv[1:5]
nth = int(sys.argv[5]) if len(sys.argv) > 5 else None
src = open(os.path.join('/repo', rel)).read()
n = src.count(old)
if n == 0 or (n > 1 and nth is None):
    sys.exit(f'{name}: pattern occurs {n} times')
if nth is None:
    dst = src.replace(old, new)
else:
    parts = src.split(old)
    dst = old.join(parts[:nth + 1]) + new + old.join(parts[nth + 1:])
diff = difflib.unified_diff(src.splitlines(True), dst.splitlines(True), 'a/' + rel, 'b/' + rel)
out = os.path.join('/verif/mutants', name + '.patch')
open(out, 'w').write(''.join(diff))
print('wrote', out)
