#!/usr/bin/env python3
"""tools/reg.py check <ID> <engine> <ref> <<< JSON{technique,text,note}   |   tools/reg.py finding <<< JSON entry
Registers a check in mc/manifest_checks.json (then regenerates MANIFEST.json) or appends a known finding."""
import sys, json, subprocess
what = sys.argv[1]
data = json.load(sys.stdin)
if what == 'check':
    pid, engine, ref = sys.argv[2:5]
    p = '/verif/mc/manifest_checks.json'
    d = json.load(open(p))
    d[pid] = dict(engine=engine, ref=ref, technique=data['technique'], text=data['text'], note=data['note'])
    json.dump(d, open(p, 'w'), indent=1, sort_keys=True)
    subprocess.check_call(['/venv/bin/python', '-m', 'mc.manifest'], cwd='/verif')
else:
    p = '/verif/known_findings.json'
    d = json.load(open(p))
    entries = data if isinstance(data, list) else [data]
    for e in entries:
        if e.get('status') == 'fixed' and 'record' not in e:
            e['record'] = f"fixed: property={e['property']} {e['commit']} {e['what_fails']}"
        d['findings'] = [x for x in d['findings'] if x['id'] != e['id']] + [e]
    json.dump(d, open(p, 'w'), indent=1)
    open(p, 'a').write('\n')
    print('findings:', len(d['findings']))
