#!/bin/sh
# tools/mutant.sh <patch> <ID> [--tests "tests/test_x.py ..."]  : apply a patch to a scratch copy of
# /repo's working tree, run ./check <ID> --tier quick against it, optionally the pinned tests, delete the copy.
# exit 0 = mutant detected (check exit 1 with VIOLATION), 1 = missed, 2 = error
patch=$(readlink -f "$1"); id="$2"; shift 2
tests=""
[ "$1" = "--tests" ] && tests="$2"
d=$(mktemp -d /tmp/mut-XXXXXX)
trap 'rm -rf "$d"' EXIT
cp -r /repo/sc3 /repo/tests /repo/pyproject.toml /repo/README.md "$d"/ 2>/dev/null
(cd "$d" && patch -p1 -s < "$patch") || { echo "patch failed"; exit 2; }
if [ -n "$tests" ]; then
  (cd "$d" && timeout 1200 /venv/bin/python -W ignore -m pytest -q -p no:cacheprovider -x $tests 2>&1 | tail -2)
fi
cd /verif
out=$(SC3_REPO="$d" VERIF_NO_EVIDENCE=1 timeout 1800 ./check "$id" --tier quick 2>&1)
rc=$?
echo "$out" | grep -E "^VIOLATION|^  kind=|^HARNESS|rc=" | head -8
[ $rc -eq 1 ] && echo "DETECTED $(basename $patch) by $id" && exit 0
echo "MISSED $(basename $patch) by $id (rc=$rc)"; exit 1
