#!/bin/sh
# tools/seed_eval.sh <seed worktree dir> <name> <CHECK> [<CHECK>...] : verify a seeded defect and run checks against it.
# Writes /verif/seeded/<name>/{patch.diff,demo.py,meta.json,result.txt}
wt="$1"; name="$2"; shift 2
out=/verif/seeded/$name; mkdir -p "$out"
cp "$wt"/seed/patch.diff "$wt"/seed/demo.py "$wt"/seed/meta.json "$out"/ 2>/dev/null
base=$(mktemp -d /tmp/se-base-XXXXXX); mut=$(mktemp -d /tmp/se-mut-XXXXXX)
trap 'rm -rf "$base" "$mut"' EXIT
for d in "$base" "$mut"; do cp -r /repo/sc3 /repo/tests /repo/pyproject.toml /repo/README.md "$d"/; mkdir -p "$d/seed"; cp "$out/demo.py" "$d/seed/"; done
R="$out/result.txt"; : > "$R"
if ! (cd "$mut" && patch -p1 -s < "$out/patch.diff") >> "$R" 2>&1; then echo "PATCH-DOES-NOT-APPLY to current /repo" | tee -a "$R"; exit 2; fi
(cd "$base" && PYTHONPATH="$base" timeout 300 /venv/bin/python -W ignore seed/demo.py > /dev/null 2>&1); b=$?
(cd "$mut" && PYTHONPATH="$mut" timeout 300 /venv/bin/python -W ignore seed/demo.py > "$out/demo_output_mutant.txt" 2>&1); m=$?
echo "demo: unchanged exit=$b mutant exit=$m" | tee -a "$R"
if [ "$SKIP_TESTS" != 1 ]; then
  (cd "$mut" && timeout 1500 unshare -n sh -c 'ip link set lo up; exec "$@"' sh /venv/bin/python -W ignore -m pytest -q -p no:cacheprovider --timeout=900 tests 2>&1 | tail -12 | grep -E "^FAILED|^ERROR|passed|failed") > "$out/tests_mutant.txt" 2>&1
  echo "tests(mutant): $(tail -1 "$out/tests_mutant.txt")" | tee -a "$R"
  grep -E "^FAILED|^ERROR" "$out/tests_mutant.txt" | sed 's/ - .*//' | sort > "$out/tests_failing.txt"
fi
cd /verif
for c in "$@"; do
  o=$(SC3_REPO="$mut" VERIF_NO_EVIDENCE=1 timeout 1800 ./check "$c" --tier quick 2>&1); rc=$?
  kinds=$(echo "$o" | grep "^  kind=" | sed 's/  kind=//' | tr '\n' ' ')
  echo "check $c quick: rc=$rc kinds: $kinds" | tee -a "$R"
done
