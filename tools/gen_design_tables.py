#!/usr/bin/env python3
"""Regenerates the generated tables of DESIGN.md (between <!-- BEGIN x --> / <!-- END x --> markers)
from known_findings.json, seeded/*/, mutants/*.patch + mutants/RESULTS.json and mc/manifest_checks.json."""
import json, os, re, glob
V = '/verif'

def findings():
    d = json.load(open(f'{V}/known_findings.json'))
    out = ['| property | id | status | where | what fails |', '|---|---|---|---|---|']
    for e in sorted(d['findings'], key=lambda e: (e['property'], e['id'])):
        st = e['status'] + (' ' + e.get('commit', '') if e['status'] == 'fixed' else '')
        out.append(f"| {e['property']} | {e['id']} | {st} | {e['where']} | {e['what_fails']} |")
    return '\n'.join(out)

def seeded():
    out = ['| seeded change | property | what it needs to manifest | demo (unchanged / changed) | pinned suite with the change | detected by (quick tier) |', '|---|---|---|---|---|---|']
    for d in sorted(glob.glob(f'{V}/seeded/*/')):
        name = os.path.basename(d.rstrip('/'))
        try:
            meta = json.load(open(d + 'meta.json'))
        except Exception:
            meta = {}
        res = open(d + 'result.txt').read() if os.path.exists(d + 'result.txt') else ''
        demo = re.search(r'demo: unchanged exit=(\d+) mutant exit=(\d+)', res)
        tests = re.findall(r'failing-set=(\w+)', res)
        det = []
        for m in re.finditer(r'(re)?check (C\d+) quick: rc=(\d+) kinds: (.*)', res):
            kinds = m.group(4).strip().split()
            shown = ', '.join(kinds[:3]) + (' ...' if len(kinds) > 3 else '')
            verdict = 'DETECTED (' + shown + ')' if m.group(3) == '1' else \
                ('harness error (history dependent, not reproducible case by case)' if m.group(3) == '2' else 'not detected')
            det.append(('after strengthening the check: ' if m.group(1) else '') + f"{m.group(2)}: {verdict}")
        if os.path.exists(d + 'neutralised.txt'):
            det.append('NEUTRALISED: ' + open(d + 'neutralised.txt').read().strip()[:160])
        needs = str(meta.get('needs_to_manifest', ''))[:300].replace('\n', ' ').replace('|', '/')
        out.append(f"| {name} | {meta.get('property', name[:3])} | {needs} | {demo.group(1) + ' / ' + demo.group(2) if demo else '?'} | {('same 8 failures' if tests and tests[-1] == 'same' else 'DIFFERENT' if tests else 'not run')} | {'; '.join(det)} |")
    return '\n'.join(out)

def mutants():
    p = f'{V}/mutants/RESULTS.json'
    res = json.load(open(p)) if os.path.exists(p) else {}
    out = ['| mutant patch | run against | result |', '|---|---|---|']
    for f in sorted(glob.glob(f'{V}/mutants/*.patch')):
        n = os.path.basename(f)
        for chk, r in sorted(res.get(n, {}).items()):
            out.append(f'| {n} | {chk} | {r} |')
        if n not in res:
            out.append(f'| {n} | - | not run in the last sweep |')
    return '\n'.join(out)

def checks():
    c = json.load(open(f'{V}/mc/manifest_checks.json'))
    out = ['| id | engine | deciding technique |', '|---|---|---|']
    for k in sorted(c):
        out.append(f"| {k} | {c[k]['engine']} | {c[k]['technique']} |")
    return '\n'.join(out)

gens = {'findings': findings, 'seeded': seeded, 'mutants': mutants, 'checks': checks}
s = open(f'{V}/DESIGN.md').read()
for k, f in gens.items():
    pat = re.compile(rf'(<!-- BEGIN {k} -->\n).*?(<!-- END {k} -->)', re.S)
    if pat.search(s):
        s = pat.sub(lambda m: m.group(1) + f() + '\n' + m.group(2), s)
open(f'{V}/DESIGN.md', 'w').write(s)
print('tables regenerated')
