#!/bin/sh
# tools/run_all.sh [tier] [seed]: run every registered check in /verif, print one line per check.
tier=${1:-quick}; seed=${2:-0}
cd /verif
for c in $(python3 -c "import json; print(' '.join(x['property_id'] for x in json.load(open('MANIFEST.json'))['checks']))"); do
  s=$(date +%s)
  out=$(VERIF_SEED=$seed ./check $c --tier $tier 2>&1); rc=$?
  e=$(date +%s)
  echo "$c rc=$rc $((e-s))s $(echo "$out" | grep -cE '^KNOWN-FINDING') known  $(echo "$out" | grep -E '^VIOLATION|^HARNESS' | head -2 | tr '\n' ' ')"
done
