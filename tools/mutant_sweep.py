#!/usr/bin/env python3
"""tools/mutant_sweep.py [pattern]: run every mutants/<prefix>-*.patch against the check named by its prefix
(c08-... -> C08; extra pairs in EXTRA) and record the outcome in mutants/RESULTS.json."""
import glob, json, os, re, subprocess, sys
V = '/verif'
EXTRA = {'c08-resched-now-plus-delta.patch': ['C05'], 'c08-taskq-no-tiebreak.patch': ['C07', 'C09'],
         'c05-nrt-tempo-resched-secs.patch': ['C12']}
pat = sys.argv[1] if len(sys.argv) > 1 else ''
p = f'{V}/mutants/RESULTS.json'
res = json.load(open(p)) if os.path.exists(p) else {}
for f in sorted(glob.glob(f'{V}/mutants/*.patch')):
    n = os.path.basename(f)
    if pat and pat not in n:
        continue
    checks = [n[:3].upper()] + EXTRA.get(n, [])
    for c in checks:
        r = subprocess.run([f'{V}/tools/mutant.sh', f, c], capture_output=True, text=True)
        kinds = sorted(set(re.findall(r'kind=(\S+)', r.stdout)))
        if r.returncode == 0:
            out = 'DETECTED: ' + ', '.join(kinds[:4])
        else:
            last = r.stdout.strip().splitlines()[-1] if r.stdout.strip() else ''
            out = 'MISSED ' + last
        res.setdefault(n, {})[c] = out
        print(n, c, out, flush=True)
        json.dump(res, open(p, 'w'), indent=1, sort_keys=True)
