#!/bin/sh
# tools/apply_fix.sh <patch file> "<commit message (must start with fix:)>" : apply one fix patch to /repo as its own commit
p=$(readlink -f "$1"); msg="$2"
cd /repo || exit 2
git apply --check "$p" 2>/dev/null || { patch -p1 --dry-run -s < "$p" >/dev/null 2>&1 || { echo "DOES NOT APPLY: $p"; exit 1; }; patch -p1 -s < "$p"; git add -A sc3; git commit -qm "$msg"; git log --oneline -1; exit 0; }
git apply "$p" && git add -A sc3 && git commit -qm "$msg" && git log --oneline -1
