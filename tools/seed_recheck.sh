#!/bin/sh
# tools/seed_recheck.sh <name> <CHECK>...: re-run checks against a stored seeded change (seeded/<name>/patch.diff)
name="$1"; shift
out=/verif/seeded/$name
mut=$(mktemp -d /tmp/sr-XXXXXX); trap 'rm -rf "$mut"' EXIT
cp -r /repo/sc3 "$mut"/
(cd "$mut" && patch -p1 -s < "$out/patch.diff") || { echo "$name: PATCH-DOES-NOT-APPLY"; exit 2; }
cd /verif
for c in "$@"; do
  o=$(SC3_REPO="$mut" VERIF_NO_EVIDENCE=1 timeout 1800 ./check "$c" --tier quick 2>&1); rc=$?
  kinds=$(echo "$o" | grep "^  kind=" | sed 's/  kind=//' | tr '\n' ' ')
  echo "recheck $c quick: rc=$rc kinds: $kinds" | tee -a "$out/result.txt"
done
