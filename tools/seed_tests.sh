#!/bin/sh
# tools/seed_tests.sh <name>...: run the pinned suite against each seeded mutant (scratch copy), record the failing set.
for name in "$@"; do
  out=/verif/seeded/$name
  mut=$(mktemp -d /tmp/st-XXXXXX)
  cp -r /repo/sc3 /repo/tests /repo/pyproject.toml /repo/README.md "$mut"/
  (cd "$mut" && patch -p1 -s < "$out/patch.diff") || { echo "$name: patch failed"; rm -rf "$mut"; continue; }
  (cd "$mut" && timeout 1500 unshare -n sh -c 'ip link set lo up; exec "$@"' sh /venv/bin/python -W ignore -m pytest -q -p no:cacheprovider --timeout=900 tests 2>&1 | grep -E "^FAILED|^ERROR|passed|failed" ) > "$out/tests_mutant.txt" 2>&1
  grep -E "^FAILED|^ERROR" "$out/tests_mutant.txt" | sed 's/ - .*//' | sort > "$out/tests_failing.txt"
  n=$(wc -l < "$out/tests_failing.txt")
  same=$(diff -q "$out/tests_failing.txt" /verif/seeded/BASELINE_FAILING.txt >/dev/null 2>&1 && echo same || echo DIFFERENT)
  echo "$name: $(tail -1 "$out/tests_mutant.txt") failing-set=$same" | tee -a "$out/result.txt"
  rm -rf "$mut"
done
