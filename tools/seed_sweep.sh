#!/bin/sh
# tools/seed_sweep.sh: re-run, for every stored seeded change, the check of the property it was aimed at
# (plus the checks listed in seeded/<name>/also.txt) and print DETECTED/MISSED per seed.
cd /verif
for d in seeded/*/; do
  n=$(basename $d); [ -f $d/patch.diff ] || continue
  [ -f $d/neutralised.txt ] && { echo "NEUTRALISED $n"; continue; }
  c=${n%%-*}
  also=$(cat $d/also.txt 2>/dev/null)
  r=$(tools/seed_recheck.sh $n $c $also 2>&1 | grep "^recheck" | tr '\n' ';')
  case "$r" in *"rc=1"*) echo "DETECTED $n :: $r";; *) echo "MISSED $n :: $r";; esac
done
