#!/bin/sh
# Offline setup: nothing to build (pure Python); verify tools and run oracle self-tests.
cd "$(dirname "$0")" || exit 2
set -e
export PYTHONDONTWRITEBYTECODE=1
/venv/bin/python -c "import sys; sys.path.insert(0, '${SC3_REPO:-/repo}'); import sc3; print('sc3 from', sc3.__file__)"
mkdir -p evidence replays
/venv/bin/python -B -m mc.selftest
