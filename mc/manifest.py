"""Regenerates /verif/MANIFEST.json from the table below:  python -m mc.manifest"""
import os
import json

VERIF = os.path.dirname(os.path.dirname(os.path.abspath(__file__)))

CHECKS = {
    'C01': dict(
        engine='progenum',
        technique='bounded-exhaustive enumeration of SSA graph programs compiled by the real SynthDef; emitted bytes decoded by an independent SCgf reader and compared in polynomial normal form with a reference interpreter',
        text='Every straight-line graph program over the leaf/constant/operator alphabet (all sharing patterns, all output options) up to 2 statements (3 with reduced pools in thorough) plus every operator method is compiled and its bytes are checked unit by unit against the AST meaning; this decides the property for all programs below the bound, which the hand-written tests (bytes never inspected) cannot.',
        note='Trusted: mc/oracles/{scgf,poly,server_ops}.py and the reference interpreter in mc/graphprog.py. Bounds: 1 statement full pool, 2 statements small pool, 3 statements tiny pools (quick: 1/64 slice). Nothing is claimed for larger programs or other unit classes.',
        ref='5 C01'),
    'C16': dict(
        engine='histbfs',
        technique='explicit-state BFS over alloc/free/double-free histories x all tie-break answers on the real allocators, Server constructors and NodeIDAllocator, against an interval-set model',
        text="Every history up to the depth bound, including every answer of the allocator's random tie-break, for every listed size, reserved offset and client address offset, is run on the real ContiguousBlockAllocator and on Bus/Buffer constructors of a real Server for clients 0-2. Each answer must be inside the client's partition and disjoint from live ranges; 'no space' is accepted only when the model has no free run. For sizes 4-5 the reachable state space is closed (any history length). Node ids are checked for range and distinctness across wrap-around for users 0, 1, 31.",
        note='Trusted: mc/oracles/alloc_ref.py (interval set; equal per-client slices behind the i/o channels; 26-bit id window) and the state key (block table, free lists in dict order with identity, top). choice is the only nondeterminism (rebinding sc3.base.builtins.choice). reserve() and alloc_perm are not covered. The server level uses a never-booted Server with small option values.',
        ref='5 C16'),
    'C09': dict(
        engine='histbfs',
        technique='explicit-state BFS over all operation histories of the real TaskQueue/OscScore up to a depth, state-deduplicated, each step compared with a list reference model',
        text='Every history of add/re-add/remove/pop/clear up to the depth bound is executed on the real TaskQueue and all queries are compared with a sorted-list model after every step; bounded exhaustive, so it covers every history (not a sample) below the bound.',
        note='Trusted: the list model in mc/checks/c09.py; bound: depth 6 quick / 8 thorough over 3 priorities x 3 tasks; counters are abstracted to ranks in the state key (queue only compares them).',
        ref='5 C09'),
    'C19': dict(
        engine='progenum',
        technique='bounded-exhaustive Env specs/constructors vs reference array, _at constraints, decoded EnvGen inputs',
        text='All envelope specifications of the enumerated families (level lists of 2-5 values, scalar/short/full time lists, all 14 documented shape names, numbers and mixed or wrapped curve lists, all release/loop node pairs, every standard constructor over 3-4 values per parameter including defaults) are checked: each encodes to exactly the documented EnvGen array, evaluates client-side to its levels at breakpoints / between neighbours inside segments / last level afterwards on a 1/8 s grid plus all breakpoints, and appears identically as float32 in the decoded EnvGen unit inputs of a built definition.',
        note='Trusted: mc/oracles/env_ref.py (array layout, shape numbers, constructor breakpoints typed from the Env/EnvGen help) and a private SCgf v2 reader. Inside segments only betweenness is demanded, on documented shape domains. Multichannel/UGen levels, IEnvGen, circle, Env.step node numbering and values before t=0 are not covered.',
        ref='5 C19'),
    'C08': dict(
        engine='schedx',
        technique='stateless preemption- and lateness-bounded exploration of all interleavings of driver threads with the real clock threads under a cooperative scheduler and virtual time',
        text='For 75+ scenario programs (2-3 threads issuing sched/sched_abs/clear/stop/tempo calls, tasks that re-schedule or raise) every schedule with <=1 preemption and <=1 late timer (thorough: 2+1 and 3+0) is executed on the real SystemClock/TempoClock/AppClock code; each trace is checked for exactly-once, not-early, not-late (no waiting for an unrelated deadline), (time, scheduling order) order, reschedule relative to scheduled time, survival of raising tasks, clear/stop cancellation, dead-lock and lock-free queue access.',
        note='Trusted: mc/vthreading.py (cooperative threading + virtual time), the per-execution clock re-creation mirror in mc/seams.py, the trace oracle in mc/checks/c08.py. Interleavings only at synchronisation operations; arbitrary bytecode-level switches and real OS timing are not modelled. Bounds: preemptions/lateness as stated; executions run to a horizon.',
        ref='5 C08'),
}

NOT_APPLICABLE = {}

ALL = [f'C{i:02d}' for i in range(1, 21)]


def build():
    checks = []
    for pid in ALL:
        c = CHECKS.get(pid)
        if not c:
            continue
        checks.append({
            'property_id': pid,
            'quick_cmd': f'./check {pid} --tier quick',
            'thorough_cmd': f'./check {pid} --tier thorough',
            'evidence_file': f'/verif/evidence/{pid}.json',
            'replay_cmd_template': f'./check {pid} --replay {{path}}',
            'engine': c['engine'],
            'level_claimed': {'category': 'model_checking', 'text': c['text'],
                              'design_ref': 'DESIGN.md section ' + c['ref']},
            'level_note': c['note'],
            'technique': c['technique'],
        })
    na = [{'property_id': p, 'reason': NOT_APPLICABLE.get(
        p, 'check not built yet in this revision of /verif (planned, see DESIGN.md section 5); not claimed until its machinery is committed')}
        for p in ALL if p not in CHECKS]
    return {
        'version': 1,
        'setup_cmd': './setup.sh',
        'hooks': {
            'guard': 'SC3_VERIF',
            'enable': 'no source hooks: the harness rebinds module globals of sc3 (threading, time, OSC/MIDI interfaces) in its own worker processes before sc3.init(); /repo is imported as is',
            'baseline_off_cmd': 'cd /repo && /venv/bin/python -m pytest -ra -q -p no:cacheprovider --timeout=900 --continue-on-collection-errors',
            'source_commits': [],
            'add_only': True,
        },
        'engines': [
            {'name': 'progenum', 'path': 'mc/engines/progenum.py', 'serves_properties': ['C01', 'C02', 'C03', 'C04', 'C06', 'C12', 'C13', 'C14', 'C15', 'C19'], 'kind_free_text': 'bounded-exhaustive enumeration of programs/inputs, run through the real API, compared with an independent reference semantics'},
            {'name': 'histbfs', 'path': 'mc/engines/histbfs.py', 'serves_properties': ['C09', 'C11', 'C16', 'C17', 'C18', 'C20'], 'kind_free_text': 'explicit-state BFS over operation histories on real objects with reference model and canonical state keys'},
            {'name': 'schedx', 'path': 'mc/engines/schedx.py', 'serves_properties': ['C05', 'C07', 'C08', 'C10', 'C11', 'C20'], 'kind_free_text': 'stateless preemption-bounded exploration of all thread interleavings of the real clock threads under a cooperative scheduler with virtual time'},
            {'name': 'faultenum', 'path': 'mc/engines/faultenum.py', 'serves_properties': ['C18', 'C02', 'C06'], 'kind_free_text': 'exhaustive single-fault enumeration over base inputs'},
        ],
        'checks': checks,
        'not_applicable': na,
        'notes': 'All checks: ./check <ID> --tier quick|thorough ; evidence in evidence/<ID>.json ; known findings in known_findings.json ; see DESIGN.md.',
    }


if __name__ == '__main__':
    m = build()
    with open(os.path.join(VERIF, 'MANIFEST.json'), 'w') as f:
        json.dump(m, f, indent=1)
        f.write('\n')
    print('checks:', [c['property_id'] for c in m['checks']])
