"""Regenerates /verif/MANIFEST.json from the table below:  python -m mc.manifest"""
import os
import json

VERIF = os.path.dirname(os.path.dirname(os.path.abspath(__file__)))

CHECKS = json.load(open(os.path.join(VERIF, 'mc', 'manifest_checks.json')))

NOT_APPLICABLE = {}

ALL = [f'C{i:02d}' for i in range(1, 21)]


def build():
    checks = []
    for pid in ALL:
        c = CHECKS.get(pid)
        if not c:
            continue
        checks.append({
            'property_id': pid,
            'quick_cmd': f'./check {pid} --tier quick',
            'thorough_cmd': f'./check {pid} --tier thorough',
            'evidence_file': f'/verif/evidence/{pid}.json',
            'replay_cmd_template': f'./check {pid} --replay {{path}}',
            'engine': c['engine'],
            'level_claimed': {'category': 'model_checking', 'text': c['text'],
                              'design_ref': 'DESIGN.md section ' + c['ref']},
            'level_note': c['note'],
            'technique': c['technique'],
        })
    na = [{'property_id': p, 'reason': NOT_APPLICABLE.get(
        p, 'check not built yet in this revision of /verif (planned, see DESIGN.md section 5); not claimed until its machinery is committed')}
        for p in ALL if p not in CHECKS]
    return {
        'version': 1,
        'setup_cmd': './setup.sh',
        'hooks': {
            'guard': 'SC3_VERIF',
            'enable': 'no source hooks: the harness rebinds module globals of sc3 (threading, time, OSC/MIDI interfaces) in its own worker processes before sc3.init(); /repo is imported as is',
            'baseline_off_cmd': 'cd /repo && /venv/bin/python -m pytest -ra -q -p no:cacheprovider --timeout=900 --continue-on-collection-errors',
            'source_commits': [],
            'add_only': True,
        },
        'engines': [
            {'name': 'progenum', 'path': 'mc/engines/progenum.py', 'serves_properties': ['C01', 'C02', 'C03', 'C04', 'C06', 'C12', 'C13', 'C14', 'C15', 'C19'], 'kind_free_text': 'bounded-exhaustive enumeration of programs/inputs, run through the real API, compared with an independent reference semantics'},
            {'name': 'histbfs', 'path': 'mc/engines/histbfs.py', 'serves_properties': ['C09', 'C11', 'C16', 'C17', 'C18', 'C20'], 'kind_free_text': 'explicit-state BFS over operation histories on real objects with reference model and canonical state keys'},
            {'name': 'schedx', 'path': 'mc/engines/schedx.py', 'serves_properties': ['C05', 'C07', 'C08', 'C10', 'C11', 'C20'], 'kind_free_text': 'stateless preemption-bounded exploration of all thread interleavings of the real clock threads under a cooperative scheduler with virtual time'},
            {'name': 'faultenum', 'path': 'mc/engines/faultenum.py', 'serves_properties': ['C18', 'C02', 'C06'], 'kind_free_text': 'exhaustive single-fault enumeration over base inputs'},
        ],
        'checks': checks,
        'not_applicable': na,
        'notes': 'All checks: ./check <ID> --tier quick|thorough ; evidence in evidence/<ID>.json ; known findings in known_findings.json ; see DESIGN.md.',
    }


if __name__ == '__main__':
    m = build()
    with open(os.path.join(VERIF, 'MANIFEST.json'), 'w') as f:
        json.dump(m, f, indent=1)
        f.write('\n')
    print('checks:', [c['property_id'] for c in m['checks']])
