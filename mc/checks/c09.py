"""C09 - time-ordered collections are stable priority queues under any history.

E2 over the real TaskQueue (and OscScore as a consumer) against a plain list
of (prio, seq, task); E1 families for the other consumers against the list
models of mc/oracles/timeq_ref.py: clock tasks (NRT scheduler: sched,
sched_abs, tempo/beats change, main.reset; the real-time clocks' own queues
under virtual time, default schedule: sched, sched_abs, clear), parallel
pattern streams (Ppar), exit actions (main._atexitq drained by
main._shutdown), and a fill-disturb-drain family with 5-6 live entries.

Entries that are due at the very instant at which an earlier entry of that
instant runs are pending like any other (re-scheduling moves them, clear()
cancels them): 'sametick' programs on every clock in both modes, and the app
clock's Scheduler driven directly (both recursive modes).  clear() removes a
clock's pending entries in NRT mode as well.

Don't-cares: the unit of OscScore.duration; the time a score entry gets for a
"no time" (None) or negative bundle time (only its order is judged); the
order between entries of different real-time clocks; plain functions scheduled
more than once (each sched() wraps them anew)."""

from mc import core
from mc.engines import histbfs

MODE = 'nrt'
MODNAME = 'mc.checks.c09'

INF = float('inf')


class RefQueue:
    """The boring model: insertion-ordered list of [prio, seq, task]."""

    def __init__(self):
        self.items = []
        self.seq = 0

    def add(self, prio, task):
        self.items = [e for e in self.items if e[2] != task]
        self.items.append([prio, self.seq, task])
        self.seq += 1

    def remove(self, task):
        self.items = [e for e in self.items if e[2] != task]

    def sorted(self):
        return sorted(self.items, key=lambda e: (e[0], e[1]))

    def pop(self):
        if not self.items:
            return 'KeyError'
        e = self.sorted()[0]
        self.items.remove(e)
        return [e[0], e[2]]

    def peek(self, smallest=True):
        if not self.items:
            return 'KeyError'
        e = self.sorted()[0 if smallest else -1]
        return [e[0], e[2]]

    def empty(self):
        return not self.items

    def clear(self):
        self.items = []

    def listing(self):
        return [[e[0], e[2]] for e in self.sorted()]


def _observe(q):
    """All non-mutating queries of the implementation."""
    def call(f, *a):
        try:
            r = f(*a)
            return [r[0], r[1]]
        except KeyError:
            return 'KeyError'
        except Exception as e:  # any other exception is observable as such
            return type(e).__name__
    try:
        lst = [[p, t] for p, t in q]
    except Exception as e:
        lst = type(e).__name__
    try:
        emp = q.empty()
    except Exception as e:
        emp = type(e).__name__
    return {'peek': call(q.peek), 'peek_largest': call(q.peek, False),
            'empty': emp, 'list': lst}


class TaskQueueSys:
    def __init__(self, params):
        from sc3.base._taskq import TaskQueue
        self.q = TaskQueue()
        self.ref = RefQueue()
        self.prios = params['prios']
        self.tasks = params['tasks']
        self.flags = {'tie': False, 'readd': False, 'rm': False}
        self.last = None

    def ops(self):
        o = [['add', p, t] for p in self.prios for t in self.tasks]
        o += [['remove', t] for t in self.tasks]
        o += [['pop'], ['clear']]
        return o

    def apply(self, op):
        q, ref = self.q, self.ref
        name = op[0]
        dis = []
        if name == 'add':
            _, p, t = op
            if any(e[2] == t for e in ref.items):
                self.flags['readd'] = True
            if any(e[0] == p and e[2] != t for e in ref.items):
                self.flags['tie'] = True
            exp = None
            ref.add(p, t)
            try:
                obs = q.add(p, t)
            except Exception as e:
                obs = type(e).__name__
        elif name == 'remove':
            self.flags['rm'] = True
            exp = None
            ref.remove(op[1])
            try:
                obs = q.remove(op[1])
            except Exception as e:
                obs = type(e).__name__
        elif name == 'pop':
            exp = ref.pop()
            try:
                r = q.pop()
                obs = [r[0], r[1]]
            except KeyError:
                obs = 'KeyError'
            except Exception as e:
                obs = type(e).__name__
        elif name == 'clear':
            exp = None
            ref.clear()
            try:
                obs = q.clear()
            except Exception as e:
                obs = type(e).__name__
        else:
            raise core.HarnessError(f'bad op {op}')
        if obs != exp:
            dis.append((f'taskq-{name}-result', exp, obs, ''))
        before = self._implkey()
        o = _observe(q)
        if before is not None and self._implkey() != before:
            dis.append(('taskq-query-mutates', before, self._implkey(),
                        'peek/empty/iteration changed the queue'))
        e = {'peek': ref.peek(), 'peek_largest': ref.peek(False),
             'empty': ref.empty(), 'list': ref.listing()}
        for k in ('peek', 'peek_largest', 'empty', 'list'):
            if o[k] != e[k]:
                dis.append((f'taskq-{k}-after-{name}', e[k], o[k],
                            f'reference contents {ref.sorted()}'))
        self.last = [obs, o]
        return dis

    def _implkey(self):
        # internal layout, used only to refine the state key and to see
        # whether a query mutated the queue; a refactored queue without these
        # attributes is still checked through its public behaviour
        try:
            return self._implkey_raw()
        except AttributeError:
            return None

    def _implkey_raw(self):
        q = self.q
        removed = type(q)._REMOVED
        counts = sorted(e[1] for e in q._queue)
        rank = {c: i for i, c in enumerate(counts)}
        return [[[e[0], rank[e[1]], 'X' if e[2] is removed else e[2]]
                 for e in q._queue], q._removed_counter,
                sorted(q._entry_finder, key=repr)]

    def key(self):
        seqs = sorted(e[1] for e in self.ref.items)
        rank = {c: i for i, c in enumerate(seqs)}
        refk = [[e[0], rank[e[1]], e[2]] for e in self.ref.items]
        return [refk, self._implkey()]

    def nontrivial(self):
        return any(self.flags.values())

    def outcome(self):
        return self.last


class ScoreSys:
    """OscScore as a consumer: add bundles at times from a small menu (outside
    routines times are absolute; None and negative times mean "now" = 0.0);
    duration must track the latest entry and the finished list - read through
    the public route finish(tail) + .list as well - must be time ordered with
    FIFO ties, the closing dummy command being the most recent entry of its
    time."""

    def __init__(self, params):
        from sc3.base.main import main
        from sc3.base._oscinterface import OscScore
        main.reset()
        self.score = OscScore()
        self.times = params['times']
        self.tails = params.get('tails', [])
        self.ref = RefQueue()
        self.ref.add(0.0, 'root')
        self.n = 0
        self.tie = False
        self.finished = False
        self.last = None

    def ops(self):
        if self.finished:
            return []
        return [['add', t] for t in self.times] + \
            [['finish', t] for t in self.tails]

    @staticmethod
    def _tag(t):
        return {'root': '/g_new', 'tail': '/c_set'}.get(t, t)

    def apply(self, op):
        from sc3.base.clock import SystemClock
        dis = []
        if op[0] == 'finish':
            tail = op[1]
            self.finished = True
            try:
                self.score.finish(tail)
                lst = [[b[0], b[1][0]] for b in self.score.list]
            except Exception as e:
                return [('score-finish-raises', None, repr(e), '')]
            # which time the closing command gets is C07's business (after
            # the last bundle + tail): the model takes the time the library
            # gave it and judges the order only - it is the most recent
            # entry of its time
            at = [b[0] for b in lst if b[1] == '/c_set']
            if len(at) != 1 or not isinstance(at[0], (int, float)) or \
                    at[0] != at[0]:
                return [('score-closing-command-not-listed-once', 1,
                         repr(at), '')]
            if any(e[0] == at[0] for e in self.ref.items):
                self.tie = True
            self.ref.add(float(at[0]), 'tail')
            exp = [[p, self._tag(t)] for p, t in self.ref.listing()]
            if lst != exp:
                dis.append(('score-finished-order', exp, lst,
                            'OscScore.finish(tail); .list'))
        else:
            _, t = op
            tag = f'/m{self.n}'
            self.n += 1
            try:
                self.score.add([t, [tag, self.n]])
            except Exception as e:
                return [('score-add-raises', None, repr(e), '')]
            if t is None or t < 0:
                # "no time" / a time before the start: which time the entry
                # gets is not this property's business - the model takes the
                # time the library gave it and judges the order only
                at = [p for p, e in self.score._scoreq
                      if e.bndl[1][0] == tag]
                if len(at) != 1 or not isinstance(at[0], (int, float)) or \
                        at[0] != at[0]:
                    return [('score-entry-not-queued-once', 1, repr(at), '')]
                at = float(at[0])
            else:
                at = float(t)
            if any(e[0] == at for e in self.ref.items):
                self.tie = True
            self.ref.add(at, tag)
        # duration: compared up to the library's constant factor (DESIGN C09:
        # the unit of `duration` is a don't-care here).
        exp_latest = self.ref.peek(False)[0]
        d = self.score.duration
        got_latest = None if d is None else d / SystemClock._OSC_TO_SECONDS
        if got_latest != exp_latest:
            dis.append(('score-duration-not-latest', exp_latest, got_latest,
                        ''))
        lst = [[e.bndl[0], e.bndl[1][0]] for _, e in self.score._scoreq]
        exp = [[p, self._tag(t)] for p, t in self.ref.listing()]
        if lst != exp:
            dis.append(('score-order', exp, lst, ''))
        self.last = lst
        return dis

    def key(self):
        return [self.ref.listing(), self.finished]

    def nontrivial(self):
        return self.tie

    def outcome(self):
        return self.last


# ---------------------------------------------------------------------------
# Clock tasks in non-real-time mode: one global time-ordered queue of
# (clock, task) schedulings behind SystemClock / TempoClock / AppClock
# ---------------------------------------------------------------------------

NS_TEMPO = {'s': 1.0, 't2': 2.0, 'a': 1.0}
NS_SPEC = {'s': ['system'], 't2': ['tempo', 2.0], 'a': ['app']}


def nrtsched_programs():
    """A controller routine on SystemClock re-schedules a function task f0
    (returns 1.0 three times) and a routine r0 (yields 1.0 three times) that
    are already pending / have already been awakened."""
    out = []
    targets = ['f0', 'r0']
    clocks = ['s', 't2', 'a']
    ops = [[c, d, t] for c in clocks for d in (0, 0.25, 1.0) for t in targets]
    for c0 in clocks:                       # both tasks start at 0 on c0
        for w1 in (0.5, 1.5):
            for op1 in ops:
                for op2 in [None] + ops:
                    k = [['yield', w1], ['sched'] + op1]
                    if op2 is not None:
                        if op2 == op1:
                            continue
                        k += [['yield', 0.25], ['sched'] + op2]
                    used = {c0, op1[0]} | ({op2[0]} if op2 else set())
                    cl = {'s': NS_SPEC['s']}
                    for c in used:
                        cl[c] = NS_SPEC[c]
                    out.append({
                        'clocks': cl,
                        # an awakeable object: ONE item however often it is
                        # scheduled (a plain function is wrapped anew by
                        # every sched() call and is a new item each time)
                        'funcs': {'f0': {'returns': [1.0, 1.0, 1.0, None],
                                         'kind': 'awakeable'}},
                        'routines': {'k': k,
                                     'r0': [['yield', 1.0], ['yield', 1.0],
                                            ['yield', 1.0]]},
                        'actors': {'main': [['sched', c0, 0, 'f0'],
                                            ['sched', c0, 0, 'r0'],
                                            ['play', 'k', 's', 0]]},
                        'horizon': 12.0})
    return out


def nrtsched_expected(prog):
    """Reference: a list model of pending (clock, task) schedulings ordered
    by (time, scheduling order); re-scheduling a pending (clock, task) moves
    it to its new time as the most recent entry."""
    pend = []       # [time, seq, clock, task]
    seq = [0]
    out = []
    calls = {'f0': 0, 'r0': 0, 'k': 0}
    rets = {'f0': [1.0, 1.0, 1.0, None], 'r0': [1.0, 1.0, 1.0, None]}
    kbody = prog['routines']['k']

    def add(t, c, task):
        pend[:] = [e for e in pend if not (e[2] == c and e[3] == task)]
        pend.append([t, seq[0], c, task])
        seq[0] += 1
    for op in prog['actors']['main']:
        if op[0] == 'sched':
            add(op[2] / NS_TEMPO[op[1]], op[1], op[3])
        else:
            add(0.0, 's', 'k')
    kpos = [0]
    while pend:
        pend.sort(key=lambda e: (e[0], e[1]))
        t, _, c, task = pend.pop(0)
        if task == 'r0' and calls['r0'] >= len(rets['r0']):
            continue        # a finished routine: awakening it shows nothing
        out.append([task, t, c])
        if task == 'k':
            while kpos[0] < len(kbody):
                st = kbody[kpos[0]]
                kpos[0] += 1
                if st[0] == 'yield':
                    add(t + st[1], 's', 'k')
                    break
                _, c2, d, tg = st
                add(t + d / NS_TEMPO[c2], c2, tg)
            continue
        n = calls[task]
        calls[task] += 1
        r = rets[task][n] if n < len(rets[task]) else None
        if r is not None:
            add(t + r / NS_TEMPO[c], c, task)
    return out


def nrtsched_check(prog):
    from mc import rtprog
    res = rtprog.run_nrt(prog)
    got = []
    for e in res['trace']:
        if e[0] in ('wake', 'res'):
            got.append([e[1], e[4], e[7]])
        elif e[0] == 'raises':
            got.append(['raises', e[1], str(e[3])])
    exp = nrtsched_expected(prog)
    # a routine that is exhausted is not awakened again by the model either:
    # its 4th call returns None; the library logs nothing for a StopStream
    dis = []
    if got != exp:
        n = 0
        while n < min(len(got), len(exp)) and got[n] == exp[n]:
            n += 1
        g = got[n] if n < len(got) else None
        e = exp[n] if n < len(exp) else None
        if g is not None and e is not None and g[0] == e[0] and g[2] == e[2]:
            kind = 'nrt-clock-task-time'
        elif g is not None and sum(1 for x in got if x[0] == g[0]) > \
                sum(1 for x in exp if x[0] == g[0]):
            kind = 'nrt-clock-task-awakened-more-than-scheduled'
        elif e is not None and sum(1 for x in got if x[0] == e[0]) < \
                sum(1 for x in exp if x[0] == e[0]):
            kind = 'nrt-clock-task-lost'
        else:
            kind = 'nrt-clock-task-order'
        dis.append((kind, exp, got, f'first difference at entry {n}: '
                    f'expected {e}, observed {g} ([task, seconds, clock])'))
    return dis, got


def nrtsched_work(job):
    from mc.engines import progenum
    acc = progenum.Acc(max_samples=2)
    progs = nrtsched_programs()
    for i, prog in enumerate(progs):
        if i % job['of'] != job['shard']:
            continue
        if job.get('slice_of') and (i // job['of']) % job['slice_of'] != \
                job['slice_ix']:
            continue
        dis, got = nrtsched_check(prog)
        case = {'part': 'nrtsched', 'prog': prog}
        for kind, exp, obs, detail in dis:
            acc.violation(kind, case, exp, obs, detail,
                          size=len(core.canon(prog)))
        acc.case(case, True, got, steps=len(got))
    return acc.result()


# ---------------------------------------------------------------------------
# More clock-task families (NRT scheduler and the real-time clocks' own
# queues under virtual time), against mc/oracles/timeq_ref.clockq_expected
# ---------------------------------------------------------------------------

R3 = [['yield', 1.0], ['yield', 1.0], ['yield', 1.0]]
F3 = {'returns': [1.0, 1.0, 1.0, None], 'kind': 'awakeable'}


def oneclock_programs():
    """Everything on ONE clock C (so that the real-time clocks, which have
    one queue each and no order between clocks, are decided too): f0 and r0
    start at 0, a plain function g0 at 0.25 (period 0.5: it ties with the
    controller and with re-scheduled tasks), a controller routine on C
    re-schedules f0 / r0 with sched / sched_abs (absolute beats 2 and 2.5,
    always in the future) or clears the clock."""
    out = []
    for C in ('s', 't2', 'a'):
        ops = [['sched', C, d, t] for d in (0, 0.25, 1.0)
               for t in ('f0', 'r0')]
        if C != 'a':        # the app clock has no sched_abs
            ops += [['sched_abs', C, b, t] for b in (2.0, 2.5)
                    for t in ('f0', 'r0')]
        ops += [['clear', C]]
        # the controller re-schedules itself: the entry made by sched() is
        # moved by the yield that follows (or awakens the finished routine,
        # which shows nothing)
        ops += [['sched', C, d, 'k'] for d in (0, 0.25, 1.0)]
        for w1 in (0.5, 1.5):
            for op1 in ops:
                for op2 in [None] + ops:
                    if op2 == op1:
                        continue
                    k = [['yield', w1], op1]
                    if op2 is not None:
                        k += [['yield', 0.25], op2]
                    out.append({
                        'clocks': {'s': NS_SPEC['s'], C: NS_SPEC[C]},
                        # g0: a plain function (wrapped by the clock; it is
                        # scheduled once and only re-schedules itself)
                        'funcs': {'f0': F3,
                                  'g0': {'returns': [0.5, 0.5, None],
                                         'kind': 'func'}},
                        'routines': {'k': k, 'r0': R3},
                        'actors': {'main': [['sched', C, 0, 'f0'],
                                            ['sched', C, 0, 'r0'],
                                            ['sched', C, 0.25, 'g0'],
                                            ['play', 'k', C, 0]]},
                        'horizon': 12.0})
    return out


def sametick_programs():
    """Several entries due at the SAME instant of one clock, the controller
    among them and not the last one: k (first, or between f0 and r0) yields
    1.0 at time 0, f0 and r0 re-schedule themselves to 1.0 as well; at 1.0 the
    controller re-schedules (to the same instant, a little later, much later)
    or clears entries that are due right now but have not come out yet.  The
    real-time app clock collects everything that is due in one tick before
    awakening it: those entries are pending all the same."""
    out = []
    for C in ('s', 't2', 'a'):
        ops1 = [['sched', C, d, t] for d in (0, 0.25, 5.0)
                for t in ('f0', 'r0')]
        if C != 'a':
            ops1 += [['sched_abs', C, 6.0, t] for t in ('f0', 'r0')]
        ops1 += [['clear', C]]
        ops2 = [None] + [['sched', C, d, t] for d in (0.25, 5.0)
                         for t in ('f0', 'r0')]
        for kpos in (0, 1):
            for op1 in ops1:
                for op2 in ops2:
                    if op2 == op1:
                        continue
                    k = [['yield', 1.0], op1] + ([op2] if op2 else [])
                    main = [['sched', C, 0, 'f0'], ['sched', C, 0, 'r0']]
                    main.insert(kpos, ['play', 'k', C, 0])
                    out.append({
                        'clocks': {'s': NS_SPEC['s'], C: NS_SPEC[C]},
                        'funcs': {'f0': F3},
                        'routines': {'k': k, 'r0': R3},
                        'actors': {'main': main},
                        'horizon': 16.0})
    return out


def crossclear_programs():
    """NRT (one scheduler shared by all clocks): fx pending on clock X, f0
    and r0 pending on ANOTHER clock Y; the controller (on X or on Y) clears
    X - only X's entries go - and then, at once or 0.25 later, schedules a
    bystander (f0 / r0, still pending on Y) again on Y: it is moved, not
    doubled."""
    out = []
    FX = {'returns': [1.0, 1.0, 1.0, None], 'kind': 'awakeable'}
    for X in ('s', 't2', 'a'):
        for Y in ('s', 't2', 'a'):
            if X == Y:
                continue
            for K in (X, Y):
                for w in (0.5, 1.5):
                    for gap in (None, 0.25):
                        for d in (0, 0.25, 1.0):
                            for tg in ('f0', 'r0'):
                                k = [['yield', w], ['clear', X]]
                                if gap:
                                    k.append(['yield', gap])
                                k.append(['sched', Y, d, tg])
                                out.append({
                                    'clocks': {'s': NS_SPEC['s'],
                                               X: NS_SPEC[X], Y: NS_SPEC[Y]},
                                    'funcs': {'f0': F3, 'fx': FX},
                                    'routines': {'k': k, 'r0': R3},
                                    'actors': {'main': [
                                        ['sched', X, 0, 'fx'],
                                        ['sched', Y, 0, 'f0'],
                                        ['sched', Y, 0, 'r0'],
                                        ['play', 'k', K, 0]]},
                                    'horizon': 12.0})
    return out


def tempo_programs():
    """NRT: three tasks pending on TempoClock(2) (f0, r0 re-schedule
    themselves, g0 is awakened once), with ties in beats and every heap
    layout that three insertions produce; a controller on SystemClock changes
    the clock's tempo or beats (pending entries move in seconds) and may
    re-schedule one task right after."""
    out = []
    for order in (('f0', 'r0', 'g0'), ('g0', 'r0', 'f0')):
        for bf in (0.5, 1, 2):
            for br in (0.5, 1, 2):
                for bg in (0.5, 1, 2):
                    at = {'f0': bf, 'r0': br, 'g0': bg}
                    for w in (0.125, 0.375):
                        for ch in (['tempo', 't2', 1.0], ['tempo', 't2', 4.0],
                                   ['etempo', 't2', 1.0],
                                   ['beats', 't2', 0.0],
                                   ['beats', 't2', 0.25]):
                            for re in [None, 'again'] + [
                                    ['sched', 't2', d, t] for d in (0, 0.5)
                                    for t in ('f0', 'r0')]:
                                # 'again': the task scheduled first is
                                # scheduled once more at the same beat before
                                # the change (it is now the most recent one)
                                again = [['sched', 't2', at[order[0]],
                                          order[0]]] if re == 'again' else []
                                if re == 'again':
                                    re = None
                                k = [['yield', w], ch] + ([re] if re else [])
                                out.append({
                                    'clocks': {'s': NS_SPEC['s'],
                                               't2': NS_SPEC['t2']},
                                    'funcs': {'f0': F3, 'g0': {
                                        'returns': [None],
                                        'kind': 'awakeable'}},
                                    'routines': {'k': k, 'r0': R3},
                                    'actors': {'main': [
                                        ['sched', 't2', at[t], t]
                                        for t in order] + again +
                                        [['play', 'k', 's', 0]]},
                                    'horizon': 12.0})
    return out


def reset_programs():
    """NRT: main.reset() while tasks are pending (one of them possibly moved
    before, so that the queue holds a stale entry), then new schedulings."""
    out = []
    for C in ('s', 't2', 'a'):
        post = [['sched', C, d, t] for d in (0, 0.5) for t in ('f0', 'r0')]
        for pre in ([], [['sched', C, 1.0, 'f0']], [['sched', C, 0, 'r0']]):
            for p1 in [None] + post:
                for p2 in [None] + post:
                    if p1 is None and p2 is not None:
                        continue
                    if p1 is not None and p1 == p2:
                        continue
                    ops = [['sched', C, 0, 'f0'], ['sched', C, 0.5, 'r0']] + \
                        pre + [['mainreset']] + \
                        [o for o in (p1, p2) if o is not None]
                    out.append({
                        'clocks': {'s': NS_SPEC['s'], C: NS_SPEC[C]},
                        'funcs': {'f0': F3}, 'routines': {'r0': R3},
                        'actors': {'main': ops}, 'horizon': 12.0})
    return out


def _has(prog, name):
    for body in list(prog['routines'].values()) + [prog['actors']['main']]:
        if any(st[0] == name for st in body):
            return True
    return False


def clock_cases():
    """All cases of the additional clock-task families: [family, mode, prog]."""
    out = []
    for prog in oneclock_programs():
        # clear() removes the pending entries of that clock in both modes
        out.append(['oneclock', 'nrt', prog])
        out.append(['oneclock', 'rt', prog])
    for prog in sametick_programs():
        out.append(['sametick', 'nrt', prog])
        out.append(['sametick', 'rt', prog])
    for prog in crossclear_programs():
        out.append(['crossclear', 'nrt', prog])
    for prog in tempo_programs():
        out.append(['tempo', 'nrt', prog])
    for prog in reset_programs():
        out.append(['reset', 'nrt', prog])
    return out


def _run_nrt9(prog):
    """rtprog.run_nrt plus two operations it does not have."""
    from mc import rtprog
    from sc3.base.main import main

    class Run9(rtprog.Run):
        def do(self, st, who, clock=None):
            if st[0] == 'sched_abs' and st[3] in self.routines:
                self.clocks[st[1]].sched_abs(st[2], self.routines[st[3]])
            elif st[0] == 'mainreset':
                main.reset()
            elif st[0] == 'etempo':
                self.clocks[st[1]].etempo(st[2])
            else:
                super().do(st, who, clock)
    main.reset()
    run = Run9(prog, 'nrt')
    try:
        run.setup()
        for op in prog['actors']['main']:
            run.do(op, 'main')
        main.process(0.0)
    except Exception as e:      # observable: the run does not complete
        run.trace.append(['raises', 'run', None,
                          f'{type(e).__name__}: {e}'[:200]])
    return run.trace


def _run_rt9(prog):
    from mc import rtprog
    # 'sched_abs' of a routine: rtprog looks the target up in funcs only
    orig = rtprog.Run.do

    def do(self, st, who, clock=None):
        if st[0] == 'sched_abs' and st[3] in self.routines:
            self.clocks[st[1]].sched_abs(st[2], self.routines[st[3]])
        else:
            orig(self, st, who, clock)
    rtprog.Run.do = do
    try:
        _, _, res = rtprog.run_rt(prog, [])
    finally:
        rtprog.Run.do = orig
    trace = res['trace']
    if res['status'] != 'ok' or res['finish_problems']:
        # deadlock / livelock / a clock that cannot be stopped: observable
        trace = trace + [['raises', 'run', None,
                          res['status'] if res['status'] != 'ok'
                          else 'finish-problem']]
    return trace


def _awakenings(trace):
    got = []
    for e in trace:
        if e[0] in ('wake', 'res'):
            got.append([e[1], e[4], e[7]])
        elif e[0] == 'raises':
            got.append(['raises', e[1], str(e[3])])
    return got


def _classify(prefix, exp, got):
    n = 0
    while n < min(len(got), len(exp)) and got[n] == exp[n]:
        n += 1
    g = got[n] if n < len(got) else None
    e = exp[n] if n < len(exp) else None
    if g is not None and g[0] == 'raises':
        kind = 'raises'
    elif g is not None and e is not None and g[0] == e[0] and g[2] == e[2]:
        kind = 'time'
    elif g is not None and sum(1 for x in got if x[0] == g[0]) > \
            sum(1 for x in exp if x[0] == g[0]):
        kind = 'awakened-more-than-scheduled'
    elif e is not None and sum(1 for x in got if x[0] == e[0]) < \
            sum(1 for x in exp if x[0] == e[0]):
        kind = 'lost'
    else:
        kind = 'order'
    return (f'{prefix}-clock-task-{kind}', exp, got,
            f'first difference at entry {n}: expected {e}, observed {g} '
            f'([task, seconds, clock])')


def clock_check(family, mode, prog):
    """-> (disagreements, observed, decided: 0 no / 1 yes, non-trivial /
    2 yes, trivial)"""
    from mc.oracles import timeq_ref
    exp, flags, stats = timeq_ref.clockq_expected(prog, mode)
    if flags:
        return [], sorted(flags), False
    got = _awakenings(_run_rt9(prog) if mode == 'rt' else _run_nrt9(prog))
    dis = []
    if got != exp:
        dis.append(_classify(f'{mode}-{family}', exp, got))
    # non-trivial: a pending entry was moved / removed or a tie occurred
    return dis, got, (1 if any(stats.values()) else 2)


def clock_work(job):
    from mc.engines import progenum
    acc = progenum.Acc(max_samples=2)
    n = m = -1
    for family, mode, prog in clock_cases():
        if mode != job['mode']:
            continue
        if family in ('sametick', 'crossclear'):   # small: always in full
            m += 1
            if m % job['of'] != job['shard']:
                continue
        else:
            n += 1
            if n % job['of'] != job['shard']:
                continue
            if job.get('slice_of') and \
                    (n // job['of']) % job['slice_of'] != job['slice_ix']:
                continue
        dis, got, decided = clock_check(family, mode, prog)
        case = {'part': 'clock', 'family': family, 'mode': mode,
                'prog': prog}
        for kind, exp, obs, detail in dis:
            acc.violation(kind, case, exp, obs, detail,
                          size=len(core.canon(prog)))
        if decided:
            acc.case(case, decided == 1, got, steps=len(got))
        else:
            acc.count('undecided:' + ','.join(got))
    return acc.result()


# ---------------------------------------------------------------------------
# The app clock's scheduler driven directly: Scheduler(AppClock, drift=False)
# ---------------------------------------------------------------------------

def sched_cases():
    """a@1, b@1, c@2 (three insertion orders); when a is awakened it
    re-schedules b / c / itself to 6, clears, or both; a and b may return a
    delta; then `seconds` is advanced in steps (each step awakens what is due:
    in the non-recursive mode - the real-time AppClock's - the whole expired
    batch is collected first).  Every new time is >= the latest time of the
    batch in which it is made, so that both modes drain in the same order."""
    acts = [[], [['sched', 5.0, 'b']], [['sched_abs', 6.0, 'b']],
            [['sched', 5.0, 'c']], [['sched_abs', 6.0, 'c']], [['clear']],
            [['clear'], ['sched', 5.0, 'b']],
            [['sched', 5.0, 'b'], ['sched', 5.0, 'c']],
            [['sched', 5.0, 'a']]]
    out = []
    for init in ([['a', 1], ['b', 1], ['c', 2]], [['b', 1], ['a', 1], ['c', 2]],
                 [['c', 2], ['a', 1], ['b', 1]]):
        for act in acts:
            for ra in ([], [1.0]):
                for rb in ([], [1.0]):
                    for rec in (False, True):
                        # (the last steps only drain what was re-scheduled
                        # in the step before)
                        for adv in ([3, 10, 20, 40], [10, 20, 40],
                                    [1, 2, 3, 10, 20, 40]):
                            out.append({'init': init, 'actions': {'a': act},
                                        'returns': {'a': ra, 'b': rb},
                                        'recursive': rec, 'advances': adv})
    return out


def sched_check(case):
    from mc.oracles import timeq_ref
    from sc3.base.clock import Scheduler, AppClock
    from sc3.base.main import main
    main.reset()
    exp = timeq_ref.scheduler_expected(case)
    s = Scheduler(AppClock, drift=False, recursive=case['recursive'])
    log = []
    tasks = {}

    class Task:
        def __init__(self, name):
            self.name = name
            self.n = 0

        def __awake__(self, clock):
            log.append([self.name, s.seconds])
            n = self.n
            self.n += 1
            if n == 0:
                for op in case['actions'].get(self.name, []):
                    if op[0] == 'sched':
                        s.sched(op[1], tasks[op[2]])
                    elif op[0] == 'sched_abs':
                        s.sched_abs(op[1], tasks[op[2]])
                    else:
                        s.clear()
            rets = case['returns'].get(self.name, [])
            return rets[n] if n < len(rets) else None

    for name in 'abc':
        tasks[name] = Task(name)
    dis = []
    try:
        for name, t in case['init']:
            s.sched_abs(t, tasks[name])
        for v in case['advances']:
            s.seconds = v
        left = [[p, t.name] for p, t in s.queue]
        emp = s.empty()
    except Exception as e:
        log.append(['raises', type(e).__name__])
        left, emp = [], True
    finally:
        main.reset()
    if log != exp:
        n = 0
        while n < min(len(log), len(exp)) and log[n] == exp[n]:
            n += 1
        g = log[n] if n < len(log) else None
        e = exp[n] if n < len(exp) else None
        names = [x[0] for x in log]
        if log and log[-1][0] == 'raises':
            kind = 'scheduler-raises'
        elif any(names.count(x) > [y[0] for y in exp].count(x)
                 for x in set(names)):
            kind = 'scheduler-task-awakened-more-than-scheduled'
        elif len(log) < len(exp):
            kind = 'scheduler-task-lost'
        else:
            kind = 'scheduler-order-or-time'
        dis.append((kind, exp, log, f'first difference at entry {n}: '
                    f'expected {e}, observed {g} ([task, seconds])'))
    if left or not emp:
        dis.append(('scheduler-not-empty-after-drain', [[], True],
                    [left, emp], ''))
    return dis, log


def sched_work(job):
    from mc.engines import progenum
    acc = progenum.Acc(max_samples=2)
    for i, case0 in enumerate(sched_cases()):
        if i % job['of'] != job['shard']:
            continue
        dis, log = sched_check(case0)
        case = dict(case0, part='sched')
        for kind, exp, obs, detail in dis:
            acc.violation(kind, case, exp, obs, detail)
        acc.case(case, bool(case0['actions']['a']), log, steps=len(log))
    return acc.result()


# ---------------------------------------------------------------------------
# Parallel pattern streams: Ppar
# ---------------------------------------------------------------------------

PPAR_DURS = [0, 0.5, 1.0]


def _durlists(maxlen):
    import itertools
    out = []
    for n in range(maxlen + 1):
        out += [list(c) for c in itertools.product(PPAR_DURS, repeat=n)]
    return out


def ppar_cases(tier):
    """['par', [children]] with children ['seq', tag, durs] or a nested par;
    durations from {0, 0.5, 1} (0: the child speaks again at the same time,
    after the others that are due)."""
    out = []
    l3, l2 = _durlists(3), _durlists(2)
    for a in l3:                                    # 2 children, <= 3 events
        for b in l3:
            out.append(['par', [['seq', 0, a], ['seq', 1, b]]])
    three = l3 if tier == 'thorough' else l2
    for a in three:                                 # 3 children
        for b in three:
            for c in three:
                out.append(['par', [['seq', 0, a], ['seq', 1, b],
                                    ['seq', 2, c]]])
    for a in l3:            # the time step given by the 'delta' key
        for b in l3:
            out.append(['par', [['seq', 0, a, 'delta'],
                                ['seq', 1, b, 'delta']]])
    for a in l2:                                    # nested
        for b in l2:
            for c in l2:
                out.append(['par', [['par', [['seq', 0, a], ['seq', 1, b]]],
                                    ['seq', 2, c]]])
                out.append(['par', [['seq', 2, c],
                                    ['par', [['seq', 0, a], ['seq', 1, b]]]]])
    return out


def _ppar_build(node):
    from sc3.seq.patterns.eventpatterns import Pbind, Ppar
    from sc3.seq.patterns.listpatterns import Pseq
    if node[0] == 'seq':
        key = node[3] if len(node) > 3 else 'dur'
        if not node[2]:         # a child that ends at once
            return Pbind({'dur': Pseq([1.0], 0), 'tag': node[1]})
        if key == 'delta':      # an explicit delta overrides dur (2.0 here)
            return Pbind({'dur': 2.0, 'delta': Pseq(list(node[2])),
                          'tag': node[1]})
        return Pbind({'dur': Pseq(list(node[2])), 'tag': node[1]})
    return Ppar(*[_ppar_build(c) for c in node[1]])


def ppar_check(node):
    from mc.oracles import timeq_ref
    from sc3.base.stream import stream, StopStream
    from sc3.seq.event import event
    exp = timeq_ref.ppar_expected(node)
    got = []
    now = 0.0
    try:
        s = stream(_ppar_build(node))
        for _ in range(200):
            try:
                e = s.next(event())
            except StopStream:
                break
            if e.get('tag') is not None:
                got.append([e['tag'], now])
            now += e['delta']
        else:
            got.append(['no-end', now])
    except Exception as e:
        got.append(['raises', type(e).__name__])
    dis = []
    if got != exp:
        n = 0
        while n < min(len(got), len(exp)) and got[n] == exp[n]:
            n += 1
        g = got[n] if n < len(got) else None
        e = exp[n] if n < len(exp) else None
        if got[-1][0] == 'raises':
            kind = 'ppar-raises'
        elif sorted(map(core.canon, got)) == sorted(map(core.canon, exp)):
            kind = 'ppar-order-among-equal-times'
        elif sorted((x[0] for x in got), key=repr) != \
                sorted((x[0] for x in exp), key=repr):
            kind = 'ppar-event-lost-or-repeated'
        else:
            kind = 'ppar-time'
        dis.append((kind, exp, got, f'first difference at entry {n}: '
                    f'expected {e}, observed {g} ([child tag, time])'))
    return dis, got


def _ppar_nontrivial(exp):
    times = [t for _, t in exp]
    return len(set(times)) < len(times)


def ppar_work(job):
    from mc.engines import progenum
    from mc.oracles import timeq_ref
    acc = progenum.Acc(max_samples=2)
    for i, node in enumerate(ppar_cases(job['tier'])):
        if i % job['of'] != job['shard']:
            continue
        dis, got = ppar_check(node)
        case = {'part': 'ppar', 'node': node}
        for kind, exp, obs, detail in dis:
            acc.violation(kind, case, exp, obs, detail)
        acc.case(case, _ppar_nontrivial(timeq_ref.ppar_expected(node)), got,
                 steps=len(got))
    return acc.result()


# ---------------------------------------------------------------------------
# Exit actions: main._atexitq drained by main._shutdown()
# ---------------------------------------------------------------------------

EXIT_PRIOS = ['CUSTOM', 'CLOCKS', 801]     # enum members and a plain int
EXIT_EFFECTS = [{}, {'0': ['remove', 1]}, {'1': ['remove', 0]},
                {'0': ['add', 'CLOCKS', 2]}, {'2': ['add', 'CUSTOM', 0]}]


def exit_cases(maxlen):
    """Histories of add(prio, action) / remove(action) on the library's exit
    queue over three actions (0, 1: bound methods - a new but equal method
    object at every mention, as the library's own `q.remove(self._stop)`; 2: a
    plain function), then shutdown; an action may itself remove / add one."""
    import itertools
    menu = [['add', p, k] for p in EXIT_PRIOS for k in (0, 1, 2)] + \
        [['remove', k] for k in (0, 1, 2)]
    out = []
    for n in range(1, maxlen + 1):
        for h in itertools.product(menu, repeat=n):
            if h[0][0] == 'remove':
                continue        # same as the shorter history
            for eff in EXIT_EFFECTS:
                out.append({'history': [list(o) for o in h], 'effects': eff})
    return out


def exit_check(case):
    from mc.oracles import timeq_ref
    from sc3.base.main import main
    q = main._atexitq
    prio = main._atexitprio
    pre = list(q)
    log = []

    def pval(p):
        return getattr(prio, p) if isinstance(p, str) else p

    def num(p):
        return int(pval(p))

    class Unit:
        def __init__(self, k):
            self.k = k

        def stop(self):
            ran(self.k)

    units = {0: Unit(0), 1: Unit(1)}

    def f2():
        ran(2)

    def action(k):
        return f2 if k == 2 else units[k].stop      # new method object

    def ran(k):
        log.append(k)
        eff = case['effects'].get(str(k))
        if eff:
            if eff[0] == 'remove':
                q.remove(action(eff[1]))
            else:
                q.add(pval(eff[1]), action(eff[2]))

    hist = [[o[0], num(o[1]), o[2]] if o[0] == 'add' else o
            for o in case['history']]
    eff = {k: ([v[0], num(v[1]), v[2]] if v[0] == 'add' else v)
           for k, v in case['effects'].items()}
    exp = timeq_ref.exit_expected(hist, eff)
    dis = []
    try:
        try:
            for o in case['history']:
                if o[0] == 'add':
                    q.add(pval(o[1]), action(o[2]))
                else:
                    q.remove(action(o[1]))
            listed = [k for k in (getattr(getattr(t, '__self__', None), 'k',
                                          2 if t is f2 else None)
                                  for _, t in q) if k is not None]
            main._shutdown()
            left = [[int(p), getattr(t, '__qualname__', type(t).__name__)]
                    for p, t in q]
            emp = q.empty()
        except Exception as e:
            dis.append(('exit-raises', exp, type(e).__name__, ''))
            return dis, log
    finally:
        q.clear()
        for p, t in pre:
            q.add(p, t)
    model = timeq_ref.ListQueue()
    for o in hist:
        (model.add(o[1], o[2]) if o[0] == 'add' else model.remove(o[1]))
    want_listed = [e[2] for e in model.sorted()]
    if listed != want_listed:
        dis.append(('exit-queue-listing', want_listed, listed,
                    'actions queued before shutdown, in order'))
    if log != exp:
        if sorted(log) == sorted(exp):
            kind = 'exit-actions-order'
        elif any(log.count(k) > exp.count(k) for k in set(log)):
            kind = 'exit-action-ran-more-than-queued'
        else:
            kind = 'exit-action-not-run'
        dis.append((kind, exp, log, 'actions run by main._shutdown()'))
    if left or not emp:
        dis.append(('exit-queue-not-empty-after-shutdown', [[], True],
                    [left, emp], ''))
    return dis, log


def _exit_nontrivial(case):
    h = case['history']
    adds = [o for o in h if o[0] == 'add']
    return (len({o[2] for o in adds}) < len(adds) or
            any(o[0] == 'remove' for o in h) or
            len({str(o[1]) for o in adds}) < len(adds) or
            bool(case['effects']))


def exit_work(job):
    from mc.engines import progenum
    acc = progenum.Acc(max_samples=2)
    for i, case0 in enumerate(exit_cases(job['maxlen'])):
        if i % job['of'] != job['shard']:
            continue
        dis, log = exit_check(case0)
        case = dict(case0, part='exit')
        for kind, exp, obs, detail in dis:
            acc.violation(kind, case, exp, obs, detail)
        acc.case(case, _exit_nontrivial(case0), log, steps=len(log))
    return acc.result()


# ---------------------------------------------------------------------------
# TaskQueue with more live entries: fill, disturb once, drain
# ---------------------------------------------------------------------------

def drain_cases(tier):
    """add n tasks (n = 5; thorough also 6) at priorities from a 3-value menu
    (all 3^n assignments), then one of: nothing / remove X / re-add X at p,
    then pop until empty - every query checked after every step."""
    import itertools
    out = []
    menus = [[0, 1, 2], [-1, 0.5, INF]]
    for n in ((5, 6) if tier == 'thorough' else (5,)):
        tasks = ['a', 'b', 'c', 'd', 'e', 'f'][:n]
        for mi, menu in enumerate(menus):
            for ps in itertools.product(menu, repeat=n):
                if n == 6 and mi == 1:
                    continue
                fill = [['add', p, t] for p, t in zip(ps, tasks)]
                dist = [[]] + [[['remove', t]] for t in tasks] + \
                    [[['add', p, t]] for t in tasks for p in menu]
                for d in dist:
                    out.append({'prios': menu, 'tasks': tasks,
                                'history': fill + d + [['pop']] * (n + 1)})
    return out


def drain_check(case):
    s = TaskQueueSys({'prios': case['prios'], 'tasks': case['tasks']})
    dis = []
    for op in case['history']:
        dis += s.apply(op)
        if dis:
            break
    return dis, s.last


def drain_work(job):
    from mc.engines import progenum
    acc = progenum.Acc(max_samples=2)
    for i, case0 in enumerate(drain_cases(job['tier'])):
        if i % job['of'] != job['shard']:
            continue
        if job.get('slice_of') and (i // job['of']) % job['slice_of'] != \
                job['slice_ix']:
            continue
        dis, last = drain_check(case0)
        case = dict(case0, part='drain')
        for kind, exp, obs, detail in dis:
            acc.violation(kind.replace('taskq-', 'taskq-drain-'), case, exp,
                          obs, detail)
        ps = [o[1] for o in case0['history'] if o[0] == 'add']
        acc.case(case, len(set(ps)) < len(ps), last,
                 steps=len(case0['history']))
    return acc.result()


# ---------------------------------------------------------------------------
# LONG histories on one queue: fill, then re-add / remove+add the same one or
# two entries N times (stale entries pile up and outnumber the live ones - the
# situation in which an implementation might compact or rebuild its heap),
# then drain.  N runs over the thresholds a maintainer might pick.
# ---------------------------------------------------------------------------

CHURN_N = [1, 2, 10, 49, 50, 51, 52, 60, 100, 101, 128, 200]
CHURN_TARGETS = ['first', 'last', 'min', 'first+last']
CHURN_MOVES = ['later', 'earlier', 'equal', 'same']


def churn_perms():
    """Insertion orders of the priorities: every permutation of 0..k-1 for
    k = 3..6, plus the distinct orders of {0,1,1,2} (a tie)."""
    import itertools
    out = []
    for k in (3, 4, 5, 6):
        out += [list(p) for p in itertools.permutations(range(k))]
    out += sorted({p for p in itertools.permutations((0, 1, 1, 2))})
    return [list(p) for p in out]


def churn_check(case):
    """case: {'prios': [...], 'target': name, 'style': 'readd'|'rmadd',
    'move': name, 'n': N} -> (disagreements, last observation)"""
    from sc3.base._taskq import TaskQueue
    q = TaskQueue()
    ref = RefQueue()
    prios = case['prios']
    k = len(prios)
    tasks = [f't{i}' for i in range(k)]
    dis = []
    last = [None]

    def compare(after):
        o = _observe(q)
        last[0] = o
        e = {'peek': ref.peek(), 'peek_largest': ref.peek(False),
             'empty': ref.empty(), 'list': ref.listing()}
        for key in ('peek', 'peek_largest', 'empty', 'list'):
            if o[key] != e[key]:
                dis.append((f'taskq-churn-{key}', e[key], o[key],
                            f'after {after}; reference contents '
                            f'{ref.sorted()}'))

    for p, t in zip(prios, tasks):
        q.add(p, t)
        ref.add(p, t)
    compare('the fill')
    tg = {'first': [0], 'last': [k - 1], 'min': [prios.index(min(prios))],
          'first+last': [0, k - 1]}[case['target']]
    for i in range(case['n']):
        if dis:
            break
        j = tg[i % len(tg)]
        newp = {'later': k + (i % 2), 'earlier': -1 - (i % 2),
                'equal': prios[(j + 1) % k], 'same': prios[j]}[case['move']]
        if case['style'] == 'rmadd':
            q.remove(tasks[j])
            ref.remove(tasks[j])
        q.add(newp, tasks[j])
        ref.add(newp, tasks[j])
        if (i + 1) in CHURN_N or i + 1 == case['n']:
            compare(f'{i + 1} re-insertions')
    for n in range(k + 1):
        if dis:
            break
        exp = ref.pop()
        try:
            r = q.pop()
            obs = [r[0], r[1]]
        except KeyError:
            obs = 'KeyError'
        except Exception as e:
            obs = type(e).__name__
        if obs != exp:
            dis.append(('taskq-churn-pop', exp, obs,
                        f'pop number {n + 1} of the drain'))
        compare(f'pop number {n + 1} of the drain')
    return dis, last[0]


def churn_work(job):
    from mc.engines import progenum
    acc = progenum.Acc(max_samples=2)
    i = -1
    for pi, prios in enumerate(churn_perms()):
        if len(prios) >= 5 and job.get('slice_of') and \
                pi % job['slice_of'] != job['slice_ix']:
            continue
        for target in CHURN_TARGETS:
            for style in ('readd', 'rmadd'):
                for move in CHURN_MOVES:
                    for n in CHURN_N:
                        i += 1
                        if i % job['of'] != job['shard']:
                            continue
                        case0 = {'prios': prios, 'target': target,
                                 'style': style, 'move': move, 'n': n}
                        dis, last = churn_check(case0)
                        case = dict(case0, part='churn')
                        for kind, exp, obs, detail in dis:
                            acc.violation(kind, case, exp, obs, detail,
                                          size=n * 1000 +
                                          len(core.canon(case)))
                        # non-trivial: the stale entries outnumber the live
                        acc.case(case, n > len(prios), last,
                                 steps=len(prios) * 2 + n + 1)
    return acc.result()


# the same through the NRT scheduler: a watchdog re-armed N times before its
# deadline while five other tasks are pending

WATCHDOG_ORDERS = [[3, 1, 4, 0, 2], [4, 3, 2, 1, 0], [2, 0, 1, 4, 3],
                   [0, 4, 1, 3, 2], [1, 1, 0, 2, 2]]


def watchdog_cases():
    out = []
    for C in ('s', 't2', 'a'):
        for order in WATCHDOG_ORDERS:
            for spaced in (False, True):
                for n in CHURN_N:
                    out.append({'clock': C, 'order': order, 'spaced': spaced,
                                'n': n})
    return out


def watchdog_prog(case):
    """g0..g4 pending at 20 + order[i] (inserted in that order), the watchdog
    w armed at +10; the controller re-arms it (sched +10) N times, all at one
    instant or 1/32 apart (always before the deadline), and stops: w comes
    out once, 10 after the last re-arming, then g0..g4 by (time, insertion)."""
    C = case['clock']
    k = [['yield', 0.5]]
    for _ in range(case['n']):
        k.append(['sched', C, 10.0, 'w'])
        if case['spaced']:
            k.append(['yield', 0.03125])
    once = {'returns': [None], 'kind': 'awakeable'}
    funcs = {f'g{i}': once for i in range(5)}
    funcs['w'] = once
    main = [['sched', C, 20.0 + t, f'g{i}']
            for i, t in enumerate(case['order'])]
    main += [['sched', C, 10.0, 'w'], ['play', 'k', C, 0]]
    return {'clocks': {'s': NS_SPEC['s'], C: NS_SPEC[C]}, 'funcs': funcs,
            'routines': {'k': k}, 'actors': {'main': main}, 'horizon': 64.0}


def watchdog_check(case):
    from mc.oracles import timeq_ref
    prog = watchdog_prog(case)
    exp, flags, _ = timeq_ref.clockq_expected(prog, 'nrt')
    if flags:
        raise core.HarnessError(f'watchdog program undecided: {flags}')
    # the controller's own awakenings are not the subject (and are many)
    exp = [e for e in exp if e[0] != 'k']
    got = [e for e in _awakenings(_run_nrt9(prog)) if e[0] != 'k']
    dis = []
    if got != exp:
        dis.append(_classify('nrt-watchdog', exp, got))
    return dis, got


def watchdog_work(job):
    from mc.engines import progenum
    acc = progenum.Acc(max_samples=2)
    for i, case0 in enumerate(watchdog_cases()):
        if i % job['of'] != job['shard']:
            continue
        dis, got = watchdog_check(case0)
        case = dict(case0, part='watchdog')
        for kind, exp, obs, detail in dis:
            acc.violation(kind, case, exp, obs, detail,
                          size=case0['n'] * 1000 + len(core.canon(case)))
        acc.case(case, case0['n'] > 7, got, steps=case0['n'] + 7)
    return acc.result()


def REPLAY_MODE(v):
    case = v['case']
    if case.get('part') == 'clock':
        return case['mode']
    return 'nrt'


def _hist_replay(job):
    case = job['case']
    part = case.get('part')

    def pack(dis, got):
        return {'violates': any(d[0] == job['kind'] for d in dis),
                'observed': got,
                'disagreements': [[d[0], repr(d[1])[:600], repr(d[2])[:600]]
                                  for d in dis]}
    if part == 'nrtsched':
        return pack(*nrtsched_check(case['prog']))
    if part == 'clock':
        dis, got, _ = clock_check(case['family'], case['mode'], case['prog'])
        return pack(dis, got)
    if part == 'sched':
        return pack(*sched_check(case))
    if part == 'churn':
        return pack(*churn_check(case))
    if part == 'watchdog':
        return pack(*watchdog_check(case))
    if part == 'ppar':
        return pack(*ppar_check(case['node']))
    if part == 'exit':
        return pack(*exit_check(case))
    if part == 'drain':
        dis, got = drain_check(case)
        return pack([(d[0].replace('taskq-', 'taskq-drain-'),) + tuple(d[1:])
                     for d in dis], got)
    return histbfs.replay(job)


SYSTEMS = {'taskq': TaskQueueSys, 'score': ScoreSys}
replay = _hist_replay


def main(ctx):
    ctx.rule = ('E2 BFS over all histories of add(prio,task)/remove/pop/clear '
                'on the real TaskQueue; after every step all queries (peek '
                'smallest/largest, empty, iteration) are compared with a list '
                'model. States are deduplicated on (model contents with '
                'sequence ranks, heap layout with counter ranks, tombstone '
                'count). Non-trivial = history contains a priority tie, a '
                're-add of a present task or a removal. Priority alphabets '
                '{0,1,2} and {-inf,-1,0.5} (falsy tasks "" and 0), +inf in '
                'the fill-disturb-drain family (5-6 live entries); long '
                'histories (up to 200 re-insertions of one or two entries '
                'among 3-6 live ones, stale entries far outnumbering them) '
                'on the queue itself and through the NRT scheduler. NRT clock '
                'tasks (E1): '
                'every controller program re-scheduling a function task and '
                'a routine that are pending / already awakened, on SystemClock'
                ', TempoClock(2) and AppClock; the sequence of (task, logical '
                'seconds, clock) awakenings is compared with a list model of '
                '(clock, task) schedulings; one-clock programs (sched, '
                'sched_abs, clear) also on the real-time clocks under virtual '
                'time; tempo/beats changes with tied pending entries; '
                'main.reset() with pending entries; programs in which '
                'several entries are due at one instant and an earlier one '
                're-schedules / clears a later one, and the app clock\'s '
                'Scheduler driven directly. Ppar (E1): all small '
                'trees of parallel children with durations {0,0.5,1}; exit '
                'actions (E1): all add/remove histories on main._atexitq '
                'followed by main._shutdown(); OscScore (E2) through '
                'finish()/list. Non-trivial for those = a tie in time / a '
                're-insertion / a removal occurs.')
    ctx.assumptions += [
        'reference model: insertion-ordered list of (prio, seq, task), '
        'written from the property statement',
        'queue only ever compares priorities and counters, so counters are '
        'renormalised to ranks in the state key',
        'real-time clocks run under mc/seams virtual time with the default '
        'schedule (timers on time, no preemption); interleavings are C08\'s '
        'subject']
    from mc.engines import progenum
    quick = ctx.tier == 'quick'
    # the queue itself first: its consumers are only meaningful (and their
    # runs only reproducible case by case) on a queue that keeps the model
    if quick:
        histbfs.run(ctx, MODNAME, 'taskq',
                    {'prios': [0, 1, 2], 'tasks': ['a', 'b', 'c']}, depth=7)
        histbfs.run(ctx, MODNAME, 'taskq',
                    {'prios': [-INF, -1, 0.5], 'tasks': ['', 0, 'c']},
                    depth=5)
        histbfs.run(ctx, MODNAME, 'score', {'times': [0.0, 0.5, 1.0]},
                    depth=5)
        histbfs.run(ctx, MODNAME, 'score',
                    {'times': [None, -0.5, 0.5, 1, 1.0], 'tails': [0.0, 0.5]},
                    depth=4)
    else:
        histbfs.run(ctx, MODNAME, 'taskq',
                    {'prios': [0, 1, 2], 'tasks': ['a', 'b', 'c']}, depth=8)
        histbfs.run(ctx, MODNAME, 'taskq',
                    {'prios': [0, 1, INF], 'tasks': ['a', 'b', 'c', 'd']},
                    depth=6)
        histbfs.run(ctx, MODNAME, 'taskq',
                    {'prios': [-INF, -1, 0.5], 'tasks': ['', 0, 'c']},
                    depth=7)
        histbfs.run(ctx, MODNAME, 'score', {'times': [0.0, 0.5, 1.0, 2.0]},
                    depth=6)
        histbfs.run(ctx, MODNAME, 'score',
                    {'times': [None, -0.5, 0.5, 1, 1.0, 2.0],
                     'tails': [0.0, 0.5, 3.0]}, depth=5)
    if ctx.violations:
        ctx.extra['consumer_families'] = ('skipped: the queue itself '
                                          'disagrees with the model')
        return
    jobs = [{'shard': i, 'of': 32} for i in range(32)]
    if quick:
        for j in jobs:
            j.update(slice_of=4, slice_ix=core.pick_slice(ctx.seed, 4))
    progenum.run(ctx, MODNAME, 'nrtsched_work', jobs, mode='nrt',
                 bound='NRT clock tasks: controller with <=2 re-scheduling '
                       'calls (3 clocks x 3 deltas x 2 targets each) on tasks '
                       'that re-schedule themselves' +
                       (' - 1/4 slice chosen by the seed' if quick else ''))
    # further consumers -----------------------------------------------------
    sl = ' - 1/4 slice chosen by the seed' if quick else ''
    for mode in ('nrt', 'rt'):
        jobs = [{'shard': i, 'of': 16, 'mode': mode} for i in range(16)]
        if quick:
            for j in jobs:
                j.update(slice_of=4, slice_ix=core.pick_slice(ctx.seed, 4))
        progenum.run(ctx, MODNAME, 'clock_work', jobs, mode=mode,
                     bound=f'clock tasks ({mode}): one-clock controller '
                           'programs (sched / sched_abs / clear / controller '
                           're-scheduling itself, plain function alongside; '
                           'same-instant programs in full' +
                           ('; clear of one clock then re-scheduling of a '
                            'task pending on another clock, in full'
                            if mode == 'nrt' else '') + ')' +
                           (', tempo/beats change with 3 pending entries, '
                            'main.reset()' if mode == 'nrt' else
                            ' on the real-time clocks, default schedule') + sl)
    jobs = [{'shard': i, 'of': 32} for i in range(32)]
    if quick:
        for j in jobs:
            j.update(slice_of=8, slice_ix=core.pick_slice(ctx.seed, 8))
    progenum.run(ctx, MODNAME, 'churn_work', jobs, mode='nrt',
                 bound='TaskQueue long histories: fill k=3..6 entries (every '
                       'insertion order of 0..k-1, and of {0,1,1,2}' +
                       ('; k>=5: 1/8 of the orders chosen by the seed'
                        if quick else '') + '), re-add / remove+add the '
                       'first / last / smallest / first and last entry N '
                       'times to a later / earlier / equal / the same '
                       f'priority, N in {CHURN_N}, drain')
    jobs = [{'shard': i, 'of': 16} for i in range(16)]
    progenum.run(ctx, MODNAME, 'watchdog_work', jobs, mode='nrt',
                 bound='NRT scheduler long histories: a watchdog re-armed N '
                       f'times (N in {CHURN_N}; in one instant / 1/32 apart) '
                       'with 5 other tasks pending in 5 insertion orders, on '
                       '3 clocks')
    jobs = [{'shard': i, 'of': 16} for i in range(16)]
    progenum.run(ctx, MODNAME, 'sched_work', jobs, mode='nrt',
                 bound='Scheduler(AppClock, drift=False) driven directly: '
                       'a@1 b@1 c@2 x 3 insertion orders x 9 actions of a x '
                       'returns of a, b x recursive / not x 3 ways to '
                       'advance `seconds`')
    jobs = [{'shard': i, 'of': 32, 'tier': ctx.tier} for i in range(32)]
    progenum.run(ctx, MODNAME, 'ppar_work', jobs, mode='nrt',
                 bound='Ppar: 2 children x <=3 events, 3 children x <=' +
                       ('2' if quick else '3') + ' events, nested pairs x <=2 '
                       'events; durations {0,0.5,1} given by dur or by an '
                       'explicit delta')
    jobs = [{'shard': i, 'of': 32, 'maxlen': 3 if quick else 4}
            for i in range(32)]
    progenum.run(ctx, MODNAME, 'exit_work', jobs, mode='nrt',
                 bound='exit actions: histories of <=' +
                       ('3' if quick else '4') + ' add/remove over 3 actions x '
                       '3 priorities x 5 action side effects, then shutdown')
    jobs = [{'shard': i, 'of': 32, 'tier': ctx.tier} for i in range(32)]
    if quick:
        for j in jobs:
            j.update(slice_of=2, slice_ix=core.pick_slice(ctx.seed, 2))
    progenum.run(ctx, MODNAME, 'drain_work', jobs, mode='nrt',
                 bound='TaskQueue fill(5' + ('' if quick else '-6') +
                       ' tasks, 3 priorities)-disturb-drain' +
                       (' - 1/2 slice chosen by the seed' if quick else ''))
