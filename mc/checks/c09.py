"""C09 - time-ordered collections are stable priority queues under any history.

E2 over the real TaskQueue (and OscScore as a consumer) against a plain list
of (prio, seq, task)."""

from mc import core
from mc.engines import histbfs

MODE = 'nrt'
MODNAME = 'mc.checks.c09'

INF = float('inf')


class RefQueue:
    """The boring model: insertion-ordered list of [prio, seq, task]."""

    def __init__(self):
        self.items = []
        self.seq = 0

    def add(self, prio, task):
        self.items = [e for e in self.items if e[2] != task]
        self.items.append([prio, self.seq, task])
        self.seq += 1

    def remove(self, task):
        self.items = [e for e in self.items if e[2] != task]

    def sorted(self):
        return sorted(self.items, key=lambda e: (e[0], e[1]))

    def pop(self):
        if not self.items:
            return 'KeyError'
        e = self.sorted()[0]
        self.items.remove(e)
        return [e[0], e[2]]

    def peek(self, smallest=True):
        if not self.items:
            return 'KeyError'
        e = self.sorted()[0 if smallest else -1]
        return [e[0], e[2]]

    def empty(self):
        return not self.items

    def clear(self):
        self.items = []

    def listing(self):
        return [[e[0], e[2]] for e in self.sorted()]


def _observe(q):
    """All non-mutating queries of the implementation."""
    def call(f, *a):
        try:
            r = f(*a)
            return [r[0], r[1]]
        except KeyError:
            return 'KeyError'
        except Exception as e:  # any other exception is observable as such
            return type(e).__name__
    try:
        lst = [[p, t] for p, t in q]
    except Exception as e:
        lst = type(e).__name__
    try:
        emp = q.empty()
    except Exception as e:
        emp = type(e).__name__
    return {'peek': call(q.peek), 'peek_largest': call(q.peek, False),
            'empty': emp, 'list': lst}


class TaskQueueSys:
    def __init__(self, params):
        from sc3.base._taskq import TaskQueue
        self.q = TaskQueue()
        self.ref = RefQueue()
        self.prios = params['prios']
        self.tasks = params['tasks']
        self.flags = {'tie': False, 'readd': False, 'rm': False}
        self.last = None

    def ops(self):
        o = [['add', p, t] for p in self.prios for t in self.tasks]
        o += [['remove', t] for t in self.tasks]
        o += [['pop'], ['clear']]
        return o

    def apply(self, op):
        q, ref = self.q, self.ref
        name = op[0]
        dis = []
        if name == 'add':
            _, p, t = op
            if any(e[2] == t for e in ref.items):
                self.flags['readd'] = True
            if any(e[0] == p and e[2] != t for e in ref.items):
                self.flags['tie'] = True
            exp = None
            ref.add(p, t)
            try:
                obs = q.add(p, t)
            except Exception as e:
                obs = type(e).__name__
        elif name == 'remove':
            self.flags['rm'] = True
            exp = None
            ref.remove(op[1])
            try:
                obs = q.remove(op[1])
            except Exception as e:
                obs = type(e).__name__
        elif name == 'pop':
            exp = ref.pop()
            try:
                r = q.pop()
                obs = [r[0], r[1]]
            except KeyError:
                obs = 'KeyError'
            except Exception as e:
                obs = type(e).__name__
        elif name == 'clear':
            exp = None
            ref.clear()
            try:
                obs = q.clear()
            except Exception as e:
                obs = type(e).__name__
        else:
            raise core.HarnessError(f'bad op {op}')
        if obs != exp:
            dis.append((f'taskq-{name}-result', exp, obs, ''))
        before = self._implkey()
        o = _observe(q)
        if before is not None and self._implkey() != before:
            dis.append(('taskq-query-mutates', before, self._implkey(),
                        'peek/empty/iteration changed the queue'))
        e = {'peek': ref.peek(), 'peek_largest': ref.peek(False),
             'empty': ref.empty(), 'list': ref.listing()}
        for k in ('peek', 'peek_largest', 'empty', 'list'):
            if o[k] != e[k]:
                dis.append((f'taskq-{k}-after-{name}', e[k], o[k],
                            f'reference contents {ref.sorted()}'))
        self.last = [obs, o]
        return dis

    def _implkey(self):
        # internal layout, used only to refine the state key and to see
        # whether a query mutated the queue; a refactored queue without these
        # attributes is still checked through its public behaviour
        try:
            return self._implkey_raw()
        except AttributeError:
            return None

    def _implkey_raw(self):
        q = self.q
        removed = type(q)._REMOVED
        counts = sorted(e[1] for e in q._queue)
        rank = {c: i for i, c in enumerate(counts)}
        return [[[e[0], rank[e[1]], 'X' if e[2] is removed else e[2]]
                 for e in q._queue], q._removed_counter,
                sorted(q._entry_finder)]

    def key(self):
        seqs = sorted(e[1] for e in self.ref.items)
        rank = {c: i for i, c in enumerate(seqs)}
        refk = [[e[0], rank[e[1]], e[2]] for e in self.ref.items]
        return [refk, self._implkey()]

    def nontrivial(self):
        return any(self.flags.values())

    def outcome(self):
        return self.last


class ScoreSys:
    """OscScore as a consumer: add bundles at times from a small menu (outside
    routines times are absolute); duration must track the latest entry and the
    finished list must be time ordered with FIFO ties."""

    def __init__(self, params):
        from sc3.base.main import main
        from sc3.base._oscinterface import OscScore
        main.reset()
        self.score = OscScore()
        self.times = params['times']
        self.ref = RefQueue()
        self.ref.add(0.0, 'root')
        self.n = 0
        self.tie = False
        self.last = None

    def ops(self):
        return [['add', t] for t in self.times]

    def apply(self, op):
        from sc3.base.clock import SystemClock
        _, t = op
        tag = f'/m{self.n}'
        self.n += 1
        if any(e[0] == t for e in self.ref.items):
            self.tie = True
        self.ref.add(float(t), tag)
        dis = []
        try:
            self.score.add([t, [tag, self.n]])
        except Exception as e:
            return [('score-add-raises', None, repr(e), '')]
        # duration: compared up to the library's constant factor (DESIGN C09:
        # the unit of `duration` is a don't-care here).
        exp_latest = self.ref.peek(False)[0]
        d = self.score.duration
        got_latest = None if d is None else d / SystemClock._OSC_TO_SECONDS
        if got_latest != exp_latest:
            dis.append(('score-duration-not-latest', exp_latest, got_latest,
                        ''))
        lst = [[e.bndl[0], e.bndl[1][0]] for _, e in self.score._scoreq]
        exp = [[p, '/g_new' if t == 'root' else t]
               for p, t in self.ref.listing()]
        if lst != exp:
            dis.append(('score-order', exp, lst, ''))
        self.last = lst
        return dis

    def key(self):
        return [self.ref.listing()]

    def nontrivial(self):
        return self.tie

    def outcome(self):
        return self.last


# ---------------------------------------------------------------------------
# Clock tasks in non-real-time mode: one global time-ordered queue of
# (clock, task) schedulings behind SystemClock / TempoClock / AppClock
# ---------------------------------------------------------------------------

NS_TEMPO = {'s': 1.0, 't2': 2.0, 'a': 1.0}
NS_SPEC = {'s': ['system'], 't2': ['tempo', 2.0], 'a': ['app']}


def nrtsched_programs():
    """A controller routine on SystemClock re-schedules a function task f0
    (returns 1.0 three times) and a routine r0 (yields 1.0 three times) that
    are already pending / have already been awakened."""
    out = []
    targets = ['f0', 'r0']
    clocks = ['s', 't2', 'a']
    ops = [[c, d, t] for c in clocks for d in (0, 0.25, 1.0) for t in targets]
    for c0 in clocks:                       # both tasks start at 0 on c0
        for w1 in (0.5, 1.5):
            for op1 in ops:
                for op2 in [None] + ops:
                    k = [['yield', w1], ['sched'] + op1]
                    if op2 is not None:
                        if op2 == op1:
                            continue
                        k += [['yield', 0.25], ['sched'] + op2]
                    used = {c0, op1[0]} | ({op2[0]} if op2 else set())
                    cl = {'s': NS_SPEC['s']}
                    for c in used:
                        cl[c] = NS_SPEC[c]
                    out.append({
                        'clocks': cl,
                        # an awakeable object: ONE item however often it is
                        # scheduled (a plain function is wrapped anew by
                        # every sched() call and is a new item each time)
                        'funcs': {'f0': {'returns': [1.0, 1.0, 1.0, None],
                                         'kind': 'awakeable'}},
                        'routines': {'k': k,
                                     'r0': [['yield', 1.0], ['yield', 1.0],
                                            ['yield', 1.0]]},
                        'actors': {'main': [['sched', c0, 0, 'f0'],
                                            ['sched', c0, 0, 'r0'],
                                            ['play', 'k', 's', 0]]},
                        'horizon': 12.0})
    return out


def nrtsched_expected(prog):
    """Reference: a list model of pending (clock, task) schedulings ordered
    by (time, scheduling order); re-scheduling a pending (clock, task) moves
    it to its new time as the most recent entry."""
    pend = []       # [time, seq, clock, task]
    seq = [0]
    out = []
    calls = {'f0': 0, 'r0': 0, 'k': 0}
    rets = {'f0': [1.0, 1.0, 1.0, None], 'r0': [1.0, 1.0, 1.0, None]}
    kbody = prog['routines']['k']

    def add(t, c, task):
        pend[:] = [e for e in pend if not (e[2] == c and e[3] == task)]
        pend.append([t, seq[0], c, task])
        seq[0] += 1
    for op in prog['actors']['main']:
        if op[0] == 'sched':
            add(op[2] / NS_TEMPO[op[1]], op[1], op[3])
        else:
            add(0.0, 's', 'k')
    kpos = [0]
    while pend:
        pend.sort(key=lambda e: (e[0], e[1]))
        t, _, c, task = pend.pop(0)
        if task == 'r0' and calls['r0'] >= len(rets['r0']):
            continue        # a finished routine: awakening it shows nothing
        out.append([task, t, c])
        if task == 'k':
            while kpos[0] < len(kbody):
                st = kbody[kpos[0]]
                kpos[0] += 1
                if st[0] == 'yield':
                    add(t + st[1], 's', 'k')
                    break
                _, c2, d, tg = st
                add(t + d / NS_TEMPO[c2], c2, tg)
            continue
        n = calls[task]
        calls[task] += 1
        r = rets[task][n] if n < len(rets[task]) else None
        if r is not None:
            add(t + r / NS_TEMPO[c], c, task)
    return out


def nrtsched_check(prog):
    from mc import rtprog
    res = rtprog.run_nrt(prog)
    got = []
    for e in res['trace']:
        if e[0] in ('wake', 'res'):
            got.append([e[1], e[4], e[7]])
        elif e[0] == 'raises':
            got.append(['raises', e[1], str(e[3])])
    exp = nrtsched_expected(prog)
    # a routine that is exhausted is not awakened again by the model either:
    # its 4th call returns None; the library logs nothing for a StopStream
    dis = []
    if got != exp:
        n = 0
        while n < min(len(got), len(exp)) and got[n] == exp[n]:
            n += 1
        g = got[n] if n < len(got) else None
        e = exp[n] if n < len(exp) else None
        if g is not None and e is not None and g[0] == e[0] and g[2] == e[2]:
            kind = 'nrt-clock-task-time'
        elif g is not None and sum(1 for x in got if x[0] == g[0]) > \
                sum(1 for x in exp if x[0] == g[0]):
            kind = 'nrt-clock-task-awakened-more-than-scheduled'
        elif e is not None and sum(1 for x in got if x[0] == e[0]) < \
                sum(1 for x in exp if x[0] == e[0]):
            kind = 'nrt-clock-task-lost'
        else:
            kind = 'nrt-clock-task-order'
        dis.append((kind, exp, got, f'first difference at entry {n}: '
                    f'expected {e}, observed {g} ([task, seconds, clock])'))
    return dis, got


def nrtsched_work(job):
    from mc.engines import progenum
    acc = progenum.Acc(max_samples=2)
    progs = nrtsched_programs()
    for i, prog in enumerate(progs):
        if i % job['of'] != job['shard']:
            continue
        if job.get('slice_of') and (i // job['of']) % job['slice_of'] != \
                job['slice_ix']:
            continue
        dis, got = nrtsched_check(prog)
        case = {'part': 'nrtsched', 'prog': prog}
        for kind, exp, obs, detail in dis:
            acc.violation(kind, case, exp, obs, detail,
                          size=len(core.canon(prog)))
        acc.case(case, True, got, steps=len(got))
    return acc.result()


def _hist_replay(job):
    if job['case'].get('part') == 'nrtsched':
        dis, got = nrtsched_check(job['case']['prog'])
        return {'violates': any(d[0] == job['kind'] for d in dis),
                'observed': got,
                'disagreements': [[d[0], repr(d[1])[:600], repr(d[2])[:600]]
                                  for d in dis]}
    return histbfs.replay(job)


SYSTEMS = {'taskq': TaskQueueSys, 'score': ScoreSys}
replay = _hist_replay


def main(ctx):
    ctx.rule = ('E2 BFS over all histories of add(prio,task)/remove/pop/clear '
                'on the real TaskQueue; after every step all queries (peek '
                'smallest/largest, empty, iteration) are compared with a list '
                'model. States are deduplicated on (model contents with '
                'sequence ranks, heap layout with counter ranks, tombstone '
                'count). Non-trivial = history contains a priority tie, a '
                're-add of a present task or a removal. NRT clock tasks (E1): '
                'every controller program re-scheduling a function task and '
                'a routine that are pending / already awakened, on SystemClock'
                ', TempoClock(2) and AppClock; the sequence of (task, logical '
                'seconds, clock) awakenings is compared with a list model of '
                '(clock, task) schedulings.')
    ctx.assumptions += [
        'reference model: insertion-ordered list of (prio, seq, task), '
        'written from the property statement',
        'queue only ever compares priorities and counters, so counters are '
        'renormalised to ranks in the state key']
    from mc.engines import progenum
    jobs = [{'shard': i, 'of': 32} for i in range(32)]
    if ctx.tier == 'quick':
        for j in jobs:
            j.update(slice_of=4, slice_ix=core.pick_slice(ctx.seed, 4))
    progenum.run(ctx, MODNAME, 'nrtsched_work', jobs, mode='nrt',
                 bound='NRT clock tasks: controller with <=2 re-scheduling '
                       'calls (3 clocks x 3 deltas x 2 targets each) on tasks '
                       'that re-schedule themselves' +
                       (' - 1/4 slice chosen by the seed' if ctx.tier ==
                        'quick' else ''))
    if ctx.tier == 'quick':
        histbfs.run(ctx, MODNAME, 'taskq',
                    {'prios': [0, 1, 2], 'tasks': ['a', 'b', 'c']}, depth=7)
        histbfs.run(ctx, MODNAME, 'score', {'times': [0.0, 0.5, 1.0]},
                    depth=5)
    else:
        histbfs.run(ctx, MODNAME, 'taskq',
                    {'prios': [0, 1, 2], 'tasks': ['a', 'b', 'c']}, depth=8)
        histbfs.run(ctx, MODNAME, 'taskq',
                    {'prios': [0, 1, INF], 'tasks': ['a', 'b', 'c', 'd']},
                    depth=6)
        histbfs.run(ctx, MODNAME, 'score', {'times': [0.0, 0.5, 1.0, 2.0]},
                    depth=6)
