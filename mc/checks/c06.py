"""C06 - OSC encoding round-trips, conforms to OSC 1.0 and is sized correctly.

E1 (bounded-exhaustive input enumeration) in five parts.  Part lib runs on the
imported, uninitialised library; the others on the real encoder of an
NRT-initialised library (the NRT score is the wire: every `send_bundle`
becomes one score entry holding the datagram the RT interface would hand to
the socket):

* lib    - `_osclib.OscMessageBuilder` on its own: 4 addresses x <= 2
           arguments over the plain OSC values.  Also the canary: a tree whose
           encoder is so broken that `sc3.init('nrt')` fails is reported from
           here (the NRT parts are then skipped, the run is not exhaustive).
* msg    - every address x argument list (length <= bound) over a value
           alphabet chosen to hit padding, coercion, nesting and range
           boundaries;  `_build_msg(...).dgram` is decoded by the independent
           strict OSC 1.0 reader (mc/oracles/osc10.py) and compared with what
           the property statement documents (mc/oracles/osc_client.py); the
           library's own `OscPacket` must agree; `_calc_msg_dgram_size` must
           not be below the real size.
* bndl   - every bundle nesting up to depth 3 over 2 (thorough: 3) messages
           x 4 latencies (incl. nested earlier than parent); same comparisons
           with `_build_bundle` / `_calc_bndl_dgram_size`.
* split  - element lists built from size classes whose total lands on
           limit + {-8,-4,0,4,8}, and many-small families, sent through
           `NetAddr.send_clumped_bundles` and through `NetAddr.sync` (driven
           inside a routine, a second routine signals after every hang);
           datagrams = score entries.
* drecv  - real SynthDefs whose byte size straddles the limit, sent through
           `SynthDef._do_send` with and without completion messages.

Every lib/msg/bndl case is encoded after a fixed predecessor message and every
shard starts with a canary (same message before and after a refused one), so
an encoder that keeps state between messages is reported as a replayable
disagreement of its own instead of as history-dependent noise.

Don't-cares (the statement does not decide, every answer accepted): refusal
vs. correct encoding of an empty blob, of a finite float beyond float32 range
(refusal or +-inf), of a nested bundle that precedes its parent (C07 decides);
whether "immediately" is timetag 1 or (NRT, absolute from zero) 0; a size
prediction that raises instead of returning a number; the timetags of the
clumps; empty datagrams produced by splitting; single elements that cannot fit
any datagram."""

import itertools
import math

from mc import core
from mc.engines import progenum
from mc.oracles import osc10
from mc.oracles import osc_client as oc

MODE = 'nrt'
MODNAME = 'mc.checks.c06'

UDP_LIMIT = 65507        # IPv4: 65535 - 20 (IP header) - 8 (UDP header)
LIB_LIMIT = 65504        # the limit named by the property statement
SYNC_RESERVE = 36        # bundle(latency, ['/sync', id]) as documented
PARSER_BUDGET = 200000   # traced events allowed for one OscPacket() call


# ---------------------------------------------------------------------------
# JSON <-> Python values.  Cases are plain JSON; values JSON cannot carry are
# wrapped: {"f": "inf"|"-inf"|"nan"}, {"b": hex} bytes, {"ba": hex} bytearray,
# {"mv": hex} memoryview, {"m": [p, s, d1, d2]} MIDI 4-tuple.

def jv(x):
    if isinstance(x, dict):
        (k, v), = x.items()
        if k == 'f':
            return float(v)
        if k == 'b':
            return bytes.fromhex(v)
        if k == 'ba':
            return bytearray.fromhex(v)
        if k == 'mv':
            return memoryview(bytes.fromhex(v))
        if k == 'm':
            return tuple(v)
        raise core.HarnessError(f'bad json value {x!r}')
    if isinstance(x, list):
        return [jv(e) for e in x]
    return x


def pyrepr(v):
    """Python source for a value (for the standalone reproducers)."""
    if isinstance(v, float) and (math.isinf(v) or math.isnan(v)):
        return f"float('{v!r}')"
    if isinstance(v, memoryview):
        return f'memoryview({bytes(v)!r})'
    if isinstance(v, list):
        return '[' + ', '.join(pyrepr(e) for e in v) + ']'
    if isinstance(v, str) and len(v) > 40 and len(set(v)) == 1:
        return f'{v[0]!r} * {len(v)}'
    if isinstance(v, bytes) and len(v) > 40 and len(set(v)) == 1:
        return f'{v[:1]!r} * {len(v)}'
    return repr(v)


# ---------------------------------------------------------------------------
# The oracle (mc/oracles/osc_client.py): what the property statement says a
# value must become on the wire, and the comparison with what was decoded.

Pkt, Alt, ANY, Verdict = oc.Pkt, oc.Alt, oc.ANY, oc.Verdict
ACCEPT, EITHER, REFUSE = oc.ACCEPT, oc.EITHER, oc.REFUSE
exp_message, exp_bundle, match = oc.exp_message, oc.exp_bundle, oc.match
_short, _concrete = oc.short, oc.concrete


def plain_messages(struct_, tt=None):
    """[(timetag|None, address, args)] of a decoded packet in wire order, then
    stably sorted the way the statement's receiver sees them (by time)."""
    if struct_['type'] == 'message':
        return [(tt, struct_['address'], struct_['args'])]
    out = []
    for e in struct_['elements']:
        out += plain_messages(e, struct_['timetag'])
    return out


# ---------------------------------------------------------------------------
# classification helpers (kinds, non-triviality)

def _walk(v):
    yield v
    if isinstance(v, list):
        for e in v:
            yield from _walk(e)


def size_causes(py):
    """Which value families of the case are encoded with padding/width the
    naive count misses (only used to name the disagreement class)."""
    c = set()
    for v in _walk(py):
        if isinstance(v, (bytes, bytearray, memoryview)) and len(v) % 4:
            c.add('blob')
        elif isinstance(v, str) and not v.isascii():
            c.add('nonascii')
    return '-'.join(sorted(c)) or 'other'


def is_nontrivial_value(v):
    if v is None or isinstance(v, bool) or isinstance(v, list):
        return True                                   # coerced / nested
    if isinstance(v, str):
        return v in '[]' or (len(v.encode()) + 1) % 4 != 0   # marker / padded
    if isinstance(v, (bytes, bytearray, memoryview)):
        return len(v) % 4 != 0
    if isinstance(v, float):
        return math.isfinite(v) and (abs(v) > osc10.FLOAT32_MAX or
                                     osc10.float32(v) != v)
    return False


# ---------------------------------------------------------------------------
# worker-side access to the library

_lib = None


def lib():
    global _lib
    if _lib is None:
        from sc3.base.main import main
        from sc3.base.netaddr import NetAddr
        from sc3.base import _osclib
        _lib = {'main': main, 'NetAddr': NetAddr, 'osclib': _osclib,
                'addr': NetAddr('127.0.0.1', 57110)}
    return _lib


def exc_name(e):
    return type(e).__name__


_osclib = None


def osclib():
    """sc3.base._osclib (pure module: usable without sc3.init)."""
    global _osclib
    if _osclib is None:
        from sc3.base import _osclib as m
        _osclib = m
    return _osclib


def own_parse(dgram, traced):
    """The library's own reader on a datagram: [(time, address, params)].
    Bundles are parsed under a step budget (the element loop of the parser is
    the only unbounded loop)."""
    cls = osclib().OscPacket
    if not traced:
        pk = cls(dgram)
        return [(tm.time, tm.message.address, tm.message.params)
                for tm in pk.messages]
    with progenum.budget(PARSER_BUDGET):
        pk = cls(dgram)
        return [(tm.time, tm.message.address, tm.message.params)
                for tm in pk.messages]


def check_encoded(prefix, dgram, expected, py_for_causes):
    """Comparisons shared by messages and bundles once the library accepted
    the input and produced `dgram`.  Returns (disagreements, decoded)."""
    dis = []
    if not isinstance(dgram, bytes):
        return [(f'{prefix}-dgram-not-bytes', 'bytes',
                 type(dgram).__name__, '')], None
    try:
        dec = osc10.decode(dgram)
    except osc10.OscError as e:
        return [(f'{prefix}-nonconformant-bytes', 'OSC 1.0 packet',
                 dgram.hex(), str(e))], None
    diff = match(expected, dec)
    if diff:
        dis.append((f'{prefix}-roundtrip-mismatch', _short(expected, 400),
                    _short(dec, 400), diff))
    if osc10.encode(dec) != dgram:
        dis.append((f'{prefix}-noncanonical-bytes',
                    osc10.encode(dec).hex(), dgram.hex(),
                    're-encoding the strictly decoded packet gives other '
                    'bytes'))
    try:
        own = own_parse(dgram, traced=dgram[:1] == b'#')
    except progenum.StepBudgetExceeded:
        dis.append((f'{prefix}-own-parser-nontermination', 'a result',
                    f'> {PARSER_BUDGET} steps', dgram.hex()[:400]))
        own = None
    except Exception as e:
        dis.append((f'{prefix}-own-parser-raises', 'parsed packet',
                    exc_name(e), str(e)[:200]))
        own = None
    if own is not None:
        want = plain_messages(dec)
        want = sorted(want, key=lambda m: m[0] or 0)      # stable
        want = [[t, a, p] for t, a, p in want]
        got = [[t, a, p] for t, a, p in own]
        if not osc10.same_value(want, got):
            dis.append((f'{prefix}-own-parser-disagrees', _short(want, 400),
                        _short(got, 400),
                        'OscPacket(dgram).messages differs from the strict '
                        'decoding of the same bytes'))
    return dis, dec


def check_size(prefix, predicted, real, py):
    if isinstance(predicted, int) and not isinstance(predicted, bool) \
            and predicted < real:
        return [(f'{prefix}-size-underestimated-{size_causes(py)}',
                 f'>= {real}', predicted,
                 f'predicted {predicted} bytes, encoded datagram has {real}')]
    return []


# ---------------------------------------------------------------------------
# part lib (mode 'import'): the type writers/readers and the message builder
# of sc3/base/_osclib.py on their own, before sc3 is initialised.  Also the
# canary: a tree whose encoder is broken so badly that sc3.init('nrt') fails
# (the library encodes its own start-up messages) is reported from here.

PURE = [v for v in (
    0, 1, -1, 2 ** 31 - 1, -2 ** 31, 2 ** 31,
    0.0, 0.5, -1.5, 1e-3, 1e39, {'f': 'inf'}, {'f': 'nan'},
    '', 'a', 'abc', 'abcd', 'abcde', 'ñ', 'ññññ', 'a\x00b',
    {'b': ''}, {'b': '31'}, {'b': '3132'}, {'b': '313233'},
    {'b': '31323334'}, {'b': '3132333435'},
    {'m': [0, 144, 60, 64]})]
RUNAWAY = 16384      # no msg/bndl/lib case encodes to more than ~1 kB


def lib_cases():
    for a in ADDRS_Q:
        yield {'lib': [a]}
        for v in PURE:
            yield {'lib': [a, v]}
        for v in PURE:
            for w in PURE:
                yield {'lib': [a, v, w]}


def lib_standalone(py):
    return ("from sc3.base._osclib import OscMessageBuilder, OscPacket\n"
            "w = OscMessageBuilder('/w'); w.add_arg(7); w.build()\n"
            f"b = OscMessageBuilder({py[0]!r})\n"
            f"for v in {pyrepr(py[1:])}:\n"
            "    b.add_arg(v)\n"
            "d = b.build().dgram\n"
            "print(d, OscPacket(d).messages[0].message.params)\n")


def check_lib_once(case):
    py = jv(case['lib'])
    vd = Verdict()
    expected = exp_message(py, vd)
    try:
        # Fixed predecessor: state leaking from one message into the next
        # must show within a single (replayable) case.
        w = osclib().OscMessageBuilder('/w')
        w.add_arg(7)
        w.add_arg('w')
        w.build()
    except Exception:
        pass
    try:
        b = osclib().OscMessageBuilder(py[0])
        for v in py[1:]:
            b.add_arg(v)
        dgram = b.build().dgram
        _last['dgram'] = dgram
        err = None
    except Exception as e:
        dgram, err = None, e
    dis = []
    if err is not None:
        outcome = ['refused', exc_name(err)]
        if vd.status == ACCEPT:
            dis.append(('lib-representable-refused', 'accepted',
                        f'{exc_name(err)}: {err}'[:300], ''))
    elif vd.status == REFUSE:
        why = sorted(set(r[7:] for r in vd.reasons
                         if r.startswith('refuse:')))
        dis.append(('lib-unrepresentable-accepted-' + '+'.join(why),
                    'an exception (value has no OSC representation)',
                    dgram.hex()[:400] if isinstance(dgram, bytes)
                    else repr(dgram), 'accepted and sent as altered bytes'))
        outcome = ['accepted-unrepresentable', len(dgram)]
    else:
        d, dec = check_encoded('lib', dgram, expected, py)
        dis += d
        outcome = ['accepted', len(dgram), dec['tags'] if dec else None]
    nontriv = any(is_nontrivial_value(v) for v in py[1:])
    return dis, outcome, nontriv


_last = {'dgram': None}


def stable(part, once, case):
    """Run one case; when it disagrees, run it a second time: if the library
    answers differently for the same input (state accumulated from earlier
    messages), the only disagreement reported is '<part>-encoding-depends-on-
    history' - the other kinds would not be reproducible from the case alone
    (a fresh replay performs the same two runs)."""
    _last['dgram'] = None
    dis, outcome, nontriv = once(case)
    if dis:
        d1 = _last['dgram']
        _last['dgram'] = None
        dis2, outcome2, _ = once(case)
        d2 = _last['dgram']
        if d1 != d2 or core.canon(outcome) != core.canon(outcome2):
            dis = [(f'{part}-encoding-depends-on-history',
                    'the same input encodes to the same bytes',
                    [_short(d1, 200), _short(d2, 200)],
                    'two consecutive encodings of the same input (each after '
                    'the fixed predecessor message) differ')]
    return dis, outcome, nontriv


CANARY = ['/w', 7, 0.5, 'w', {'b': '76'}, {'m': [0, 144, 60, 64]}]
CANARY_NRT = CANARY + [True, None, [], ['/v', {'b': '76'}],
                       [0.0, ['/v', 'w']], '[', 1, ']']
CANARY_BAD = ['/w', 'w', 2 ** 31]


def canary(level):
    """Does the encoder keep state between messages?  Encode a fixed message,
    then a refused one, then the fixed one again (twice): all three encodings
    of the fixed message must be identical.  A leak makes every later case
    depend on the whole history of the worker, so the shard is not explored
    and this single, replayable disagreement is reported instead."""
    def enc(msg):
        py = jv(msg)
        if level == 'lib':
            b = osclib().OscMessageBuilder(py[0])
            for v in py[1:]:
                b.add_arg(v)
            return b.build().dgram
        return lib()['main']._osc_interface._build_msg(0.0, py).dgram

    def attempt(msg):
        try:
            return enc(msg).hex()
        except Exception as e:
            return 'raises ' + exc_name(e)

    good = CANARY if level == 'lib' else CANARY_NRT
    obs = [attempt(good), attempt(CANARY_BAD), attempt(good), attempt(good)]
    if obs[0] == obs[2] == obs[3]:
        if not obs[0].startswith('raises'):
            return []
        # (in a worker whose encoder is already stuck this is an artefact;
        # the parent then keeps only the leak reported by an earlier shard)
        return [(f'{level}-canary-refused', 'accepted', obs[0],
                 f'representable message {good!r} is refused')]
    return [(f'{level}-encoder-state-leak',
             'identical bytes for identical messages', obs,
             'the same message encodes differently depending on the messages '
             'built before it')]


def check_canary(case):
    dis = canary(case['canary'])
    return dis, ['canary', [d[0] for d in dis]], True


def run_canary(acc, level, record):
    """-> True when the shard must be skipped.  Every shard runs the canary;
    one designated shard per part records it as an executed case."""
    dis = canary(level)
    for kind, exp, obs, detail in dis:
        acc.violation(kind, {'canary': level}, exp, obs, detail)
    if record:
        acc.case({'canary': level}, nontrivial=True,
                 outcome=['canary', [d[0] for d in dis]])
    leak = any(d[0].endswith('state-leak') for d in dis)
    if leak:
        acc.count('shards_cut_state_leak')
    return leak


def check_lib(case):
    return stable('lib', check_lib_once, case)


def check_msg(case):
    return stable('msg', check_msg_once, case)


def check_bndl(case):
    return stable('bndl', check_bndl_once, case)


def work_lib(job):
    acc = progenum.Acc()
    broken = 0
    if run_canary(acc, 'lib', job['shard'] == 0):
        return acc.result()
    for idx, case in enumerate(lib_cases()):
        if idx % job['of'] != job['shard']:
            continue
        dis, outcome, nontriv = check_lib(case)
        for kind, exp, obs, detail in dis:
            acc.violation(kind, case, exp, obs, detail,
                          standalone=lib_standalone(jv(case['lib'])))
        acc.case(case, nontrivial=nontriv, outcome=outcome)
        if dis:
            broken += 1
        if outcome[0].startswith('accepted') and outcome[1] > RUNAWAY:
            acc.count('shards_cut_runaway_encoding')
            break
    acc.count('lib_cases_with_disagreement', broken)
    return acc.result()


# ---------------------------------------------------------------------------
# part msg

ADDRS_Q = ['/a', '/abc', '/abcd', '/a/b']
VALUES = [
    0, 1, -1, 2 ** 31 - 1, -2 ** 31, 2 ** 31, -2 ** 31 - 1,
    0.0, 0.5, -1.5, 1e-3, 1e39, {'f': 'inf'}, {'f': 'nan'},
    '', 'a', 'abc', 'abcd', 'abcde', 'ñ', 'ññññ',
    'a\x00b', '[', ']',
    {'b': ''}, {'b': '31'}, {'b': '3132'}, {'b': '313233'},
    {'b': '31323334'}, {'b': '3132333435'}, {'mv': '313233343536'},
    {'ba': '3132'},
    True, False, None, [],
    {'m': [0, 144, 60, 64]},
    ['/m'], ['/m', 1, 'ab'], ['/m', {'b': '313233'}],
    ['/m', ['/n', {'b': '31'}]], ['/m', ['/n', ['/o', 'ñ']]],
    ['/m', 2 ** 31], ['/m', 'a\x00b'],
    [0.0, ['/x']], [None, ['/x', True]], [0.5, ['/x'], [1.0, ['/y']]],
    [0.5, ['/x'], [0.25, ['/y']]], [0.0, ['/x', [0.0, ['/y', []]]]],
]


ADDRS_LONG = ['/a', '/abcd']   # addresses used for the longest lists

# One value of each class, for 4-argument lists (what the fourth argument
# adds is type-tag padding and bracket nesting, not new value behaviour).
VALUES_4 = [
    0, 2 ** 31, 0.5, 1e-3, 1e39, 'a', 'abc', 'ññññ', 'a\x00b', '[', ']',
    {'b': ''}, {'b': '31'}, {'b': '31323334'}, {'mv': '313233343536'},
    True, None, [], {'m': [0, 144, 60, 64]},
    ['/m'], ['/m', {'b': '313233'}], ['/m', ['/n', ['/o', 'ñ']]],
    [0.0, ['/x']], [0.5, ['/x'], [1.0, ['/y']]],
]


def msg_alphabet(n):
    return VALUES_4 if n >= 4 else VALUES


def msg_jobs(maxlen, addrs):
    """Lists of <= min(maxlen, 3) arguments over VALUES: all addresses for
    fewer than 3 arguments, ADDRS_LONG for exactly 3 in the quick tier
    (maxlen 3), all addresses in the thorough tier; lists of 4 arguments over
    VALUES_4 for ADDRS_LONG (the argument encoding does not depend on the
    address; '/a' leaves 2, '/abcd' 3 padding bytes)."""
    jobs = []
    for a in addrs:
        jobs.append({'part': 'msg', 'addr': a, 'n': 0, 'first': None})
        for n in range(1, maxlen + 1):
            if a not in ADDRS_LONG and (n >= 4 or n == maxlen):
                continue
            for i in range(len(msg_alphabet(n))):
                jobs.append({'part': 'msg', 'addr': a, 'n': n, 'first': i})
    return jobs


def msg_cases(job):
    if job['n'] == 0:
        yield {'msg': [job['addr']]}
        return
    vals = msg_alphabet(job['n'])
    first = vals[job['first']]
    for rest in itertools.product(vals, repeat=job['n'] - 1):
        yield {'msg': [job['addr'], first, *rest]}


def msg_standalone(py):
    return ("import sc3; sc3.init('nrt')\n"
            "from sc3.base.main import main\n"
            "from sc3.base.netaddr import NetAddr\n"
            f"msg = {pyrepr(py)}\n"
            "main._osc_interface._build_msg(0.0, ['/w', 7, 'w'])\n"
            "dgram = main._osc_interface._build_msg(0.0, msg).dgram\n"
            "print(dgram, len(dgram), "
            "NetAddr('127.0.0.1', 57110)._calc_msg_dgram_size(msg))\n")


WARMUP = ['/w', 7, 'w', [0.0, ['/v', b'v']]]


def warmup():
    """Fixed predecessor message: state leaking from one message into the
    next must show within a single (replayable) case."""
    try:
        lib()['main']._osc_interface._build_msg(0.0, jv(WARMUP))
    except Exception:
        pass


def check_msg_once(case):
    """-> (disagreements, outcome, nontrivial)"""
    L = lib()
    py = jv(case['msg'])
    vd = Verdict()
    expected = exp_message(py, vd)
    warmup()
    try:
        dgram = L['main']._osc_interface._build_msg(0.0, py).dgram
        _last['dgram'] = dgram
        err = None
    except Exception as e:
        dgram, err = None, e
    dis = []
    if err is not None:
        outcome = ['refused', exc_name(err)]
        if vd.status == ACCEPT:
            dis.append(('msg-representable-refused', 'accepted',
                        f'{exc_name(err)}: {err}'[:300], ''))
    else:
        if vd.status == REFUSE:
            why = sorted(set(r[7:] for r in vd.reasons
                             if r.startswith('refuse:')))
            dis.append(('msg-unrepresentable-accepted-' + '+'.join(why),
                        'an exception (value has no OSC representation)',
                        dgram.hex()[:400] if isinstance(dgram, bytes)
                        else repr(dgram),
                        'accepted and sent as altered bytes'))
            outcome = ['accepted-unrepresentable', len(dgram)]
        else:
            d, dec = check_encoded('msg', dgram, expected, py)
            dis += d
            try:
                pred = L['addr']._calc_msg_dgram_size(py)
            except Exception as e:
                pred = 'raises ' + exc_name(e)            # don't-care
            dis += check_size('msg', pred, len(dgram), py)
            outcome = ['accepted', len(dgram), pred,
                       dec['tags'] if dec else None]
    nontriv = any(is_nontrivial_value(v) for v in py[1:])
    return dis, outcome, nontriv


def work_msg(job):
    acc = progenum.Acc()
    if run_canary(acc, 'nrt', job['n'] == 0 and job['addr'] == ADDRS_Q[0]):
        return acc.result()
    for case in msg_cases(job):
        dis, outcome, nontriv = check_msg(case)
        for kind, exp, obs, detail in dis:
            acc.violation(kind, case, exp, obs, detail,
                          standalone=msg_standalone(jv(case['msg'])))
        acc.case(case, nontrivial=nontriv, outcome=outcome)
        if outcome[0] == 'refused':
            acc.count('msg_refused')
        if outcome[0] == 'accepted' and isinstance(outcome[2], str):
            acc.count('size_prediction_raised_dontcare')
        if outcome[0].startswith('accepted') and outcome[1] > RUNAWAY:
            acc.count('shards_cut_runaway_encoding')
            break
    return acc.result()


# ---------------------------------------------------------------------------
# part bndl

BM_T = [['/a'], ['/a', {'b': '31'}], ['/ab', 'ññññ', 1e-3]]
BM_Q = [['/a'], ['/ab', {'b': '31'}, 'ññññ', 1e-3]]
BT = [None, -1, 0, 0.5]

_levels = {}


def bundle_levels(wide):
    """D1, D2: all bundles of depth exactly 1 / exactly 2 with <= 2 elements
    (canonical order: time, then length, then element indices)."""
    BM = BM_T if wide else BM_Q
    if wide not in _levels:
        def lists(pool, first_needed):
            # element lists of length <= 2; when first_needed is given at
            # least one element must have index >= first_needed in pool
            idx = [[]] + [[i] for i in range(len(pool))] + \
                [[i, j] for i in range(len(pool)) for j in range(len(pool))]
            return [[pool[i] for i in l] for l in idx
                    if first_needed is None or
                    any(i >= first_needed for i in l)]
        d1 = [[t, *l] for t in BT for l in lists(BM, None)]
        d2 = [[t, *l] for t in BT for l in lists(BM + d1, len(BM))]
        _levels[wide] = (BM, d1, d2)
    return _levels[wide]


def bndl_cases(wide):
    """All bundles of depth 1 and 2, then depth 3 where the outer bundle has
    one depth-2 element alone or paired (either order) with a message
    (wide: with any message or depth-1 bundle of <= 1 element)."""
    BM, d1, d2 = bundle_levels(wide)
    yield from d1
    yield from d2
    side = BM + [b for b in d1 if len(b) <= 2] if wide else BM
    for t in BT:
        for b in d2:
            yield [t, b]
        for b in d2:
            for m in side:
                yield [t, b, m]
                yield [t, m, b]


def bndl_count(wide):
    BM, d1, d2 = bundle_levels(wide)
    side = len(BM) + (len([b for b in d1 if len(b) <= 2]) if wide else 0)
    return len(d1) + len(d2) + len(BT) * len(d2) * (1 + 2 * side)


def bndl_standalone(py):
    return ("import sc3; sc3.init('nrt')\n"
            "from sc3.base.main import main\n"
            "from sc3.base.netaddr import NetAddr\n"
            f"bndl = {pyrepr(py)}\n"
            "dgram = main._osc_interface._build_bundle(0.0, bndl).dgram\n"
            "print(dgram, len(dgram), NetAddr('127.0.0.1', 57110)"
            "._calc_bndl_dgram_size(bndl[1:]))\n")


def bundle_depth(b):
    return 1 + max([bundle_depth(e) for e in b[1:]
                    if not isinstance(e[0], str)] or [0])


def check_bndl_once(case):
    L = lib()
    py = jv(case['bndl'])
    vd = Verdict()
    expected = exp_bundle(py, vd)
    warmup()
    try:
        dgram = L['main']._osc_interface._build_bundle(
            0.0, jv(case['bndl'])).dgram
        _last['dgram'] = dgram
        err = None
    except Exception as e:
        dgram, err = None, e
    dis = []
    if err is not None:
        outcome = ['refused', exc_name(err)]
        if vd.status == ACCEPT:
            dis.append(('bndl-representable-refused', 'accepted',
                        f'{exc_name(err)}: {err}'[:300], ''))
    else:
        d, dec = check_encoded('bndl', dgram, expected, py)
        dis += d
        try:
            pred = L['addr']._calc_bndl_dgram_size(jv(case['bndl'])[1:])
        except Exception as e:
            pred = 'raises ' + exc_name(e)                # don't-care
        dis += check_size('bndl', pred, len(dgram), py)
        outcome = ['accepted', len(dgram), pred, vd.status]
    return dis, outcome, True


def work_bndl(job):
    acc = progenum.Acc()
    if run_canary(acc, 'nrt', job['shard'] == 0):
        return acc.result()
    for idx, b in enumerate(bndl_cases(job['wide'])):
        if idx % job['of'] != job['shard']:
            continue
        case = {'bndl': b}
        dis, outcome, nontriv = check_bndl(case)
        for kind, exp, obs, detail in dis:
            acc.violation(kind, case, exp, obs, detail,
                          standalone=bndl_standalone(jv(b)))
        acc.case(case, nontrivial=nontriv, outcome=outcome)
        acc.count(f'bundles_depth_{bundle_depth(b)}')
        if outcome[0] == 'refused':
            acc.count('bndl_refused')
        elif isinstance(outcome[2], str):
            acc.count('size_prediction_raised_dontcare')
        if outcome[0] == 'accepted' and outcome[1] > RUNAWAY:
            acc.count('shards_cut_runaway_encoding')
            break
    return acc.result()


# ---------------------------------------------------------------------------
# part split

def element(spec, idx):
    """spec [kind, size] -> element list whose strict OSC encoding has exactly
    `size` bytes and which carries its position `idx`."""
    kind, size = spec
    if size % 4 or size < 8:
        raise core.HarnessError(f'bad element size {size}')
    if size == 8:
        return ['/a']
    if size == 12:
        return ['/a', idx]
    if kind == 'n' and size >= 40:
        # bundle(1.0, one 's' message): 16 + 4 + message
        return [1.0, element(['s', size - 20], idx)]
    if kind == 'b' and size >= 20:
        return ['/a', idx, bytes(size - 19)]     # len % 4 == 1: 3 pad bytes
    return ['/a', idx, 'x' * (size - 13)]


def exp_element(e, vd):
    """Expected structure of a split element.  Timetags of nested bundles are
    left open here: inside the sync routine they are relative to the logical
    time of each clump (C07 decides them)."""
    if isinstance(e[0], str):
        return exp_message(e, vd)
    st = exp_bundle(e, vd)
    st['timetag'] = ANY
    return st


CLASSES_T = [12, 16, 20, 8192, 30000, 65000]
CLASSES_Q = [12, 20, 8192, 30000, 65000]
DELTAS = [-8, -4, 0, 4, 8]
MANY_T = [1000, 5000, 5453, 5454, 5455, 5456, 5457, 5458,
          8180, 8181, 8182, 8183, 8200]
MANY_Q = [5000, 5454, 5456, 5458, 8181, 8183]


def split_cases(maxlen):
    """Canonical list of split cases (plain JSON).  maxlen 2 = quick tier
    (5 size classes, 6 many-small counts with latency None), 3 = thorough."""
    cases = []
    quick = maxlen < 3
    CLASSES = CLASSES_Q if quick else CLASSES_T
    targets = {'clumped': [LIB_LIMIT],
               'sync': [LIB_LIMIT - SYNC_RESERVE, LIB_LIMIT - 20]}
    for api in ('clumped', 'sync'):
        for lat in (None, 0.5):
            # size classes + a filler landing the total on target + delta
            for n in range(0, maxlen + 1):
                for combo in itertools.product(CLASSES, repeat=n):
                    base = 16 + sum(s + 4 for s in combo)
                    variants = []
                    for tgt in targets[api]:
                        for d in DELTAS:
                            fill = tgt + d - base - 4
                            sizes = list(combo) + ([fill] if fill >= 40
                                                   else [])
                            if sizes and sizes not in variants:
                                variants.append(sizes)
                    for kind in (('s', 'b', 'n') if lat is None else ('s',)):
                        for sizes in variants:
                            if kind != 's' and \
                                    not any(s >= 40 for s in sizes):
                                continue
                            cases.append({
                                'api': api, 'lat': lat,
                                'els': [[kind if s >= 40 else 's', s]
                                        for s in sizes]})
            # many small elements
            if quick and lat is not None:
                continue
            for size in (8, 12):
                for n in (MANY_Q if quick else MANY_T):
                    cases.append({'api': api, 'lat': lat,
                                  'many': [n, size]})
    return cases


def split_elements(case):
    if 'many' in case:
        n, size = case['many']
        return [element(['s', size], i) for i in range(n)]
    return [element(spec, i) for i, spec in enumerate(case['els'])]


def score_entries():
    """Datagrams of the NRT score in send order, root /g_new entry removed.
    Entries are (time, insertion) ordered; clumps are sent at strictly
    increasing times (or all at 0.0, FIFO), so this is the send order."""
    L = lib()
    out = []
    for _, e in L['main']._osc_interface._osc_score._scoreq:
        raw = bytes(e.msg)
        out.append(raw)
    return out[1:]


def drive_sync(lat, elements):
    """Run NetAddr.sync(cond, lat, elements) inside a routine; a second
    routine plays the server: after every hang it sets and signals the
    condition.  Returns the exception raised inside the routine or None."""
    L = lib()
    from sc3.base.stream import Routine, Condition
    from sc3.base.responders import OscFunc
    cond = Condition()
    state = {'done': False, 'err': None}

    def driver():
        try:
            yield from L['addr'].sync(cond, lat, elements)
        except Exception as e:
            state['err'] = e
        state['done'] = True

    def server():
        for _ in range(64):
            yield 1
            if state['done']:
                return
            cond.test = True
            cond.signal()
            cond.test = False

    Routine(driver).play()
    Routine(server).play()
    try:
        L['main']._clock_scheduler.run()
    finally:
        for p in list(OscFunc._all_func_proxies):
            p.free()
    if not state['done']:
        return RuntimeError('sync routine did not finish within 64 replies')
    return state['err']


def split_standalone(case):
    api, lat = case['api'], case['lat']
    if 'many' in case:
        n, size = case['many']
        one = "['/a']" if size == 8 else "['/a', i]"
        els = f"[{one} for i in range({n})]"
    else:
        els = pyrepr(split_elements(case))
    head = ("import sc3; sc3.init('nrt')\n"
            "from sc3.base.main import main\n"
            "from sc3.base.netaddr import NetAddr\n"
            "from sc3.base.stream import Routine, Condition\n"
            "n = NetAddr('127.0.0.1', 57110)\n"
            f"els = {els}\n")
    if api == 'clumped':
        body = f"n.send_clumped_bundles({lat!r}, *els)\n"
    else:
        body = ("cond = Condition(); done = []\n"
                "def driver():\n"
                f"    yield from n.sync(cond, {lat!r}, els); done.append(1)\n"
                "def server():\n"
                "    while not done:\n"
                "        yield 1\n"
                "        cond.test = True; cond.signal(); cond.test = False\n"
                "Routine(driver).play(); Routine(server).play()\n"
                "main._clock_scheduler.run()\n")
    tail = ("print([len(e.msg) - 4 for _, e in "
            "main._osc_interface._osc_score._scoreq][1:], "
            "'datagram sizes; UDP limit 65507')\n")
    return head + body + tail


def check_split(case):
    L = lib()
    L['main'].reset()
    api, lat = case['api'], case['lat']
    elements = split_elements(case)
    vd = Verdict()
    exp_elems = [exp_element(e, vd) for e in elements]
    if vd.status != ACCEPT:
        raise core.HarnessError('split alphabet must be representable')
    # real sizes from the independent encoder
    real_sizes = [len(osc10.encode(_concrete(x))) for x in exp_elems]
    total = 16 + sum(s + 4 for s in real_sizes)
    extra = 20 if api == 'sync' else 0
    fits_alone = all(16 + 4 + s + extra <= UDP_LIMIT for s in real_sizes)
    dis = []
    kindsfx = '-' + size_causes(elements) if size_causes(elements) != 'other' \
        else ''
    # size prediction of the whole list
    try:
        pred = L['addr']._calc_bndl_dgram_size(split_elements(case))
    except Exception as e:
        pred = 'raises ' + exc_name(e)
    dis += check_size('split', pred, total, elements)
    try:
        if api == 'clumped':
            L['addr'].send_clumped_bundles(lat, *split_elements(case))
            err = None
        else:
            err = drive_sync(lat, split_elements(case))
    except Exception as e:
        err = e
    dgrams = score_entries()
    if err is not None:
        dis.append(('split-raised', 'elements sent',
                    f'{exc_name(err)}: {err}'[:300], ''))
        L['main'].reset()
        return dis, ['raised', exc_name(err)], True
    got = []
    sizes = []
    empty = 0
    for raw in dgrams:
        d = raw[4:]
        if int.from_bytes(raw[:4], 'big') != len(d):
            dis.append(('split-score-prefix-wrong', len(d),
                        int.from_bytes(raw[:4], 'big'), ''))
        sizes.append(len(d))
        try:
            dec = osc10.decode(d)
        except osc10.OscError as e:
            dis.append(('split-nonconformant-datagram', 'OSC 1.0 bundle',
                        d[:64].hex(), str(e)))
            continue
        if dec['type'] != 'bundle':
            dis.append(('split-datagram-not-bundle', 'bundle', dec['type'],
                        ''))
            continue
        els = [e for e in dec['elements']
               if not (e['type'] == 'message' and e['address'] == '/sync')]
        nsync = len(dec['elements']) - len(els)
        if api == 'sync' and (nsync != 1 or
                              dec['elements'][-1].get('address') != '/sync'):
            dis.append(('split-sync-marker', 'exactly one trailing /sync',
                        f'{nsync} /sync elements', ''))
        if not els:
            empty += 1
        got += els
        if len(d) > UDP_LIMIT and fits_alone:
            where = 'unsplit' if len(dgrams) == 1 else 'clump'
            dis.append((f'split-datagram-over-limit-{api}-{where}{kindsfx}',
                        f'<= {UDP_LIMIT}', len(d),
                        f'{len(dec["elements"])} elements in this datagram, '
                        f'{len(dgrams)} datagrams, list total {total}, '
                        f'predicted {pred}'))
    diff = match(exp_elems, got)
    if diff:
        dis.append(('split-elements-lost-or-reordered',
                    f'{len(exp_elems)} elements in order',
                    f'{len(got)} elements', diff))
    outcome = [api, sizes, pred, empty]
    near = any(abs(x - lim) <= 8 for x in [total, total + extra] + sizes
               for lim in (LIB_LIMIT, LIB_LIMIT - SYNC_RESERVE, UDP_LIMIT))
    nontriv = near or len(dgrams) > 1
    L['main'].reset()
    return dis, outcome, nontriv


def work_split(job):
    acc = progenum.Acc(max_samples=2)
    cases = split_cases(job['maxlen'])
    for idx, case in enumerate(cases):
        if idx % job['of'] != job['shard']:
            continue
        dis, outcome, nontriv = check_split(case)
        for kind, exp, obs, detail in dis:
            acc.violation(kind, case, exp, obs, detail,
                          standalone=split_standalone(case)
                          if len(core.canon(case)) < 400 else None)
        acc.case(case, nontrivial=nontriv, outcome=outcome,
                 steps=len(outcome[1]) if isinstance(outcome[1], list) else 1)
        if outcome[0] != 'raised':
            acc.count('split_datagrams', len(outcome[1]))
            acc.count('split_empty_datagrams_dontcare', outcome[3])
            if len(outcome[1]) > 1:
                acc.count('split_cases_actually_split')
    return acc.result()


# ---------------------------------------------------------------------------
# part drecv

COMPLETIONS = [None, ['/x', 1], ['/x', {'b': '31'}],
               ['/x', 'ññññ'], [0.0, ['/x', {'b': '31'}]]]


def drecv_cases(thorough):
    """SynthDef byte lengths around the point where the /d_recv message
    reaches the limit, for each completion message."""
    cases = []
    L = lib_free_sizes()
    for ci, comp in enumerate(COMPLETIONS):
        csize = L[ci]
        # message = '/d_recv\0' 8 + ',b?\0' 4 + 4 + pad4(len) + completion
        edge = LIB_LIMIT - 16 - csize
        span = range(-8, 9) if thorough else (-5, -4, -3, -1, 0, 1, 4)
        for d in span:
            cases.append({'deflen': edge + d, 'completion': comp})
    return cases


def lib_free_sizes():
    """Real encoded size each completion message adds to /d_recv (blob size
    count + padded packet, or the 4-byte integer 0 placeholder)."""
    out = []
    for comp in COMPLETIONS:
        if comp is None:
            out.append(4)
            continue
        vd = Verdict()
        py = jv(comp)
        st = exp_message(py, vd) if isinstance(py[0], str) \
            else exp_bundle(py, vd)
        out.append(4 + len(osc10.encode(_concrete(st))))
    return out


def make_def(deflen):
    """A real SynthDef whose compiled form has exactly `deflen` bytes: n
    Out(SinOsc) pairs (70 bytes each) and a name of the right length."""
    from sc3.synth.synthdef import SynthDef
    from sc3.synth.ugens import SinOsc, Out
    n = (deflen - 34) // 70
    k = deflen - 33 - 70 * n
    name = ('c06' + 'a' * k)[:k]

    def graph():
        for i in range(n):
            Out.ar(0, SinOsc.ar(100 + i))

    return SynthDef(name, graph)


def drecv_standalone(case):
    n = (case['deflen'] - 34) // 70
    k = case['deflen'] - 33 - 70 * n
    return ("import sc3; sc3.init('nrt')\n"
            "from sc3.base.main import main\n"
            "from sc3.synth.synthdef import SynthDef\n"
            "from sc3.synth.ugens import SinOsc, Out\n"
            "from sc3.synth.server import Server\n"
            "def graph():\n"
            f"    for i in range({n}):\n"
            "        Out.ar(0, SinOsc.ar(100 + i))\n"
            f"sd = SynthDef({('c06' + 'a' * k)[:k]!r}, graph)\n"
            f"sd._do_send(Server.default, {pyrepr(jv(case['completion']))})\n"
            "e = list(main._osc_interface._osc_score._scoreq)[-1][1]\n"
            "print(len(sd.as_bytes()), 'def bytes; /d_recv message of', "
            "len(e.msg) - 24, 'bytes; UDP limit 65507')\n")


def check_drecv(case):
    import tempfile
    import shutil
    L = lib()
    from sc3.synth.server import Server
    L['main'].reset()
    comp = jv(case['completion'])
    dis = []
    sd = make_def(case['deflen'])
    blen = len(sd.as_bytes())
    if blen != case['deflen']:
        # The generator could not hit the requested length (layout of the
        # compiled form changed): harmless for the oracle, which only looks
        # at what is sent, but the boundary would no longer be probed.
        raise core.HarnessError(
            f'SynthDef size model broken: wanted {case["deflen"]} got {blen}')
    tmp = tempfile.mkdtemp(prefix='c06-')
    old = tempfile.tempdir
    tempfile.tempdir = tmp        # Platform.tmp_dir = tempfile.gettempdir()
    try:
        try:
            sd._do_send(Server.default, comp)
            err = None
        except Exception as e:
            err = e
    finally:
        tempfile.tempdir = old
        shutil.rmtree(tmp, ignore_errors=True)
    sent = []
    for raw in score_entries():
        dec = osc10.decode(raw[4:])
        for m in dec['elements']:
            # RT sends the bare message: its size is the element size.
            sent.append([m['address'], len(osc10.encode(m))])
    if err is not None:
        outcome = ['raised', exc_name(err)]     # don't-care (size prediction
        # of bundle-shaped completion messages raises; see module docstring)
    else:
        outcome = ['sent', sent]
        for addr, size in sent:
            if addr == '/d_recv' and size > UDP_LIMIT:
                dis.append(('drecv-datagram-over-limit-' +
                            size_causes(comp if comp is not None else []),
                            f'<= {UDP_LIMIT} or /d_load', size,
                            f'definition of {blen} bytes'))
    L['main'].reset()
    # SynthDef._bytes is a memoryview exported by a BytesIO that nothing else
    # references; if the cyclic GC later clears that pair in the wrong order
    # CPython aborts ("deallocated BytesIO object has exported buffers").
    # Release the view now that nothing uses it any more.
    try:
        sd._bytes.release()
    except Exception:
        pass
    sd._bytes = None
    return dis, outcome, True


def work_drecv(job):
    acc = progenum.Acc(max_samples=1)
    cases = drecv_cases(job['thorough'])
    for idx, case in enumerate(cases):
        if idx % job['of'] != job['shard']:
            continue
        dis, outcome, nontriv = check_drecv(case)
        for kind, exp, obs, detail in dis:
            acc.violation(kind, case, exp, obs, detail,
                          standalone=drecv_standalone(case))
        acc.case(case, nontrivial=nontriv, outcome=outcome)
        if outcome[0] == 'raised':
            acc.count('drecv_raised_dontcare')
        else:
            for addr, _ in outcome[1]:
                acc.count('drecv_sent_' + addr.strip('/'))
    return acc.result()


# ---------------------------------------------------------------------------
# replay / main

def REPLAY_MODE(v):
    c = v['case']
    return 'import' if 'lib' in c or c.get('canary') == 'lib' else 'nrt'


def _which(case):
    if 'canary' in case:
        return check_canary
    if 'lib' in case:
        return check_lib
    if 'msg' in case:
        return check_msg
    if 'bndl' in case:
        return check_bndl
    if 'api' in case:
        return check_split
    if 'deflen' in case:
        return check_drecv
    raise core.HarnessError(f'unknown case {case!r}')


def replay(job):
    dis, outcome, _ = _which(job['case'])(job['case'])
    return {'violates': any(d[0] == job['kind'] for d in dis),
            'outcome': outcome if len(repr(outcome)) < 2000
            else core.digest(outcome),
            'disagreements': [[d[0], str(d[1])[:300], str(d[2])[:300],
                               str(d[3])[:300]] for d in dis]}


def _pred_case_has(v, what):
    """Known-finding predicate: the failing case contains a value of the named
    family (blob whose length is not a multiple of 4 / non-ASCII string /
    string with NUL)."""
    case = v['case']
    if 'api' in case:
        py = split_elements(case)
    else:
        py = jv(case.get('msg') or case.get('bndl') or
                case.get('completion') or [])
    for x in _walk(py):
        if what == 'blob' and isinstance(x, (bytes, bytearray, memoryview)) \
                and len(x) % 4:
            return True
        if what == 'nonascii' and isinstance(x, str) and not x.isascii():
            return True
        if what == 'nul' and isinstance(x, str) and '\x00' in x:
            return True
    return False


PREDICATES = {'case_has': _pred_case_has}


def only_leak(ctx):
    """An encoder that keeps state between messages makes every other
    disagreement depend on the whole history of its worker (not replayable
    from the case): report the leak alone."""
    ctx.violations = {k: v for k, v in ctx.violations.items()
                      if k.endswith('-encoder-state-leak')}


def nrt_preflight():
    """Can the library be initialised at all?  (A worker pool whose
    initialiser raises would respawn workers for ever.)  Returns None or a
    one-line description."""
    import subprocess
    import sys
    code = ("import sys; sys.path.insert(0, sys.argv[1]); import sc3; "
            "sc3.init('nrt', verbosity='CRITICAL'); "
            "from sc3.base.main import main; "
            "main._osc_interface._build_bundle(0.0, [0.0, ['/a', 1]])")
    try:
        r = subprocess.run([sys.executable, '-B', '-W', 'ignore', '-c', code,
                            core.REPO], capture_output=True, text=True,
                           timeout=300)
    except subprocess.TimeoutExpired:
        return 'no result after 300 s'
    if r.returncode == 0:
        return None
    lines = [l for l in r.stderr.strip().splitlines() if l.strip()]
    return (lines[-1] if lines else f'exit status {r.returncode}')[:300]


def main(ctx):
    thorough = ctx.tier != 'quick'
    maxlen = 4 if thorough else 3
    addrs = ADDRS_Q
    ctx.rule = (
        'E1: every message = address x argument list (all lists up to the '
        'stated length over the value alphabet), every bundle nesting up to '
        'depth 3, every split case, is encoded by the real library and '
        'decoded by an independent strict OSC 1.0 reader. A message case is '
        'non-trivial when an argument is padded (string/blob whose payload '
        'is not a multiple of 4), coerced (None/bool/[]/float not exact in '
        'float32), a bracket marker or a nested list; every bundle case '
        'nests by construction; a split case is non-trivial when a total or '
        'a datagram is within 8 bytes of a limit or the list was split.')
    ctx.assumptions += [
        'oracle: mc/oracles/osc10.py, strict OSC 1.0 reader/writer typed in '
        'from the specification (self-tested on the spec examples); strings '
        'are carried as UTF-8 as the statement includes non-ASCII strings',
        'coercion table taken from the property statement (None/False/[] -> '
        'int 0, True -> int 1, float -> float32, message/bundle-shaped list '
        '-> blob, bracket markers -> array tags)',
        'NRT score entries are the datagrams the RT interface would send '
        '(OscScore.add encodes with the same _build_bundle); timetags are '
        'absolute from zero outside routines, "immediately" may be 0 or 1',
        'UDP payload limit 65507 bytes (IPv4)',
        'python struct is trusted for float32 rounding']
    ctx.bounds['alphabet_values'] = {'evaluations': 0, 'n': len(VALUES)}
    import time
    t0 = time.time()

    def lap(name):
        nonlocal t0
        ctx.extra['wall_s_' + name] = round(time.time() - t0, 1)
        t0 = time.time()
    # --- pure builder/reader (no sc3.init) + canary
    of = 16
    jobs = [{'part': 'lib', 'shard': i, 'of': of} for i in range(of)]
    n_before = ctx.evaluations
    progenum.run(ctx, MODNAME, 'work_lib', jobs, mode='import',
                 bound=f'osclib builder: {len(ADDRS_Q)} addresses x <= 2 '
                       f'args over {len(PURE)} plain OSC values')
    n_lib = ctx.evaluations - n_before
    lap('lib')
    broken = ctx.extra.get('lib_cases_with_disagreement', 0)
    if ctx.extra.get('shards_cut_state_leak'):
        only_leak(ctx)
        ctx.caps.append('the OSC builder keeps state between messages: '
                        'cases are not independent, nothing else was run')
        return
    if broken * 4 >= n_lib or ctx.extra.get('shards_cut_runaway_encoding'):
        ctx.caps.append(
            f'systematic breakage of the OSC builder ({broken} of {n_lib} '
            'plain cases disagree): the NRT parts were not run')
        return
    err = nrt_preflight()
    if err:
        if ctx.violations:
            ctx.caps.append('sc3.init("nrt") fails on this tree (' + err +
                            '): the NRT parts were not run')
            return
        raise core.HarnessError('sc3.init("nrt") fails: ' + err)
    # --- messages
    jobs = msg_jobs(maxlen, addrs)
    progenum.run(ctx, MODNAME, 'work_msg', jobs, mode='nrt',
                 bound=(f'messages: {len(addrs)} addresses x <= 3 args over '
                        f'{len(VALUES)} values; {len(ADDRS_LONG)} addresses '
                        f'x 4 args over {len(VALUES_4)} values')
                 if thorough else
                 (f'messages: {len(addrs)} addresses x <= 2 args, '
                  f'{len(ADDRS_LONG)} addresses x 3 args, over '
                  f'{len(VALUES)} values'))
    lap('msg')
    if ctx.extra.get('shards_cut_state_leak'):
        only_leak(ctx)
        ctx.caps.append('the message encoder keeps state between messages: '
                        'cases are not independent, remaining parts not run')
        return
    if ctx.extra.get('shards_cut_runaway_encoding'):
        ctx.caps.append('runaway encodings in the message part: remaining '
                        'parts were not run')
        return
    # --- bundles
    of = 64
    jobs = [{'part': 'bndl', 'shard': i, 'of': of, 'wide': thorough}
            for i in range(of)]
    progenum.run(ctx, MODNAME, 'work_bndl', jobs, mode='nrt',
                 bound='bundles: depth <= 3, <= 2 elements per bundle, '
                       f'{len(BM_T if thorough else BM_Q)} '
                       'messages x 4 latencies' +
                       (' (depth 3: depth-2 element + message or depth-1 '
                        'bundle of <= 1 element)' if thorough else
                        ' (depth 3: depth-2 element + optional message)'))
    lap('bndl')
    # --- splitting
    of = 64
    sl = 3 if thorough else 2
    jobs = [{'part': 'split', 'shard': i, 'of': of, 'maxlen': sl}
            for i in range(of)]
    progenum.run(ctx, MODNAME, 'work_split', jobs, mode='nrt',
                 bound=f'split: <= {sl} elements from '
                       f'{len(CLASSES_T if thorough else CLASSES_Q)} size '
                       'classes + filler, totals on limit + {-8..8}, kinds '
                       'string/blob/nested bundle, '
                       f'{len(MANY_T if thorough else MANY_Q)} many-small '
                       'counts x 2 sizes, send_clumped_bundles and sync, '
                       'latency None / 0.5')
    lap('split')
    # --- /d_recv
    of = 16
    jobs = [{'part': 'drecv', 'shard': i, 'of': of, 'thorough': thorough}
            for i in range(of)]
    progenum.run(ctx, MODNAME, 'work_drecv', jobs, mode='nrt',
                 bound='d_recv: real SynthDefs of edge + offsets bytes x 5 '
                       'completion messages')
    lap('drecv')
    ctx.extra['udp_limit'] = UDP_LIMIT
