"""C06 - OSC encoding round-trips, conforms to OSC 1.0 and is sized correctly.

E1 (bounded-exhaustive input enumeration) in six parts.  Part lib runs on the
imported, uninitialised library; the others on the real encoder of an
NRT-initialised library (the NRT score is the wire: every `send_bundle`
becomes one score entry holding the datagram the RT interface would hand to
the socket):

* lib    - `_osclib.OscMessageBuilder` on its own: 4 addresses x <= 2
           arguments over the plain OSC values; typed arguments
           (`add_arg(value, type)`: double, rgba, data-less booleans, arrays
           from list values, strings that cannot be encoded) x <= 2; the
           bundle builder with raw 64-bit timetags (0, 1, 2^32, 2^63, 2^64-1,
           out of range) nested to depth 3.  Also the canary: a tree whose
           encoder is so broken that `sc3.init('nrt')` fails is reported from
           here (the NRT parts are then skipped, the run is not exhaustive).
* msg    - every address x argument list (length <= bound) over a value
           alphabet chosen to hit padding, coercion, nesting and range
           boundaries;  `_build_msg(...).dgram` is decoded by the independent
           strict OSC 1.0 reader (mc/oracles/osc10.py) and compared with what
           the property statement documents (mc/oracles/osc_client.py); the
           library's own `OscPacket` must agree; `_calc_msg_dgram_size` must
           not be below the real size.
  msgx   - extension (audit round): further members of every value class
           (2^32, 3- and 4-byte UTF-8, lone surrogates, trailing NUL, strings
           that look like markers / addresses / tag strings, blobs with NUL
           and 0xff bytes, float32 range edge and denormals, int-timed /
           non-dyadic / unrepresentable completion bundles, nested unbalanced
           markers, nested empty address), further addresses (non-ASCII,
           every padding class, empty, NUL), each alone, paired with every
           value and at each position of a 3-argument list; nesting chains to
           depth 6 (thorough 8); 5-12 arguments.
* bndl   - every bundle nesting up to depth 3 over 2 (thorough: 3) messages
           x 4 latencies (incl. nested earlier than parent); same comparisons
           with `_build_bundle` / `_calc_bndl_dgram_size`.
  bndlx  - extension: 12 latencies (int, float, not a multiple of 2^-32,
           1e6, 2^32, inf, nan) in all outer x nested pairs, 3 elements per
           bundle, up to 17 elements, chains to depth 6 (8).
* route  - other public entry points: `NetAddr.send_msg`, `send_bundle`,
           `send_status_msg` (observed as score entries) and the `_send` of
           the UDP and TCP interfaces on a recording socket (TCP: int32 size
           prefix + packet).  RT `send_msg`/`send_bundle` are exercised by C07.
  rroute - (round 2) nested bundles (depth 2, 3, 5; latency alphabet) sent
           through NetAddr.send_bundle / send_msg from INSIDE A ROUTINE at
           logical times 0, 0.1, 0.25, 2.75 s (SystemClock, TempoClock(2)):
           the raw score bytes are decoded, every (nested) timetag must be
           logical time + that bundle's latency (exact for dyadic values,
           +-2 units otherwise) and agree with the score's list form; lists
           of depth >= 3 are also sent a second time from the same object
           (the library must not alter the caller's lists).  Known finding
           C06-score-add-alters-nested-bundles (fixes/C06-score-add-alters-
           nested-bundles.patch).  Mutation caught: OscScore.add resolving
           the list times before encoding (rroute-roundtrip-mismatch,
           rroute-raw-disagrees-with-list).
* split  - element lists built from size classes whose total lands on
           limit + {-8,-4,0,4,8}, and many-small families, sent through
           `NetAddr.send_clumped_bundles` and through `NetAddr.sync` (driven
           inside a routine, a second routine signals after every hang);
           audit round: `sync` with its default condition (the harness reads
           the /sync id off the wire and calls the /synced responder), `sync`
           without elements (None and []), `BundleNetAddr` (direct and via
           `Server.bind()`) collecting through send_msg / send_bundle /
           send_clumped_bundles and flushing on exit, `BundleNetAddr.sync`
           with elements in the middle; element kinds non-ASCII string,
           completion message, int-timed bundle.  Datagrams = score entries.
* drecv  - real SynthDefs whose byte size straddles the limit, sent through
           `SynthDef._do_send` with and without completion messages; audit
           round: through `send(server)`, `send(None, function)`,
           `add(completion_msg=function)` and to a non-local address; what is
           sent must carry the definition bytes and the completion message.

Every lib/msg/bndl case is encoded after a fixed predecessor message and every
shard starts with a canary (same message before and after a refused one), so
an encoder that keeps state between messages is reported as a replayable
disagreement of its own instead of as history-dependent noise.

Don't-cares (the statement does not decide, every answer accepted): refusal
vs. correct encoding of an empty blob, of a finite float whose nearest float32
is an infinity (refusal or +-inf), of a nested bundle that precedes its parent
(C07 decides); whether "immediately" is timetag 1 or (NRT, absolute from zero)
0; the last two units of a timetag whose latency is not a multiple of 2^-32 s;
a size prediction that raises instead of returning a number (today: non-ASCII
address, [] argument, bundle-shaped completion message, nested bundle with
time None - `send_clumped_bundles`, `sync(elements)` and `SynthDef._do_send`
refuse such input although `send_bundle` accepts it; these inputs are
therefore not in the split alphabet); the timetags of the clumps; empty
datagrams produced by splitting; single elements that cannot fit any datagram;
booleans as T/F or as int at the level of the plain builder; NRT `send_msg`
wrapping the message into a bundle; lists that are neither message- nor
bundle-shaped, addresses without a leading slash, tuples (not in the
alphabet).

Mutations tried in the audit round (quick tier, each caught): UTF-8 length
assumed 2 bytes per non-ASCII char in `_calc_msg_dgram_size`
(msg-size-underestimated-nonascii), address length counted in chars (same),
empty address accepted (...-unrepresentable-accepted-empty-address), timetag
masked to 64 bits (...-timetag-range), `encode('utf-8', 'replace')`
(...-unencodable-string), int-timed completion bundle refused
(msg-representable-refused), TCP size prefix little-endian
(route-tcp-size-prefix), UDP datagram truncated
(route-udp-nonconformant-bytes), `write_double` little-endian
(lib-roundtrip-mismatch), `get_rgba` signed (lib-own-parser-disagrees),
BundleNetAddr flush slice off by one / `append` for `extend` / sync forgets
its elements (split-elements-lost-or-reordered, split-raised-bna*), default
condition of `sync` only created without elements (split-raised-syncnc),
`_clump_bundle` accepting float times only (split-raised-clumped/-sync),
`SynthDef.send` not evaluating a completion function (drecv-raised), oversized
/d_recv sent to a non-local address (drecv-datagram-over-limit-*), /d_load
without the completion message (drecv-roundtrip-mismatch-d_load)."""

import itertools
import math

from mc import core
from mc.engines import progenum
from mc.oracles import osc10
from mc.oracles import osc_client as oc

MODE = 'nrt'
MODNAME = 'mc.checks.c06'

UDP_LIMIT = 65507        # IPv4: 65535 - 20 (IP header) - 8 (UDP header)
LIB_LIMIT = 65504        # the limit named by the property statement
SYNC_RESERVE = 36        # bundle(latency, ['/sync', id]) as documented
PARSER_BUDGET = 200000   # traced events allowed for one OscPacket() call


# ---------------------------------------------------------------------------
# JSON <-> Python values.  Cases are plain JSON; values JSON cannot carry are
# wrapped: {"f": "inf"|"-inf"|"nan"}, {"b": hex} bytes, {"ba": hex} bytearray,
# {"mv": hex} memoryview, {"m": [p, s, d1, d2]} MIDI 4-tuple, {"u": [hex code
# points]} a string that JSON/UTF-8 files cannot carry (lone surrogates),
# {"z": n} n bytes 00 01 .. ff 00 01 ...

def jv(x):
    if isinstance(x, dict):
        (k, v), = x.items()
        if k == 'f':
            return float(v)
        if k == 'b':
            return bytes.fromhex(v)
        if k == 'ba':
            return bytearray.fromhex(v)
        if k == 'mv':
            return memoryview(bytes.fromhex(v))
        if k == 'm':
            return tuple(v)
        if k == 'u':
            return ''.join(chr(int(c, 16)) for c in v)
        if k == 'z':
            return bytes(range(256)) * (v // 256) + bytes(range(v % 256))
        raise core.HarnessError(f'bad json value {x!r}')
    if isinstance(x, list):
        return [jv(e) for e in x]
    return x


def pyrepr(v):
    """Python source for a value (for the standalone reproducers)."""
    if isinstance(v, float) and (math.isinf(v) or math.isnan(v)):
        return f"float('{v!r}')"
    if isinstance(v, memoryview):
        return f'memoryview({bytes(v)!r})'
    if isinstance(v, list):
        return '[' + ', '.join(pyrepr(e) for e in v) + ']'
    if isinstance(v, str) and len(v) > 40 and len(set(v)) == 1:
        return f'{v[0]!r} * {len(v)}'
    if isinstance(v, bytes) and len(v) > 40 and len(set(v)) == 1:
        return f'{v[:1]!r} * {len(v)}'
    return repr(v)


# ---------------------------------------------------------------------------
# The oracle (mc/oracles/osc_client.py): what the property statement says a
# value must become on the wire, and the comparison with what was decoded.

Pkt, Alt, ANY, Verdict = oc.Pkt, oc.Alt, oc.ANY, oc.Verdict
ACCEPT, EITHER, REFUSE = oc.ACCEPT, oc.EITHER, oc.REFUSE
exp_message, exp_bundle, match = oc.exp_message, oc.exp_bundle, oc.match
_short, _concrete = oc.short, oc.concrete


def plain_messages(struct_, tt=None):
    """[(timetag|None, address, args)] of a decoded packet in wire order, then
    stably sorted the way the statement's receiver sees them (by time)."""
    if struct_['type'] == 'message':
        return [(tt, struct_['address'], struct_['args'])]
    out = []
    for e in struct_['elements']:
        out += plain_messages(e, struct_['timetag'])
    return out


# ---------------------------------------------------------------------------
# classification helpers (kinds, non-triviality)

def _walk(v):
    yield v
    if isinstance(v, list):
        for e in v:
            yield from _walk(e)


def size_causes(py):
    """Which value families of the case are encoded with padding/width the
    naive count misses (only used to name the disagreement class)."""
    c = set()
    for v in _walk(py):
        if isinstance(v, (bytes, bytearray, memoryview)) and len(v) % 4:
            c.add('blob')
        elif isinstance(v, str) and not v.isascii():
            c.add('nonascii')
    return '-'.join(sorted(c)) or 'other'


def is_nontrivial_value(v):
    if v is None or isinstance(v, bool) or isinstance(v, list):
        return True                                   # coerced / nested
    if isinstance(v, str):
        return v in ('[', ']') or \
            (len(v.encode('utf-8', 'surrogatepass')) + 1) % 4 != 0   # marker / padded
    if isinstance(v, (bytes, bytearray, memoryview)):
        return len(v) % 4 != 0
    if isinstance(v, float):
        return math.isfinite(v) and (abs(v) > osc10.FLOAT32_MAX or
                                     osc10.float32(v) != v)
    return False


# ---------------------------------------------------------------------------
# worker-side access to the library

_lib = None


def lib():
    global _lib
    if _lib is None:
        from sc3.base.main import main
        from sc3.base.netaddr import NetAddr
        from sc3.base import _osclib
        _lib = {'main': main, 'NetAddr': NetAddr, 'osclib': _osclib,
                'addr': NetAddr('127.0.0.1', 57110)}
    return _lib


def exc_name(e):
    return type(e).__name__


_osclib = None


def osclib():
    """sc3.base._osclib (pure module: usable without sc3.init)."""
    global _osclib
    if _osclib is None:
        from sc3.base import _osclib as m
        _osclib = m
    return _osclib


def own_parse(dgram, traced):
    """The library's own reader on a datagram: [(time, address, params)].
    Bundles are parsed under a step budget (the element loop of the parser is
    the only unbounded loop)."""
    cls = osclib().OscPacket
    if not traced:
        pk = cls(dgram)
        return [(tm.time, tm.message.address, tm.message.params)
                for tm in pk.messages]
    with progenum.budget(PARSER_BUDGET):
        pk = cls(dgram)
        return [(tm.time, tm.message.address, tm.message.params)
                for tm in pk.messages]


def check_encoded(prefix, dgram, expected, py_for_causes):
    """Comparisons shared by messages and bundles once the library accepted
    the input and produced `dgram`.  Returns (disagreements, decoded)."""
    dis = []
    if not isinstance(dgram, bytes):
        return [(f'{prefix}-dgram-not-bytes', 'bytes',
                 type(dgram).__name__, '')], None
    try:
        dec = osc10.decode(dgram)
    except osc10.OscError as e:
        return [(f'{prefix}-nonconformant-bytes', 'OSC 1.0 packet',
                 dgram.hex(), str(e))], None
    diff = match(expected, dec)
    if diff:
        dis.append((f'{prefix}-roundtrip-mismatch', _short(expected, 400),
                    _short(dec, 400), diff))
    if osc10.encode(dec) != dgram:
        dis.append((f'{prefix}-noncanonical-bytes',
                    osc10.encode(dec).hex(), dgram.hex(),
                    're-encoding the strictly decoded packet gives other '
                    'bytes'))
    try:
        own = own_parse(dgram, traced=dgram[:1] == b'#')
    except progenum.StepBudgetExceeded:
        dis.append((f'{prefix}-own-parser-nontermination', 'a result',
                    f'> {PARSER_BUDGET} steps', dgram.hex()[:400]))
        own = None
    except Exception as e:
        dis.append((f'{prefix}-own-parser-raises', 'parsed packet',
                    exc_name(e), str(e)[:200]))
        own = None
    if own is not None:
        want = plain_messages(dec)
        want = sorted(want, key=lambda m: m[0] or 0)      # stable
        want = [[t, a, p] for t, a, p in want]
        got = [[t, a, p] for t, a, p in own]
        if not osc10.same_value(want, got):
            dis.append((f'{prefix}-own-parser-disagrees', _short(want, 400),
                        _short(got, 400),
                        'OscPacket(dgram).messages differs from the strict '
                        'decoding of the same bytes'))
    return dis, dec


def check_size(prefix, predicted, real, py):
    if isinstance(predicted, int) and not isinstance(predicted, bool) \
            and predicted < real:
        return [(f'{prefix}-size-underestimated-{size_causes(py)}',
                 f'>= {real}', predicted,
                 f'predicted {predicted} bytes, encoded datagram has {real}')]
    return []


# ---------------------------------------------------------------------------
# part lib (mode 'import'): the type writers/readers and the message builder
# of sc3/base/_osclib.py on their own, before sc3 is initialised.  Also the
# canary: a tree whose encoder is broken so badly that sc3.init('nrt') fails
# (the library encodes its own start-up messages) is reported from here.

PURE = [v for v in (
    0, 1, -1, 2 ** 31 - 1, -2 ** 31, 2 ** 31,
    0.0, 0.5, -1.5, 1e-3, 1e39, {'f': 'inf'}, {'f': 'nan'},
    '', 'a', 'abc', 'abcd', 'abcde', 'ñ', 'ññññ', 'a\x00b',
    {'b': ''}, {'b': '31'}, {'b': '3132'}, {'b': '313233'},
    {'b': '31323334'}, {'b': '3132333435'},
    {'m': [0, 144, 60, 64]})]
RUNAWAY = 16384      # no msg/bndl/lib case encodes to more than ~1 kB


# Values the sc3 client never produces but the builder / reader of
# sc3/base/_osclib.py implement (anchored type writers/readers): explicit
# types double 'd' and rgba 'r', data-less booleans, arrays from list values.
# [value, type]; type None = inferred by the builder.  (None -> 'N' is left
# out: the statement documents None -> 0 and nothing else.)
TYPED = [
    [0.1, 'd'], [1e300, 'd'], [-2.5, 'd'], [{'f': 'inf'}, 'd'],
    [0, 'r'], [16909060, 'r'], [2 ** 32 - 1, 'r'], [2 ** 32, 'r'], [-1, 'r'],
    [True, None], [False, None],
    [[1, 'a'], None], [[[0.5], [{'b': '31'}]], None], [[], None],
    [[True, 2 ** 31], None],
    [1, 'i'], ['abc', 's'], [{'b': '3132'}, 'b'], [0.5, 'f'],
    [{'u': ['d800']}, None], ['\U0001d11e', None], ['ab', None],
    [{'b': '00ff00'}, None],
]
ADDRS_LIBX = ['/a', '/abcd', '']
RAW_TT = [0, 1, 2 ** 32, 2 ** 63, 2 ** 64 - 1, 2 ** 64, -1]
RAW_TT_S = [1, 2 ** 63, 2 ** 64]
RAW_M = [['/a'], ['/ab', {'b': '31'}, '\xf1']]


def lib_cases():
    for a in ADDRS_Q:
        yield {'lib': [a]}
        for v in PURE:
            yield {'lib': [a, v]}
        for v in PURE:
            for w in PURE:
                yield {'lib': [a, v, w]}
    # typed arguments through add_arg(value, type)
    for a in ADDRS_LIBX:
        yield {'libx': [a]}
        for t in TYPED:
            yield {'libx': [a, t]}
        if a == '':
            continue
        for t in TYPED:
            for u in TYPED:
                yield {'libx': [a, t, u]}
    # the bundle builder on its own: raw 64-bit timetags, nesting
    for t in RAW_TT:
        yield {'libb': [t]}
        for m in RAW_M:
            yield {'libb': [t, m]}
        for u in RAW_TT:
            for m in RAW_M:
                yield {'libb': [t, m, [u, m]]}
                yield {'libb': [t, [u, m], m]}
            for w in RAW_TT_S:
                yield {'libb': [t, [u, [w, RAW_M[1]]]]}


def lib_standalone(py):
    return ("from sc3.base._osclib import OscMessageBuilder, OscPacket\n"
            "w = OscMessageBuilder('/w'); w.add_arg(7); w.build()\n"
            f"b = OscMessageBuilder({py[0]!r})\n"
            f"for v in {pyrepr(py[1:])}:\n"
            "    b.add_arg(v)\n"
            "d = b.build().dgram\n"
            "print(d, OscPacket(d).messages[0].message.params)\n")


def build_raw_bundle(b):
    ol = osclib()
    bb = ol.OscBundleBuilder(b[0])
    for e in b[1:]:
        if isinstance(e[0], str):
            mb = ol.OscMessageBuilder(e[0])
            for v in e[1:]:
                mb.add_arg(v)
            bb.add_content(mb.build())
        else:
            bb.add_content(build_raw_bundle(e))
    return bb.build()


def libx_standalone(case):
    if 'libx' in case:
        py = jv(case['libx'])
        return ("from sc3.base._osclib import OscMessageBuilder, OscPacket\n"
                f"b = OscMessageBuilder({py[0]!r})\n"
                f"for v, t in {pyrepr([list(x) for x in py[1:]])}:\n"
                "    b.add_arg(v, t)\n"
                "d = b.build().dgram\n"
                "print(d, OscPacket(d).messages[0].message.params)\n")
    return ("from sc3.base._osclib import *\n"
            "def build(b):\n"
            "    bb = OscBundleBuilder(b[0])\n"
            "    for e in b[1:]:\n"
            "        if isinstance(e[0], str):\n"
            "            mb = OscMessageBuilder(e[0])\n"
            "            for v in e[1:]:\n"
            "                mb.add_arg(v)\n"
            "            bb.add_content(mb.build())\n"
            "        else:\n"
            "            bb.add_content(build(e))\n"
            "    return bb.build()\n"
            f"d = build({pyrepr(jv(case['libb']))}).dgram\n"
            "print(d, [(m.time, m.message.address, m.message.params) "
            "for m in OscPacket(d).messages])\n")


def check_libx_once(case):
    """Typed arguments / raw bundles through the plain builders."""
    vd = Verdict()
    if 'libx' in case:
        py = jv(case['libx'])
        targs = [list(x) for x in py[1:]]
        expected = oc.exp_typed_message(py[0], targs, vd)
        flat = [x[0] for x in targs]
    else:
        py = jv(case['libb'])
        expected = oc.exp_raw_bundle(py, vd)
        flat = py
    try:
        w = osclib().OscMessageBuilder('/w')
        w.add_arg(7)
        w.add_arg('w')
        w.build()
    except Exception:
        pass
    try:
        if 'libx' in case:
            b = osclib().OscMessageBuilder(py[0])
            for v, t in targs:
                b.add_arg(v, t)
            dgram = b.build().dgram
        else:
            dgram = build_raw_bundle(py).dgram
        _last['dgram'] = dgram
        err = None
    except Exception as e:
        dgram, err = None, e
    dis = []
    if err is not None:
        outcome = ['refused', exc_name(err)]
        if vd.status == ACCEPT:
            dis.append(('lib-representable-refused', 'accepted',
                        f'{exc_name(err)}: {err}'[:300], ''))
    elif vd.status == REFUSE:
        why = vd.refusal_reasons()
        dis.append(('lib-unrepresentable-accepted-' + '+'.join(why),
                    'an exception (value has no OSC representation)',
                    dgram.hex()[:400] if isinstance(dgram, bytes)
                    else repr(dgram), 'accepted and sent as altered bytes'))
        outcome = ['accepted-unrepresentable', len(dgram)]
    else:
        d, dec = check_encoded('lib', dgram, expected, flat)
        dis += d
        outcome = ['accepted', len(dgram),
                   (dec.get('tags'), dec.get('timetag')) if dec else None]
    return dis, outcome, True


def check_lib_once(case):
    if 'lib' not in case:
        return check_libx_once(case)
    py = jv(case['lib'])
    vd = Verdict()
    expected = exp_message(py, vd)
    try:
        # Fixed predecessor: state leaking from one message into the next
        # must show within a single (replayable) case.
        w = osclib().OscMessageBuilder('/w')
        w.add_arg(7)
        w.add_arg('w')
        w.build()
    except Exception:
        pass
    try:
        b = osclib().OscMessageBuilder(py[0])
        for v in py[1:]:
            b.add_arg(v)
        dgram = b.build().dgram
        _last['dgram'] = dgram
        err = None
    except Exception as e:
        dgram, err = None, e
    dis = []
    if err is not None:
        outcome = ['refused', exc_name(err)]
        if vd.status == ACCEPT:
            dis.append(('lib-representable-refused', 'accepted',
                        f'{exc_name(err)}: {err}'[:300], ''))
    elif vd.status == REFUSE:
        why = sorted(set(r[7:] for r in vd.reasons
                         if r.startswith('refuse:')))
        dis.append(('lib-unrepresentable-accepted-' + '+'.join(why),
                    'an exception (value has no OSC representation)',
                    dgram.hex()[:400] if isinstance(dgram, bytes)
                    else repr(dgram), 'accepted and sent as altered bytes'))
        outcome = ['accepted-unrepresentable', len(dgram)]
    else:
        d, dec = check_encoded('lib', dgram, expected, py)
        dis += d
        outcome = ['accepted', len(dgram), dec['tags'] if dec else None]
    nontriv = any(is_nontrivial_value(v) for v in py[1:])
    return dis, outcome, nontriv


_last = {'dgram': None}


def stable(part, once, case):
    """Run one case; when it disagrees, run it a second time: if the library
    answers differently for the same input (state accumulated from earlier
    messages), the only disagreement reported is '<part>-encoding-depends-on-
    history' - the other kinds would not be reproducible from the case alone
    (a fresh replay performs the same two runs)."""
    _last['dgram'] = None
    dis, outcome, nontriv = once(case)
    if dis:
        d1 = _last['dgram']
        _last['dgram'] = None
        dis2, outcome2, _ = once(case)
        d2 = _last['dgram']
        if d1 != d2 or core.canon(outcome) != core.canon(outcome2):
            dis = [(f'{part}-encoding-depends-on-history',
                    'the same input encodes to the same bytes',
                    [_short(d1, 200), _short(d2, 200)],
                    'two consecutive encodings of the same input (each after '
                    'the fixed predecessor message) differ')]
    return dis, outcome, nontriv


CANARY = ['/w', 7, 0.5, 'w', {'b': '76'}, {'m': [0, 144, 60, 64]}]
CANARY_NRT = CANARY + [True, None, [], ['/v', {'b': '76'}],
                       [0.0, ['/v', 'w']], '[', 1, ']']
CANARY_BAD = ['/w', 'w', 2 ** 31]


def canary(level):
    """Does the encoder keep state between messages?  Encode a fixed message,
    then a refused one, then the fixed one again (twice): all three encodings
    of the fixed message must be identical.  A leak makes every later case
    depend on the whole history of the worker, so the shard is not explored
    and this single, replayable disagreement is reported instead."""
    def enc(msg):
        py = jv(msg)
        if level == 'lib':
            b = osclib().OscMessageBuilder(py[0])
            for v in py[1:]:
                b.add_arg(v)
            return b.build().dgram
        return lib()['main']._osc_interface._build_msg(0.0, py).dgram

    def attempt(msg):
        try:
            return enc(msg).hex()
        except Exception as e:
            return 'raises ' + exc_name(e)

    good = CANARY if level == 'lib' else CANARY_NRT
    obs = [attempt(good), attempt(CANARY_BAD), attempt(good), attempt(good)]
    if obs[0] == obs[2] == obs[3]:
        if not obs[0].startswith('raises'):
            return []
        # (in a worker whose encoder is already stuck this is an artefact;
        # the parent then keeps only the leak reported by an earlier shard)
        return [(f'{level}-canary-refused', 'accepted', obs[0],
                 f'representable message {good!r} is refused')]
    return [(f'{level}-encoder-state-leak',
             'identical bytes for identical messages', obs,
             'the same message encodes differently depending on the messages '
             'built before it')]


def check_canary(case):
    dis = canary(case['canary'])
    return dis, ['canary', [d[0] for d in dis]], True


def run_canary(acc, level, record):
    """-> True when the shard must be skipped.  Every shard runs the canary;
    one designated shard per part records it as an executed case."""
    dis = canary(level)
    for kind, exp, obs, detail in dis:
        acc.violation(kind, {'canary': level}, exp, obs, detail)
    if record:
        acc.case({'canary': level}, nontrivial=True,
                 outcome=['canary', [d[0] for d in dis]])
    leak = any(d[0].endswith('state-leak') for d in dis)
    if leak:
        acc.count('shards_cut_state_leak')
    return leak


def check_lib(case):
    return stable('lib', check_lib_once, case)


def check_msg(case):
    return stable('msg', check_msg_once, case)


def check_bndl(case):
    return stable('bndl', check_bndl_once, case)


def work_lib(job):
    acc = progenum.Acc()
    broken = 0
    if run_canary(acc, 'lib', job['shard'] == 0):
        return acc.result()
    for idx, case in enumerate(lib_cases()):
        if idx % job['of'] != job['shard']:
            continue
        dis, outcome, nontriv = check_lib(case)
        for kind, exp, obs, detail in dis:
            acc.violation(kind, case, exp, obs, detail,
                          standalone=lib_standalone(jv(case['lib']))
                          if 'lib' in case else libx_standalone(case))
        acc.case(case, nontrivial=nontriv, outcome=outcome)
        if 'lib' not in case:
            acc.count('lib_typed_or_raw_bundle_cases')
            continue
        if dis:
            broken += 1
        if outcome[0].startswith('accepted') and outcome[1] > RUNAWAY:
            acc.count('shards_cut_runaway_encoding')
            break
    acc.count('lib_cases_with_disagreement', broken)
    return acc.result()


# ---------------------------------------------------------------------------
# part msg

ADDRS_Q = ['/a', '/abc', '/abcd', '/a/b']
VALUES = [
    0, 1, -1, 2 ** 31 - 1, -2 ** 31, 2 ** 31, -2 ** 31 - 1,
    0.0, 0.5, -1.5, 1e-3, 1e39, {'f': 'inf'}, {'f': 'nan'},
    '', 'a', 'abc', 'abcd', 'abcde', 'ñ', 'ññññ',
    'a\x00b', '[', ']',
    {'b': ''}, {'b': '31'}, {'b': '3132'}, {'b': '313233'},
    {'b': '31323334'}, {'b': '3132333435'}, {'mv': '313233343536'},
    {'ba': '3132'},
    True, False, None, [],
    {'m': [0, 144, 60, 64]},
    ['/m'], ['/m', 1, 'ab'], ['/m', {'b': '313233'}],
    ['/m', ['/n', {'b': '31'}]], ['/m', ['/n', ['/o', 'ñ']]],
    ['/m', 2 ** 31], ['/m', 'a\x00b'],
    [0.0, ['/x']], [None, ['/x', True]], [0.5, ['/x'], [1.0, ['/y']]],
    [0.5, ['/x'], [0.25, ['/y']]], [0.0, ['/x', [0.0, ['/y', []]]]],
]


ADDRS_LONG = ['/a', '/abcd']   # addresses used for the longest lists

# One value of each class, for 4-argument lists (what the fourth argument
# adds is type-tag padding and bracket nesting, not new value behaviour).
VALUES_4 = [
    0, 2 ** 31, 0.5, 1e-3, 1e39, 'a', 'abc', 'ññññ', 'a\x00b', '[', ']',
    {'b': ''}, {'b': '31'}, {'b': '31323334'}, {'mv': '313233343536'},
    True, None, [], {'m': [0, 144, 60, 64]},
    ['/m'], ['/m', {'b': '313233'}], ['/m', ['/n', ['/o', 'ñ']]],
    [0.0, ['/x']], [0.5, ['/x'], [1.0, ['/y']]],
]


def msg_alphabet(n):
    return VALUES_4 if n >= 4 else VALUES


# Extension family "msgx" (audit round): further members of every value class
# (what the statement quantifies over: int32, float, str ASCII / non-ASCII,
# bytes of any length, nested lists, markers) and further addresses.  They
# are not multiplied into the <= 3 argument product above; see msgx_cases.
VALUES_X = [
    2 ** 32, 16909060, -2 ** 63,
    {'f': '-inf'}, -1e39, 1e-40, 1e-50, 3.4028234663852886e38, 3.4028235e38,
    3.4028236e38, 16777217.0, 1.0, -0.0,
    'ab', 'abcdefg', '\u97f3', '\U0001d11e', 'a\xf1', '[]', '[[', ' [', '/x',
    ',', ',i', 'a\x00', '\x00', {'u': ['d800']}, {'u': ['61', 'dfff', '62']},
    {'b': '00'}, {'b': '00000000'}, {'b': 'ff00ff'},
    {'b': '2f6100002c000000'}, {'b': '31323334353637'}, {'ba': ''},
    {'mv': '31'}, {'ba': '3132333435'},
    ['/m', []], ['/m', '[', 1, ']'], ['/m', '['], ['/m', ']'], [''], ['', 1],
    ['/\xf1', '\xf1'], ['/m', {'u': ['d800']}], ['/m', {'b': ''}],
    [0, ['/x']], [1, ['/x']], [-1, ['/x']], [0.1, ['/x', {'b': '31'}]],
    [2 ** 32, ['/x']], [{'f': 'nan'}, ['/x']], [0.0, ['/x', 2 ** 31]],
    [None, ['/x'], [None, ['/y']]], [1, ['/x'], [1, ['/y']]],
]
VALUES_ALL = VALUES + VALUES_X
# One plain member per class, used as context for the positional lists.
VALUES_S = [0, 0.5, 'a', 'abcd', {'b': '31'}, True, '[', ']', ['/m'],
            [0.0, ['/x']]]
ADDRS_X = ['/ab', '/\xf1', '/a\xf1', '/abcdefg', '/\u97f3', '', '/a\x00b',
           {'u': ['2f', 'd800']}]


def chain(pattern, depth, leaf):
    """Nested list of the given depth: pattern 'm' message in message, 'b'
    bundle in bundle (inside a message), 'mb' alternating."""
    x = ['/l', leaf]
    for d in range(depth):
        k = pattern[d % len(pattern)]
        x = ['/n', d, x] if k == 'm' else [0.0, ['/e', d], x] \
            if not isinstance(x[0], str) else [0.0, x]
    return x if isinstance(x[0], str) else ['/top', x]


CHAIN_LEAVES = [{'b': '31'}, '\xf1', 2 ** 31, [], '[']


_msgx = {}


def msgx_cases(thorough):
    """Canonical list of the extension cases (plain JSON)."""
    if thorough in _msgx:
        return _msgx[thorough]
    out = []
    # further addresses: no arguments, one argument over everything, two
    # over the plain members
    for a in ADDRS_X:
        out.append([a])
        for v in VALUES_ALL:
            out.append([a, v])
        for v in VALUES_S:
            for w in VALUES_S:
                out.append([a, v, w])
    ctx3 = VALUES_4 if thorough else VALUES_S
    for a in ADDRS_LONG:
        for v in VALUES_X:
            out.append([a, v])
        # two arguments, at least one of them new
        for i, v in enumerate(VALUES_ALL):
            for j, w in enumerate(VALUES_ALL):
                if i >= len(VALUES) or j >= len(VALUES):
                    out.append([a, v, w])
        # three arguments: the new value at each position
        for x in VALUES_X:
            for v in ctx3:
                for w in ctx3:
                    out.append([a, x, v, w])
                    out.append([a, v, x, w])
                    out.append([a, v, w, x])
    # nesting "to any depth"
    for depth in range(1, 9 if thorough else 7):
        for pattern in ('m', 'b', 'mb', 'bm'):
            for leaf in CHAIN_LEAVES:
                out.append(chain(pattern, depth, leaf))
    # many arguments (type tag string longer than one word)
    plain = [v for v in VALUES_S if v not in ('[', ']')]
    for n in (5, 6, 7, 8, 11, 12):
        out.append(['/a'] + [plain[i % len(plain)] for i in range(n)])
        out.append(['/a', '['] + list(range(n - 2)) + [']'])
    seen, cases = set(), []
    for m in out:
        k = core.canon(m)
        if k not in seen:
            seen.add(k)
            cases.append({'msg': m})
    _msgx[thorough] = cases
    return cases


def msg_jobs(maxlen, addrs):
    """Lists of <= min(maxlen, 3) arguments over VALUES: all addresses for
    fewer than 3 arguments, ADDRS_LONG for exactly 3 in the quick tier
    (maxlen 3), all addresses in the thorough tier; lists of 4 arguments over
    VALUES_4 for ADDRS_LONG (the argument encoding does not depend on the
    address; '/a' leaves 2, '/abcd' 3 padding bytes)."""
    jobs = []
    for a in addrs:
        jobs.append({'part': 'msg', 'addr': a, 'n': 0, 'first': None})
        for n in range(1, maxlen + 1):
            if a not in ADDRS_LONG and (n >= 4 or n == maxlen):
                continue
            for i in range(len(msg_alphabet(n))):
                jobs.append({'part': 'msg', 'addr': a, 'n': n, 'first': i})
    return jobs


def msg_cases(job):
    if job['n'] == 0:
        yield {'msg': [job['addr']]}
        return
    vals = msg_alphabet(job['n'])
    first = vals[job['first']]
    for rest in itertools.product(vals, repeat=job['n'] - 1):
        yield {'msg': [job['addr'], first, *rest]}


def msg_standalone(py):
    return ("import sc3; sc3.init('nrt')\n"
            "from sc3.base.main import main\n"
            "from sc3.base.netaddr import NetAddr\n"
            f"msg = {pyrepr(py)}\n"
            "main._osc_interface._build_msg(0.0, ['/w', 7, 'w'])\n"
            "dgram = main._osc_interface._build_msg(0.0, msg).dgram\n"
            "print(dgram, len(dgram), "
            "NetAddr('127.0.0.1', 57110)._calc_msg_dgram_size(msg))\n")


WARMUP = ['/w', 7, 'w', [0.0, ['/v', b'v']]]


def warmup():
    """Fixed predecessor message: state leaking from one message into the
    next must show within a single (replayable) case."""
    try:
        lib()['main']._osc_interface._build_msg(0.0, jv(WARMUP))
    except Exception:
        pass


def check_msg_once(case):
    """-> (disagreements, outcome, nontrivial)"""
    L = lib()
    py = jv(case['msg'])
    vd = Verdict()
    expected = exp_message(py, vd)
    warmup()
    try:
        dgram = L['main']._osc_interface._build_msg(0.0, py).dgram
        _last['dgram'] = dgram
        err = None
    except Exception as e:
        dgram, err = None, e
    dis = []
    if err is not None:
        outcome = ['refused', exc_name(err)]
        if vd.status == ACCEPT:
            dis.append(('msg-representable-refused', 'accepted',
                        f'{exc_name(err)}: {err}'[:300], ''))
    else:
        if vd.status == REFUSE:
            why = sorted(set(r[7:] for r in vd.reasons
                             if r.startswith('refuse:')))
            dis.append(('msg-unrepresentable-accepted-' + '+'.join(why),
                        'an exception (value has no OSC representation)',
                        dgram.hex()[:400] if isinstance(dgram, bytes)
                        else repr(dgram),
                        'accepted and sent as altered bytes'))
            outcome = ['accepted-unrepresentable', len(dgram)]
        else:
            d, dec = check_encoded('msg', dgram, expected, py)
            dis += d
            try:
                pred = L['addr']._calc_msg_dgram_size(py)
            except Exception as e:
                pred = 'raises ' + exc_name(e)            # don't-care
            dis += check_size('msg', pred, len(dgram), py)
            outcome = ['accepted', len(dgram), pred,
                       dec['tags'] if dec else None]
    nontriv = any(is_nontrivial_value(v) for v in py[1:])
    return dis, outcome, nontriv


def msg_job_cases(job):
    if job['part'] == 'msgx':
        return [c for i, c in enumerate(msgx_cases(job['thorough']))
                if i % job['of'] == job['shard']]
    return msg_cases(job)


def work_msg(job):
    acc = progenum.Acc()
    if run_canary(acc, 'nrt', job['part'] == 'msg' and job['n'] == 0 and
                  job['addr'] == ADDRS_Q[0]):
        return acc.result()
    for case in msg_job_cases(job):
        dis, outcome, nontriv = check_msg(case)
        for kind, exp, obs, detail in dis:
            acc.violation(kind, case, exp, obs, detail,
                          standalone=msg_standalone(jv(case['msg'])))
        acc.case(case, nontrivial=nontriv, outcome=outcome)
        if outcome[0] == 'refused':
            acc.count('msg_refused')
        if outcome[0] == 'accepted' and isinstance(outcome[2], str):
            acc.count('size_prediction_raised_dontcare')
        if outcome[0].startswith('accepted') and outcome[1] > RUNAWAY:
            acc.count('shards_cut_runaway_encoding')
            break
    return acc.result()


# ---------------------------------------------------------------------------
# part bndl

BM_T = [['/a'], ['/a', {'b': '31'}], ['/ab', 'ññññ', 1e-3]]
BM_Q = [['/a'], ['/ab', {'b': '31'}, 'ññññ', 1e-3]]
BT = [None, -1, 0, 0.5]

_levels = {}


def bundle_levels(wide):
    """D1, D2: all bundles of depth exactly 1 / exactly 2 with <= 2 elements
    (canonical order: time, then length, then element indices)."""
    BM = BM_T if wide else BM_Q
    if wide not in _levels:
        def lists(pool, first_needed):
            # element lists of length <= 2; when first_needed is given at
            # least one element must have index >= first_needed in pool
            idx = [[]] + [[i] for i in range(len(pool))] + \
                [[i, j] for i in range(len(pool)) for j in range(len(pool))]
            return [[pool[i] for i in l] for l in idx
                    if first_needed is None or
                    any(i >= first_needed for i in l)]
        d1 = [[t, *l] for t in BT for l in lists(BM, None)]
        d2 = [[t, *l] for t in BT for l in lists(BM + d1, len(BM))]
        _levels[wide] = (BM, d1, d2)
    return _levels[wide]


def bndl_cases(wide):
    """All bundles of depth 1 and 2, then depth 3 where the outer bundle has
    one depth-2 element alone or paired (either order) with a message
    (wide: with any message or depth-1 bundle of <= 1 element)."""
    BM, d1, d2 = bundle_levels(wide)
    yield from d1
    yield from d2
    side = BM + [b for b in d1 if len(b) <= 2] if wide else BM
    for t in BT:
        for b in d2:
            yield [t, b]
        for b in d2:
            for m in side:
                yield [t, b, m]
                yield [t, m, b]


# Extension family "bndlx" (audit round): latencies of every kind (int, float,
# not a multiple of 2**-32, large, not representable), more than two elements
# per bundle, deep chains.
LATS_X = [None, -1, -0.5, 0, 0.1, 0.5, 1, 2.75, 1e6, 2 ** 32, {'f': 'inf'},
          {'f': 'nan'}]
LATS_S = [None, 0, 0.1, 1]

_bndlx = {}


def bndlx_cases(thorough):
    if thorough in _bndlx:
        return _bndlx[thorough]
    out = []
    M = [['/a'], ['/ab', {'b': '31'}, '\xf1\xf1\xf1\xf1', 1e-3]]
    for t in LATS_X:
        out.append([t])
        for m in M:
            out.append([t, m])
        for u in LATS_X:
            out.append([t, M[0], [u, M[1]]])
            out.append([t, [u, M[1]], M[0]])
            # the same pair as a completion bundle inside a message
            out.append([0.0, ['/c', [t, M[0], [u, M[1]]]]])
    for t in (LATS_X if thorough else LATS_S):
        for u in LATS_S:
            for v in LATS_S:
                out.append([t, [u, [v, M[1]]]])
    # three elements per bundle (messages and a nested bundle), then many
    E = BM_Q + [[0.5, ['/a']]]
    for t in (None, 0.5):
        for combo in itertools.product(E, repeat=3):
            out.append([t, *combo])
    for n in (4, 5, 8, 17):
        out.append([0.0] + [['/a', i] if i % 3 else [0.0, ['/b', i]]
                            for i in range(n)])
    # chains: bundle in bundle in ... with equal / growing latencies
    for depth in range(1, 9 if thorough else 7):
        for step in (0.0, 0.25, 0.1):
            x = ['/l', {'b': '31'}, '\xf1']
            for d in range(depth, 0, -1):
                x = [step * d, ['/e', d], x] if d % 2 else [step * d, x]
            out.append(x)
    seen, cases = set(), []
    for b in out:
        k = core.canon(b)
        if k not in seen:
            seen.add(k)
            cases.append(b)
    _bndlx[thorough] = cases
    return cases


def bndl_count(wide):
    BM, d1, d2 = bundle_levels(wide)
    side = len(BM) + (len([b for b in d1 if len(b) <= 2]) if wide else 0)
    return len(d1) + len(d2) + len(BT) * len(d2) * (1 + 2 * side)


def bndl_standalone(py):
    return ("import sc3; sc3.init('nrt')\n"
            "from sc3.base.main import main\n"
            "from sc3.base.netaddr import NetAddr\n"
            f"bndl = {pyrepr(py)}\n"
            "dgram = main._osc_interface._build_bundle(0.0, bndl).dgram\n"
            "print(dgram, len(dgram), NetAddr('127.0.0.1', 57110)"
            "._calc_bndl_dgram_size(bndl[1:]))\n")


def bundle_depth(b):
    return 1 + max([bundle_depth(e) for e in b[1:]
                    if not isinstance(e[0], str)] or [0])


def check_bndl_once(case):
    L = lib()
    py = jv(case['bndl'])
    vd = Verdict()
    expected = exp_bundle(py, vd)
    warmup()
    try:
        dgram = L['main']._osc_interface._build_bundle(
            0.0, jv(case['bndl'])).dgram
        _last['dgram'] = dgram
        err = None
    except Exception as e:
        dgram, err = None, e
    dis = []
    if err is not None:
        outcome = ['refused', exc_name(err)]
        if vd.status == ACCEPT:
            dis.append(('bndl-representable-refused', 'accepted',
                        f'{exc_name(err)}: {err}'[:300], ''))
    elif vd.status == REFUSE:
        dis.append(('bndl-unrepresentable-accepted-' +
                    '+'.join(vd.refusal_reasons()),
                    'an exception (value has no OSC representation)',
                    dgram.hex()[:400] if isinstance(dgram, bytes)
                    else repr(dgram), 'accepted and sent as altered bytes'))
        outcome = ['accepted-unrepresentable', len(dgram)]
    else:
        d, dec = check_encoded('bndl', dgram, expected, py)
        dis += d
        try:
            pred = L['addr']._calc_bndl_dgram_size(jv(case['bndl'])[1:])
        except Exception as e:
            pred = 'raises ' + exc_name(e)                # don't-care
        dis += check_size('bndl', pred, len(dgram), py)
        outcome = ['accepted', len(dgram), pred, vd.status]
    return dis, outcome, True


def work_bndl(job):
    acc = progenum.Acc()
    if run_canary(acc, 'nrt', job['shard'] == 0 and job['part'] == 'bndl'):
        return acc.result()
    gen = bndlx_cases(job['wide']) if job['part'] == 'bndlx' \
        else bndl_cases(job['wide'])
    for idx, b in enumerate(gen):
        if idx % job['of'] != job['shard']:
            continue
        case = {'bndl': b}
        dis, outcome, nontriv = check_bndl(case)
        for kind, exp, obs, detail in dis:
            acc.violation(kind, case, exp, obs, detail,
                          standalone=bndl_standalone(jv(b)))
        acc.case(case, nontrivial=nontriv, outcome=outcome)
        acc.count(f'bundles_depth_{bundle_depth(b)}')
        if outcome[0] == 'refused':
            acc.count('bndl_refused')
        elif outcome[0] == 'accepted' and isinstance(outcome[2], str):
            acc.count('size_prediction_raised_dontcare')
        if outcome[0] == 'accepted' and outcome[1] > RUNAWAY:
            acc.count('shards_cut_runaway_encoding')
            break
    return acc.result()


# ---------------------------------------------------------------------------
# part route (audit round): the public entry points that reach the encoder by
# another way than _build_msg / _build_bundle - NetAddr.send_msg,
# NetAddr.send_bundle, NetAddr.send_status_msg (NRT: the score entry is the
# wire) - and the two transports' _send (UDP: the datagram itself; TCP: int32
# size + packet, the OSC 1.0 stream framing) on an interface object whose
# socket is a recorder.

class _Recorder:
    def __init__(self):
        self.out = []

    def sendto(self, data, target):
        self.out.append(['sendto', bytes(data), target])
        return len(data)

    def send(self, data):
        self.out.append(['send', bytes(data)])
        return len(data)

    def sendall(self, data):
        self.out.append(['send', bytes(data)])

    def close(self):
        pass


_transports = {}


def transport(proto):
    """A real OscUdpInterface / OscTcpInterface (never bound or connected)
    whose socket is replaced by a recorder."""
    if proto not in _transports:
        from sc3.base import _oscinterface as osci
        cls = osci.OscUdpInterface if proto == 'udp' else osci.OscTcpInterface
        try:
            obj = cls(57190 if proto == 'udp' else 57191)
        except OSError:                 # no sockets in this sandbox
            obj = cls.__new__(cls)
            osci.OscInterface.__init__(obj, 57190)
            obj._proto = proto
        try:
            obj._socket.close()
        except Exception:
            pass
        obj._socket = _Recorder()
        _transports[proto] = obj
    _transports[proto]._socket.out = []
    return _transports[proto]


TRANSPORT_DATA = [
    ['/a'], ['/abc', 1, 'x', {'b': '3132333435'}], ['/s', '\xf1', None, True],
    [0.5, ['/a'], [1.0, ['/b', '\xf1']]], [None, ['/a', ['/c', 1]]],
    ['/big', {'z': 60001}], [0.0, ['/big', {'z': 65400}], ['/a']],
    ['/b256', {'z': 256}], ['/b65536', {'z': 65536}],
]


def route_cases(thorough):
    out = [{'route': 'status', 'data': ['/status']}]
    for a in ('/a', '/abcd'):
        out.append({'route': 'send_msg', 'data': [a]})
        for v in VALUES_ALL:
            out.append({'route': 'send_msg', 'data': [a, v]})
        for v in VALUES_S:
            for w in VALUES_S:
                out.append({'route': 'send_msg', 'data': [a, v, w]})
    _, d1, d2 = bundle_levels(False)
    for b in d1 + (d2 if thorough else d2[::7]) + bndlx_cases(thorough):
        out.append({'route': 'send_bundle', 'data': b})
    for proto in ('udp', 'tcp'):
        for d in TRANSPORT_DATA:
            out.append({'route': proto, 'data': d})
    return out


def route_standalone(case):
    route, py = case['route'], jv(case['data'])
    head = ("import sc3; sc3.init('nrt')\n"
            "from sc3.base.main import main\n"
            "from sc3.base.netaddr import NetAddr\n"
            "n = NetAddr('127.0.0.1', 57110)\n")
    tail = ("print([bytes(e.msg) for _, e in "
            "main._osc_interface._osc_score._scoreq][1:])\n")
    if route == 'status':
        return head + "n.send_status_msg()\n" + tail
    if route == 'send_msg':
        return head + f"n.send_msg(*{pyrepr(py)})\n" + tail
    if route == 'send_bundle':
        return head + f"n.send_bundle(*{pyrepr(py)})\n" + tail
    cls = 'OscUdpInterface' if route == 'udp' else 'OscTcpInterface'
    build = '_build_msg' if isinstance(py[0], str) else '_build_bundle'
    return (head + "from sc3.base import _oscinterface as osci\n"
            "class Rec:\n"
            "    def sendto(self, d, t): print('sendto', bytes(d)[:64], t)\n"
            "    def send(self, d): print('send', bytes(d)[:64])\n"
            f"i = osci.{cls}(57190); i._socket.close(); i._socket = Rec()\n"
            f"i._send(main._osc_interface.{build}(0.0, {pyrepr(py)}), "
            "('127.0.0.1', 57110))\n")


def check_route(case):
    L = lib()
    L['main'].reset()
    route, py = case['route'], jv(case['data'])
    vd = Verdict()
    dis = []
    is_msg = isinstance(py[0], str)
    expected = exp_message(py, vd) if is_msg else exp_bundle(py, vd)
    nontriv = not is_msg or any(is_nontrivial_value(v) for v in py[1:]) \
        or route in ('udp', 'tcp')
    if route in ('udp', 'tcp'):
        if vd.status != ACCEPT:
            raise core.HarnessError('transport data must be representable')
        iface = transport(route)
        target = ('127.0.0.1', 57110)
        try:
            build = L['main']._osc_interface._build_msg if is_msg \
                else L['main']._osc_interface._build_bundle
            iface._send(build(0.0, jv(case['data'])), target)
            err = None
        except Exception as e:
            err = e
        out = list(iface._socket.out)
        iface._socket.out = []
        if err is not None:
            return [(f'route-{route}-raised', 'packet handed to the socket',
                     f'{exc_name(err)}: {err}'[:300], '')], \
                ['raised', exc_name(err)], True
        if route == 'udp':
            if len(out) != 1 or out[0][0] != 'sendto':
                return [('route-udp-datagram-count', 'one sendto',
                         [o[0] for o in out], '')], ['calls', len(out)], True
            if tuple(out[0][2]) != target:
                dis.append(('route-udp-target', list(target),
                            _short(out[0][2]), ''))
            dgram = out[0][1]
        else:
            raw = b''.join(o[1] for o in out)
            if any(o[0] != 'send' for o in out) or len(raw) < 4 or \
                    int.from_bytes(raw[:4], 'big') != len(raw) - 4:
                return [('route-tcp-size-prefix',
                         'int32 big-endian packet size, then the packet',
                         raw[:8].hex() + f' ... {len(raw)} bytes in all',
                         'OSC 1.0 stream framing')], \
                    ['framing', len(raw)], True
            dgram = raw[4:]
        d, dec = check_encoded(f'route-{route}', dgram, expected, py)
        _last['dgram'] = dgram
        return dis + d, [route, len(dgram)], True
    warmup()
    try:
        if route == 'send_msg':
            L['addr'].send_msg(*py)
        elif route == 'send_bundle':
            L['addr'].send_bundle(py[0], *py[1:])
        else:
            L['addr'].send_status_msg()
        err = None
    except Exception as e:
        err = e
    entries = score_entries()
    L['main'].reset()
    if err is not None:
        if vd.status == ACCEPT:
            dis.append((f'route-{route}-representable-refused', 'accepted',
                        f'{exc_name(err)}: {err}'[:300], ''))
        return dis, ['refused', exc_name(err)], nontriv
    if vd.status == REFUSE:
        dis.append((f'route-{route}-unrepresentable-accepted-' +
                    '+'.join(vd.refusal_reasons()),
                    'an exception (value has no OSC representation)',
                    [e.hex()[:200] for e in entries][:2],
                    'accepted and sent as altered bytes'))
        return dis, ['accepted-unrepresentable', len(entries)], nontriv
    if len(entries) != 1:
        dis.append((f'route-{route}-datagram-count', 1, len(entries),
                    'one call must put exactly one datagram on the wire'))
        return dis, ['entries', len(entries)], nontriv
    raw = entries[0]
    dgram = raw[4:]
    _last['dgram'] = dgram
    if int.from_bytes(raw[:4], 'big') != len(dgram):
        dis.append((f'route-{route}-score-prefix-wrong', len(dgram),
                    int.from_bytes(raw[:4], 'big'), ''))
    if is_msg:
        # NRT sends a message as a bundle at the current time holding it.
        expected = Alt(expected, {'type': 'bundle', 'timetag': ANY,
                                  'elements': [expected]})
    d, dec = check_encoded(f'route-{route}', dgram, expected, py)
    return dis + d, [route, len(dgram), vd.status], nontriv


def check_route_stable(case):
    return stable('route', check_route, case)


def work_route(job):
    acc = progenum.Acc()
    for idx, case in enumerate(route_cases(job['thorough'])):
        if idx % job['of'] != job['shard']:
            continue
        dis, outcome, nontriv = check_route_stable(case)
        for kind, exp, obs, detail in dis:
            acc.violation(kind, case, exp, obs, detail,
                          standalone=route_standalone(case)
                          if len(core.canon(case)) < 600 else None)
        acc.case(case, nontrivial=nontriv, outcome=outcome)
        acc.count('route_' + case['route'])
    return acc.result()


# ---------------------------------------------------------------------------
# part rroute (audit round 2): NRT sends made from INSIDE A ROUTINE at a
# logical time > 0 (SystemClock and a TempoClock).  There the interface adds
# the logical time of the send to every latency, nested ones included, both in
# the encoded datagram (score.raw) and in the list form (score.list): the raw
# bytes are decoded and every (nested) timetag must be logical time + that
# bundle's latency, and agree with the list entry.  With 'twice' the same
# list object is sent again 0.5 beats later (a loop re-using its bundle): the
# library must not have altered the caller's list.

LATS_R = [None, -1, 0, 0.1, 0.5, 1, 2.75]
TIMELINES = [['sys', [0.25]], ['sys', [0.25, 2.5]], ['tempo2', [0.25, 2.5]],
             ['sys', [0.1]], ['sys', []]]
_rroute = {}


def rroute_cases(thorough):
    if thorough in _rroute:
        return _rroute[thorough]
    M = [['/a'], ['/ab', {'b': '31'}, '\xf1', 1e-3]]
    shapes = []          # (via, data, deep)
    for t in LATS_R:
        shapes.append(('send_bundle', [t, M[0]], False))
        for u in LATS_R:
            shapes.append(('send_bundle', [t, M[0], [u, M[1]]], False))
            shapes.append(('send_bundle', [t, [u, M[1]], M[0]], False))
            shapes.append(('send_msg', ['/c', [t, M[0], [u, M[1]]]], False))
    for t in (LATS_R if thorough else LATS_S):
        for u in LATS_S:
            for v in LATS_S:
                shapes.append(('send_bundle', [t, [u, [v, M[1]]]], True))
                shapes.append(('send_bundle',
                               [t, M[0], [u, M[0], [v, M[1]]]], True))
                shapes.append(('send_msg',
                               ['/c', [t, [u, [v, M[1]]]]], True))
    for u in LATS_S:
        shapes.append(('send_bundle', [0.0, [u, [u, [u, [u, M[1]]]]]], True))
    cases = []
    for clock, yields in TIMELINES:
        for via, data, deep in shapes:
            for twice in ((False, True) if deep or thorough else (False,)):
                cases.append({'rr': via, 'clock': clock, 'yields': yields,
                              'data': data, 'twice': twice})
    _rroute[thorough] = cases
    return cases


def rroute_standalone(case):
    py = jv(case['data'])
    call = f"n.send_msg(*b)" if case['rr'] == 'send_msg' \
        else "n.send_bundle(*b)"
    clock = 'TempoClock(2)' if case['clock'] == 'tempo2' else 'SystemClock'
    return ("import sc3; sc3.init('nrt')\n"
            "from sc3.base.main import main\n"
            "from sc3.base.netaddr import NetAddr\n"
            "from sc3.base.stream import Routine\n"
            "from sc3.base.clock import TempoClock, SystemClock\n"
            "n = NetAddr('127.0.0.1', 57110)\n"
            f"b = {pyrepr(py)}\n"
            "def r():\n"
            f"    for y in {case['yields']!r}:\n"
            "        yield y\n"
            f"    {call}\n" +
            (f"    yield 0.5\n    {call}\n" if case['twice'] else "") +
            f"Routine(r).play({clock})\n"
            "main._clock_scheduler.run()\n"
            "for t, e in main._osc_interface._osc_score._scoreq:\n"
            "    print(t, e.bndl, bytes(e.msg)[4:])\n")


def _list_vs_raw(lst, dec, path='$'):
    """score.list form [abs seconds, element, ...] against the decoded
    datagram: same nesting, every timetag = seconds * 2**32 (+-2 units)."""
    if dec['type'] != 'bundle' or not isinstance(lst, list) or not lst or \
            isinstance(lst[0], str):
        return f'{path}: list form {_short(lst)} is not a bundle like the ' \
               'datagram'
    try:
        want = int(lst[0] * oc.TWO32)
    except Exception:
        return f'{path}: list time {lst[0]!r}'
    if abs(want - dec['timetag']) > 2 and not (
            dec['timetag'] == 1 and lst[0] is not None):
        return (f'{path}: list says {lst[0]!r} s = {want}, datagram carries '
                f'{dec["timetag"]} = {dec["timetag"] / oc.TWO32!r} s')
    if len(lst) - 1 != len(dec['elements']):
        return f'{path}: {len(lst) - 1} list elements, ' \
               f'{len(dec["elements"])} in the datagram'
    for i, (a, b) in enumerate(zip(lst[1:], dec['elements'])):
        if b['type'] == 'bundle':
            r = _list_vs_raw(a, b, f'{path}[{i}]')
            if r:
                return r
    return None


def check_rroute(case):
    L = lib()
    from sc3.base.stream import Routine
    L['main'].reset()
    via = case['rr']
    tempo = 2.0 if case['clock'] == 'tempo2' else 1.0
    base = sum(case['yields']) / tempo        # beats -> seconds
    bases = [base] + ([base + 0.5 / tempo] if case['twice'] else [])
    py = jv(case['data'])
    pristine = jv(case['data'])
    vds, exps = [], []
    for b in bases:
        vd = Verdict()
        if via == 'send_msg':
            e = {'type': 'bundle', 'timetag': exp_timetag_at(None, b),
                 'elements': [exp_message(pristine, vd, b)]}
        else:
            e = exp_bundle(pristine, vd, b)
        vds.append(vd)
        exps.append(e)
    state = {'errs': [], 'ran': False}
    clock = None
    if case['clock'] == 'tempo2':
        from sc3.base.clock import TempoClock
        clock = TempoClock(2)

    def send():
        try:
            if via == 'send_msg':
                L['addr'].send_msg(*py)
            else:
                L['addr'].send_bundle(py[0], *py[1:])
            state['errs'].append(None)
        except Exception as e:
            state['errs'].append(e)

    def body():
        for y in case['yields']:
            yield y
        send()
        if case['twice']:
            yield 0.5
            send()
        state['ran'] = True

    warmup()
    try:
        Routine(body).play(clock) if clock is not None \
            else Routine(body).play()
        L['main']._clock_scheduler.run()
        entries = [(e.bndl, bytes(e.msg)) for _, e in
                   L['main']._osc_interface._osc_score._scoreq][1:]
    finally:
        if clock is not None:
            try:
                clock.stop()
            except Exception:
                pass
        L['main'].reset()
    if not state['ran'] or len(state['errs']) != len(bases):
        raise core.HarnessError(f'routine did not run: {case!r}')
    dis = []
    outcome = []
    k = 0
    for i, (b, vd, exp, err) in enumerate(zip(bases, vds, exps,
                                             state['errs'])):
        nth = 'second-' if i else ''
        if err is not None:
            outcome.append(['refused', exc_name(err)])
            if vd.status == ACCEPT:
                dis.append((f'rroute-{nth}representable-refused', 'accepted',
                            f'{exc_name(err)}: {err}'[:300],
                            f'send at logical time {b} s'))
            continue
        if k >= len(entries):
            dis.append((f'rroute-{nth}datagram-missing', 'a score entry',
                        len(entries), ''))
            break
        lst, raw = entries[k]
        k += 1
        if vd.status == REFUSE:
            dis.append((f'rroute-{nth}unrepresentable-accepted-' +
                        '+'.join(vd.refusal_reasons()),
                        'an exception (value has no OSC representation)',
                        raw.hex()[:300], ''))
            outcome.append(['accepted-unrepresentable'])
            continue
        dgram = raw[4:]
        if int.from_bytes(raw[:4], 'big') != len(dgram):
            dis.append((f'rroute-{nth}score-prefix-wrong', len(dgram),
                        int.from_bytes(raw[:4], 'big'), ''))
        d, dec = check_encoded(f'rroute-{nth}'.rstrip('-') if nth
                               else 'rroute', dgram, exp, py)
        dis += d
        if dec is not None:
            r = _list_vs_raw(lst, dec)
            if r:
                # (first entry of a list that was sent again: its own kind,
                # so that the known finding about re-sent lists can never
                # hide a disagreement that does not need the second send)
                dis.append((f'rroute-{nth}raw-disagrees-with-list' +
                            ('-after-resend' if case['twice'] and not i
                             else ''),
                            _short(lst, 300), _short(dec, 300), r))
        outcome.append(['sent', len(dgram), dec['timetag'] if dec else None])
    if k != len(entries):
        dis.append(('rroute-datagram-count', k, len(entries),
                    'score entries beyond the sends made'))
    if all(e is None for e in state['errs']) and \
            not osc10.same_value(py, pristine):
        # reported through its consequence (second send) when 'twice'; here
        # only counted
        outcome.append('input-list-altered')
    return dis, [via, case['clock'], outcome], True


def exp_timetag_at(lat, base):
    return oc.exp_timetag(lat, base)


def work_rroute(job):
    acc = progenum.Acc()
    for idx, case in enumerate(rroute_cases(job['thorough'])):
        if idx % job['of'] != job['shard']:
            continue
        dis, outcome, nontriv = check_rroute(case)
        for kind, exp, obs, detail in dis:
            acc.violation(kind, case, exp, obs, detail,
                          standalone=rroute_standalone(case))
        acc.case(case, nontrivial=sum(case['yields']) > 0, outcome=outcome)
        if 'input-list-altered' in outcome[2]:
            acc.count('rroute_input_list_altered_by_send')
    return acc.result()


# ---------------------------------------------------------------------------
# part split

def element(spec, idx):
    """spec [kind, size] -> element list whose strict OSC encoding has exactly
    `size` bytes and which carries its position `idx`."""
    kind, size = spec
    if size % 4 or size < 8:
        raise core.HarnessError(f'bad element size {size}')
    if size == 8:
        return ['/a']
    if size == 12:
        return ['/a', idx]
    if kind == 'n' and size >= 40:
        # bundle(1.0, one 's' message): 16 + 4 + message
        return [1.0, element(['s', size - 20], idx)]
    if kind == 'i' and size >= 40:
        # the same with an integer time
        return [1, element(['s', size - 20], idx)]
    if kind == 'b' and size >= 20:
        return ['/a', idx, bytes(size - 19)]     # len % 4 == 1: 3 pad bytes
    if kind == 'u' and size >= 20:
        # non-ASCII string of size - 13 UTF-8 bytes (an odd number)
        return ['/a', idx, '\xf1' * ((size - 13) // 2) + 'x']
    if kind == 'c' and size >= 40:
        # completion message: blob holding ['/b', string]
        return ['/a', idx, ['/b', 'x' * (size - 25)]]
    return ['/a', idx, 'x' * (size - 13)]


def exp_element(e, vd):
    """Expected structure of a split element.  Timetags of nested bundles are
    left open here: inside the sync routine they are relative to the logical
    time of each clump (C07 decides them)."""
    if isinstance(e[0], str):
        return exp_message(e, vd)
    st = exp_bundle(e, vd)
    st['timetag'] = ANY
    return st


CLASSES_T = [12, 16, 20, 8192, 30000, 65000]
CLASSES_Q = [12, 20, 8192, 30000, 65000]
DELTAS = [-8, -4, 0, 4, 8]
MANY_T = [1000, 5000, 5453, 5454, 5455, 5456, 5457, 5458,
          8180, 8181, 8182, 8183, 8200]
MANY_Q = [5000, 5454, 5456, 5458, 8181, 8183]


# APIs of the split part.  'clumped' NetAddr.send_clumped_bundles; 'sync'
# NetAddr.sync with a condition owned by the harness; audit round: 'syncnc'
# NetAddr.sync with its default condition (the harness plays the server: reads
# the /sync id off the wire and hands ['/synced', id] to the responder), 'bna'
# the elements collected by a BundleNetAddr context manager (send_msg /
# send_bundle / send_clumped_bundles on it) and flushed on exit, 'bnasrv' the
# same through Server.bind(), 'bnasync' head elements collected, then
# BundleNetAddr.sync(elements=tail) inside a routine, then one more message.
SPLIT_APIS = ('clumped', 'sync', 'syncnc', 'bna', 'bnasrv', 'bnasync')
SYNC_LIKE = ('sync', 'syncnc', 'bnasync')
_split_cases = {}


def split_cases(maxlen):
    """Canonical list of split cases (plain JSON).  maxlen 2 = quick tier
    (5 size classes, 6 many-small counts with latency None), 3 = thorough.
    The two original APIs get every kind and latency; the APIs added in the
    audit round string elements only (what differs is the route, not the
    sizes)."""
    if maxlen in _split_cases:
        return _split_cases[maxlen]
    cases = []
    quick = maxlen < 3
    CLASSES = CLASSES_Q if quick else CLASSES_T
    for api in SPLIT_APIS:
        old = api in ('clumped', 'sync')
        targets = [LIB_LIMIT - SYNC_RESERVE, LIB_LIMIT - 20] \
            if api in SYNC_LIKE else [LIB_LIMIT]
        for lat in (None, 0.5):
            if not old and lat is not None and \
                    (api in ('bna', 'bnasrv', 'bnasync') or quick):
                # bna: no latency parameter.  bnasync: the flushes go out
                # "now" and the sync clumps at now + latency, so the score
                # (ordered by time) would no longer show the send order.
                continue
            # size classes + a filler landing the total on target + delta
            for n in range(0, maxlen + 1):
                for combo in itertools.product(CLASSES, repeat=n):
                    base = 16 + sum(s + 4 for s in combo)
                    variants = []
                    for tgt in targets:
                        for d in DELTAS:
                            fill = tgt + d - base - 4
                            sizes = list(combo) + ([fill] if fill >= 40
                                                   else [])
                            if sizes and sizes not in variants:
                                variants.append(sizes)
                    kinds = ('s',)
                    if old and lat is None:
                        # kinds added in the audit round only for <= 1 class
                        kinds = ('s', 'b', 'n') + \
                            (('u', 'c', 'i') if n <= 1 else ())
                    for kind in kinds:
                        for sizes in variants:
                            if kind != 's' and \
                                    not any(s >= 40 for s in sizes):
                                continue
                            cases.append({
                                'api': api, 'lat': lat,
                                'els': [[kind if s >= 40 else 's', s]
                                        for s in sizes]})
            # many small elements
            if quick and lat is not None:
                continue
            for size in (8, 12):
                for n in (MANY_Q if quick else MANY_T):
                    if not old and n not in (5454, 5456, 8181, 8183):
                        continue
                    cases.append({'api': api, 'lat': lat,
                                  'many': [n, size]})
        if api in ('sync', 'syncnc'):
            # nothing to send before /sync: elements None (default) and []
            for lat in (None, 0.5):
                cases.append({'api': api, 'lat': lat, 'els': None})
                cases.append({'api': api, 'lat': lat, 'els': []})
    _split_cases[maxlen] = cases
    return cases


def split_elements(case):
    if 'many' in case:
        n, size = case['many']
        return [element(['s', size], i) for i in range(n)]
    if case['els'] is None:
        return []
    return [element(spec, i) for i, spec in enumerate(case['els'])]


def score_entries():
    """Datagrams of the NRT score in send order, root /g_new entry removed.
    Entries are (time, insertion) ordered; clumps are sent at strictly
    increasing times (or all at 0.0, FIFO), so this is the send order."""
    L = lib()
    out = []
    for _, e in L['main']._osc_interface._osc_score._scoreq:
        raw = bytes(e.msg)
        out.append(raw)
    return out[1:]


def drive_sync(lat, elements):
    """Run NetAddr.sync(cond, lat, elements) inside a routine; a second
    routine plays the server: after every hang it sets and signals the
    condition.  Returns the exception raised inside the routine or None."""
    L = lib()
    from sc3.base.stream import Routine, Condition
    from sc3.base.responders import OscFunc
    cond = Condition()
    state = {'done': False, 'err': None}

    def driver():
        try:
            yield from L['addr'].sync(cond, lat, elements)
        except Exception as e:
            state['err'] = e
        state['done'] = True

    def server():
        for _ in range(64):
            yield 1
            if state['done']:
                return
            cond.test = True
            cond.signal()
            cond.test = False

    Routine(driver).play()
    Routine(server).play()
    try:
        L['main']._clock_scheduler.run()
    finally:
        for p in list(OscFunc._all_func_proxies):
            p.free()
    if not state['done']:
        return RuntimeError('sync routine did not finish within 64 replies')
    return state['err']


def _reply_synced():
    """Play the server: take the id of the last /sync on the wire (decoded by
    the independent reader) and hand ['/synced', id] to the library's
    responder for that path."""
    L = lib()
    from sc3.base.responders import OscFunc
    ids = []
    entries = score_entries()
    if entries and entries[-1][-16:-4] == b'/sync\x00\x00\x00,i\x00\x00':
        ids = [int.from_bytes(entries[-1][-4:], 'big', signed=True)]
        entries = []
    for raw in entries:
        try:
            dec = osc10.decode(raw[4:])
        except osc10.OscError:
            continue
        if dec['type'] == 'bundle':
            ids += [e['args'][0] for e in dec['elements']
                    if e['type'] == 'message' and e['address'] == '/sync'
                    and e['args']]
    if not ids:
        return
    for p in sorted((p for p in OscFunc._all_func_proxies
                     if getattr(p, 'path', None) == '/synced'),
                    key=lambda p: repr(p)):
        p.func(['/synced', ids[-1]], 0.0, L['addr'], 57120)


def drive_routine(body):
    """Run the generator function `body` in a routine next to a routine that
    answers every /sync; returns the exception raised inside or None."""
    L = lib()
    from sc3.base.stream import Routine
    from sc3.base.responders import OscFunc
    state = {'done': False, 'err': None}

    def driver():
        try:
            yield from body()
        except Exception as e:
            state['err'] = e
        state['done'] = True

    def server():
        for _ in range(64):
            yield 1
            if state['done']:
                return
            _reply_synced()

    Routine(driver).play()
    Routine(server).play()
    try:
        L['main']._clock_scheduler.run()
    finally:
        for p in list(OscFunc._all_func_proxies):
            p.free()
    if not state['done']:
        return RuntimeError('routine did not finish within 64 replies')
    return state['err']


def bna_add(b, i, e):
    """Hand element i to a BundleNetAddr by one of its three collecting
    methods (messages only can go through send_msg)."""
    r = i % 3
    if r == 0 and isinstance(e[0], str):
        b.send_msg(*e)
    elif r == 1:
        b.send_clumped_bundles(None, e)
    else:
        b.send_bundle(0.25, e)


def drive_bna(api, lat, elements, raw_els):
    L = lib()
    from sc3.base.netaddr import BundleNetAddr
    if api == 'bnasrv':
        from sc3.synth.server import Server
        with Server.default.bind() as b:
            for i, e in enumerate(elements):
                bna_add(Server.default.addr, i, e)
        return None
    if api == 'bna':
        with BundleNetAddr(L['addr']) as b:
            for i, e in enumerate(elements):
                bna_add(b, i, e)
        return None
    k = (len(elements) + 1) // 2
    head, tail = elements[:k], elements[k:]

    def body():
        with BundleNetAddr(L['addr']) as b:
            for i, e in enumerate(head):
                bna_add(b, i, e)
            yield from b.sync(None, lat, tail if tail else None)
            b.send_msg('/z')
    return drive_routine(body)


def split_standalone(case):
    api, lat = case['api'], case['lat']
    if 'many' in case:
        n, size = case['many']
        one = "['/a']" if size == 8 else "['/a', i]"
        els = f"[{one} for i in range({n})]"
    else:
        els = pyrepr(split_elements(case))
    head = ("import sc3; sc3.init('nrt')\n"
            "from sc3.base.main import main\n"
            "from sc3.base.netaddr import NetAddr\n"
            "from sc3.base.stream import Routine, Condition\n"
            "n = NetAddr('127.0.0.1', 57110)\n"
            f"els = {els}\n")
    if case.get('els', 0) is None:
        head = head.replace('els = []', 'els = None')
    add = ("    for i, e in enumerate(ELS):\n"
           "        if i % 3 == 0 and isinstance(e[0], str): b.send_msg(*e)\n"
           "        elif i % 3 == 1: b.send_clumped_bundles(None, e)\n"
           "        else: b.send_bundle(0.25, e)\n")
    server = ("from sc3.base.responders import OscFunc\n"
              "def server():\n"
              "    while not done:\n"
              "        yield 1\n"
              "        for p in list(OscFunc._all_func_proxies):\n"
              "            if p.path == '/synced':\n"
              "                for i in range(2000):\n"
              "                    p.func(['/synced', i], 0.0, n, 57120)\n")
    run = ("Routine(driver).play(); Routine(server).play()\n"
           "main._clock_scheduler.run()\n")
    if api == 'clumped':
        body = f"n.send_clumped_bundles({lat!r}, *els)\n"
    elif api == 'sync':
        body = ("cond = Condition(); done = []\n"
                "def driver():\n"
                f"    yield from n.sync(cond, {lat!r}, els); done.append(1)\n"
                "def server():\n"
                "    while not done:\n"
                "        yield 1\n"
                "        cond.test = True; cond.signal(); cond.test = False\n"
                + run)
    elif api == 'syncnc':
        body = ("done = []\n"
                "def driver():\n"
                f"    yield from n.sync(None, {lat!r}, els); done.append(1)\n"
                + server + run)
    elif api == 'bna':
        body = ("from sc3.base.netaddr import BundleNetAddr\n"
                "with BundleNetAddr(n) as b:\n" + add.replace('ELS', 'els'))
    elif api == 'bnasrv':
        body = ("from sc3.synth.server import Server\n"
                "with Server.default.bind():\n"
                "    b = Server.default.addr\n" + add.replace('ELS', 'els'))
    else:
        body = ("from sc3.base.netaddr import BundleNetAddr\n"
                "done = []; k = (len(els) + 1) // 2\n"
                "def driver():\n"
                "  with BundleNetAddr(n) as b:\n" +
                add.replace('ELS', 'els[:k]').replace('    ', '      ')
                .replace('      for', '    for', 1) +
                f"    yield from b.sync(None, {lat!r}, els[k:] or None)\n"
                "    b.send_msg('/z')\n"
                "  done.append(1)\n" + server + run)
    tail = ("print([len(e.msg) - 4 for _, e in "
            "main._osc_interface._osc_score._scoreq][1:], "
            "'datagram sizes; UDP limit 65507')\n")
    return head + body + tail


def check_split(case):
    L = lib()
    L['main'].reset()
    api, lat = case['api'], case['lat']
    elements = split_elements(case)
    vd = Verdict()
    exp_elems = [exp_element(e, vd) for e in elements]
    if vd.status != ACCEPT:
        raise core.HarnessError('split alphabet must be representable')
    # real sizes from the independent encoder
    real_sizes = [len(osc10.encode(_concrete(x))) for x in exp_elems]
    if api == 'bnasync':
        exp_elems.append(exp_message(['/z'], vd))
    if case.get('els'):
        want_sizes = [sp[1] for sp in case['els']]
        if real_sizes[:len(want_sizes)] != want_sizes:
            raise core.HarnessError(
                f'element size model broken: {want_sizes} != {real_sizes}')
    total = 16 + sum(s + 4 for s in real_sizes)
    extra = 20 if api in SYNC_LIKE else 0
    fits_alone = all(16 + 4 + s + extra <= UDP_LIMIT for s in real_sizes)
    dis = []
    kindsfx = '-' + size_causes(elements) if size_causes(elements) != 'other' \
        else ''
    # size prediction of the whole list
    try:
        pred = L['addr']._calc_bndl_dgram_size(split_elements(case))
    except Exception as e:
        pred = 'raises ' + exc_name(e)
    dis += check_size('split', pred, total, elements)
    try:
        if api == 'clumped':
            L['addr'].send_clumped_bundles(lat, *split_elements(case))
            err = None
        elif api == 'sync':
            err = drive_sync(lat, split_elements(case)
                             if case.get('els', 0) is not None else None)
        elif api == 'syncnc':
            arg = split_elements(case) \
                if case.get('els', 0) is not None else None

            def body():
                yield from L['addr'].sync(None, lat, arg)
            err = drive_routine(body)
        else:
            err = drive_bna(api, lat, split_elements(case), case.get('els'))
    except Exception as e:
        err = e
    dgrams = score_entries()
    if err is not None:
        dis.append((f'split-raised-{api}', 'elements sent',
                    f'{exc_name(err)}: {err}'[:300], ''))
        L['main'].reset()
        return dis, ['raised', exc_name(err)], True
    got = []
    sizes = []
    empty = 0
    for raw in dgrams:
        d = raw[4:]
        if int.from_bytes(raw[:4], 'big') != len(d):
            dis.append(('split-score-prefix-wrong', len(d),
                        int.from_bytes(raw[:4], 'big'), ''))
        sizes.append(len(d))
        try:
            dec = osc10.decode(d)
        except osc10.OscError as e:
            dis.append(('split-nonconformant-datagram', 'OSC 1.0 bundle',
                        d[:64].hex(), str(e)))
            continue
        if dec['type'] != 'bundle':
            dis.append(('split-datagram-not-bundle', 'bundle', dec['type'],
                        ''))
            continue
        els = [e for e in dec['elements']
               if not (e['type'] == 'message' and e['address'] == '/sync')]
        nsync = len(dec['elements']) - len(els)
        if api in ('sync', 'syncnc') and (
                nsync != 1 or
                dec['elements'][-1].get('address') != '/sync'):
            dis.append(('split-sync-marker', 'exactly one trailing /sync',
                        f'{nsync} /sync elements', ''))
        if not els:
            empty += 1
        got += els
        if len(d) > UDP_LIMIT and fits_alone:
            where = 'unsplit' if len(dgrams) == 1 else 'clump'
            dis.append((f'split-datagram-over-limit-{api}-{where}{kindsfx}',
                        f'<= {UDP_LIMIT}', len(d),
                        f'{len(dec["elements"])} elements in this datagram, '
                        f'{len(dgrams)} datagrams, list total {total}, '
                        f'predicted {pred}'))
    diff = match(exp_elems, got)
    if diff:
        dis.append(('split-elements-lost-or-reordered',
                    f'{len(exp_elems)} elements in order',
                    f'{len(got)} elements', diff))
    outcome = [api, sizes, pred, empty]
    near = any(abs(x - lim) <= 8 for x in [total, total + extra] + sizes
               for lim in (LIB_LIMIT, LIB_LIMIT - SYNC_RESERVE, UDP_LIMIT))
    nontriv = near or len(dgrams) > 1
    L['main'].reset()
    return dis, outcome, nontriv


def work_split(job):
    acc = progenum.Acc(max_samples=2)
    cases = split_cases(job['maxlen'])
    for idx, case in enumerate(cases):
        if idx % job['of'] != job['shard']:
            continue
        dis, outcome, nontriv = check_split(case)
        for kind, exp, obs, detail in dis:
            acc.violation(kind, case, exp, obs, detail,
                          standalone=split_standalone(case)
                          if len(core.canon(case)) < 400 else None)
        acc.case(case, nontrivial=nontriv, outcome=outcome,
                 steps=len(outcome[1]) if isinstance(outcome[1], list) else 1)
        if outcome[0] != 'raised':
            acc.count('split_datagrams', len(outcome[1]))
            acc.count('split_empty_datagrams_dontcare', outcome[3])
            if len(outcome[1]) > 1:
                acc.count('split_cases_actually_split')
    return acc.result()


# ---------------------------------------------------------------------------
# part drecv

COMPLETIONS = [None, ['/x', 1], ['/x', {'b': '31'}],
               ['/x', 'ññññ'], [0.0, ['/x', {'b': '31'}]]]


def drecv_cases(thorough):
    """SynthDef byte lengths around the point where the /d_recv message
    reaches the limit, for each completion message."""
    cases = []
    L = lib_free_sizes()
    for ci, comp in enumerate(COMPLETIONS):
        csize = L[ci]
        # message = '/d_recv\0' 8 + ',b?\0' 4 + 4 + pad4(len) + completion
        edge = LIB_LIMIT - 16 - csize
        span = range(-8, 9) if thorough else (-5, -4, -3, -1, 0, 1, 4)
        for d in span:
            cases.append({'deflen': edge + d, 'completion': comp})
    # audit round: the public routes to _do_send (SynthDef.send with a server
    # / with every booted server and a completion *function*, SynthDef.add
    # with a completion function) and a server that is not local (nothing
    # can be loaded from a file there)
    for ci, comp in enumerate(COMPLETIONS):
        if not thorough and ci not in (0, 2):
            continue
        edge = LIB_LIMIT - 16 - L[ci]
        for d in (range(-8, 9, 2) if thorough else (-4, 0, 4)):
            for route in DRECV_ROUTES:
                cases.append({'deflen': edge + d, 'completion': comp,
                              'route': route})
    return cases


DRECV_ROUTES = ('send', 'send_fn', 'add_fn', 'remote')


def drecv_call(sd, route, comp):
    import types
    from sc3.synth.server import Server
    if route == 'do_send':
        sd._do_send(Server.default, comp)
    elif route == 'send':
        sd.send(Server.default, comp)
    elif route == 'send_fn':
        sd.send(None, lambda server: comp)
    elif route == 'add_fn':
        sd.add(completion_msg=lambda server: comp)
    elif route == 'remote':
        NetAddr = lib()['NetAddr']
        sd._do_send(types.SimpleNamespace(
            addr=NetAddr('192.168.0.9', 57110), name='remote'), comp)
    else:
        raise core.HarnessError(f'unknown route {route}')


def lib_free_sizes():
    """Real encoded size each completion message adds to /d_recv (blob size
    count + padded packet, or the 4-byte integer 0 placeholder)."""
    out = []
    for comp in COMPLETIONS:
        if comp is None:
            out.append(4)
            continue
        vd = Verdict()
        py = jv(comp)
        st = exp_message(py, vd) if isinstance(py[0], str) \
            else exp_bundle(py, vd)
        out.append(4 + len(osc10.encode(_concrete(st))))
    return out


def make_def(deflen):
    """A real SynthDef whose compiled form has exactly `deflen` bytes: n
    Out(SinOsc) pairs (70 bytes each) and a name of the right length."""
    from sc3.synth.synthdef import SynthDef
    from sc3.synth.ugens import SinOsc, Out
    n = (deflen - 34) // 70
    k = deflen - 33 - 70 * n
    name = ('c06' + 'a' * k)[:k]

    def graph():
        for i in range(n):
            Out.ar(0, SinOsc.ar(100 + i))

    return SynthDef(name, graph)


def drecv_standalone(case):
    n = (case['deflen'] - 34) // 70
    k = case['deflen'] - 33 - 70 * n
    return ("import sc3; sc3.init('nrt')\n"
            "from sc3.base.main import main\n"
            "from sc3.synth.synthdef import SynthDef\n"
            "from sc3.synth.ugens import SinOsc, Out\n"
            "from sc3.synth.server import Server\n"
            "def graph():\n"
            f"    for i in range({n}):\n"
            "        Out.ar(0, SinOsc.ar(100 + i))\n"
            f"sd = SynthDef({('c06' + 'a' * k)[:k]!r}, graph)\n"
            f"comp = {pyrepr(jv(case['completion']))}\n" +
            {'do_send': "sd._do_send(Server.default, comp)\n",
             'send': "sd.send(Server.default, comp)\n",
             'send_fn': "sd.send(None, lambda server: comp)\n",
             'add_fn': "sd.add(completion_msg=lambda server: comp)\n",
             'remote': "import types\n"
                       "from sc3.base.netaddr import NetAddr\n"
                       "sd._do_send(types.SimpleNamespace(addr=NetAddr("
                       "'192.168.0.9', 57110), name='remote'), comp)\n",
             }[case.get('route', 'do_send')] +
            "e = list(main._osc_interface._osc_score._scoreq)[-1][1]\n"
            "print(len(sd.as_bytes()), 'def bytes; /d_recv message of', "
            "len(e.msg) - 24, 'bytes; UDP limit 65507')\n")


def check_drecv(case):
    import tempfile
    import shutil
    L = lib()
    from sc3.synth.server import Server
    L['main'].reset()
    comp = jv(case['completion'])
    dis = []
    sd = make_def(case['deflen'])
    blen = len(sd.as_bytes())
    if blen != case['deflen']:
        # The generator could not hit the requested length (layout of the
        # compiled form changed): harmless for the oracle, which only looks
        # at what is sent, but the boundary would no longer be probed.
        raise core.HarnessError(
            f'SynthDef size model broken: wanted {case["deflen"]} got {blen}')
    tmp = tempfile.mkdtemp(prefix='c06-')
    old = tempfile.tempdir
    tempfile.tempdir = tmp        # Platform.tmp_dir = tempfile.gettempdir()
    try:
        try:
            drecv_call(sd, case.get('route', 'do_send'), comp)
            err = None
        except Exception as e:
            err = e
    finally:
        tempfile.tempdir = old
        shutil.rmtree(tmp, ignore_errors=True)
    sent = []
    for raw in score_entries():
        dec = osc10.decode(raw[4:])
        for m in dec['elements']:
            # RT sends the bare message: its size is the element size.
            sent.append([m['address'], len(osc10.encode(m))])
            # what was sent must be what was given: the definition bytes
            # (or the file name, not checked here) and the completion message
            if m['address'] in ('/d_recv', '/d_load'):
                vd = Verdict()
                want = exp_message([m['address'],
                                    bytes(sd.as_bytes())
                                    if m['address'] == '/d_recv' else 'path',
                                    comp], vd)
                if m['address'] == '/d_load':
                    want['args'][0] = ANY
                diff = match(want, m)
                if diff:
                    shown = dict(m)
                    if m['address'] == '/d_load' and m['args'] and \
                            isinstance(m['args'][0], str):
                        # temporary directory: not reproducible
                        shown['args'] = ['<path>'] + list(m['args'][1:])
                    dis.append(('drecv-roundtrip-mismatch-' +
                                m['address'].strip('/'),
                                _short(want, 300), _short(shown, 300), diff))
    bundle_comp = isinstance(comp, list) and comp and \
        not isinstance(comp[0], str)
    if err is not None:
        outcome = ['raised', exc_name(err)]     # don't-care (size prediction
        # of bundle-shaped completion messages raises; see module docstring)
        if not bundle_comp:
            dis.append(('drecv-raised', 'definition sent or loaded',
                        f'{exc_name(err)}: {err}'[:300],
                        'completion message is None or message-shaped'))
    else:
        outcome = ['sent', sent]
        for addr, size in sent:
            if addr == '/d_recv' and size > UDP_LIMIT:
                dis.append(('drecv-datagram-over-limit-' +
                            size_causes(comp if comp is not None else []),
                            f'<= {UDP_LIMIT} or /d_load', size,
                            f'definition of {blen} bytes'))
    L['main'].reset()
    # SynthDef._bytes is a memoryview exported by a BytesIO that nothing else
    # references; if the cyclic GC later clears that pair in the wrong order
    # CPython aborts ("deallocated BytesIO object has exported buffers").
    # Release the view now that nothing uses it any more.
    try:
        sd._bytes.release()
    except Exception:
        pass
    sd._bytes = None
    return dis, outcome, True


def work_drecv(job):
    acc = progenum.Acc(max_samples=1)
    cases = drecv_cases(job['thorough'])
    for idx, case in enumerate(cases):
        if idx % job['of'] != job['shard']:
            continue
        dis, outcome, nontriv = check_drecv(case)
        for kind, exp, obs, detail in dis:
            acc.violation(kind, case, exp, obs, detail,
                          standalone=drecv_standalone(case))
        acc.case(case, nontrivial=nontriv, outcome=outcome)
        if outcome[0] == 'raised':
            acc.count('drecv_raised_dontcare')
        else:
            for addr, _ in outcome[1]:
                acc.count('drecv_sent_' + addr.strip('/'))
    return acc.result()


# ---------------------------------------------------------------------------
# replay / main

def REPLAY_MODE(v):
    c = v['case']
    return 'import' if 'lib' in c or 'libx' in c or 'libb' in c or \
        c.get('canary') == 'lib' else 'nrt'


def _which(case):
    if 'canary' in case:
        return check_canary
    if 'lib' in case or 'libx' in case or 'libb' in case:
        return check_lib
    if 'msg' in case:
        return check_msg
    if 'bndl' in case:
        return check_bndl
    if 'deflen' in case:
        return check_drecv
    if 'rr' in case:
        return check_rroute
    if 'route' in case:
        return check_route_stable
    if 'api' in case:
        return check_split
    if 'deflen' in case:
        return check_drecv
    raise core.HarnessError(f'unknown case {case!r}')


def replay(job):
    dis, outcome, _ = _which(job['case'])(job['case'])
    return {'violates': any(d[0] == job['kind'] for d in dis),
            'outcome': outcome if len(repr(outcome)) < 2000
            else core.digest(outcome),
            'disagreements': [[d[0], str(d[1])[:300], str(d[2])[:300],
                               str(d[3])[:300]] for d in dis]}


def _pred_case_has(v, what):
    """Known-finding predicate: the failing case contains a value of the named
    family (blob whose length is not a multiple of 4 / non-ASCII string /
    string with NUL)."""
    case = v['case']
    if 'api' in case:
        py = split_elements(case)
    else:
        py = jv(case.get('msg') or case.get('bndl') or
                case.get('completion') or case.get('data') or
                case.get('lib') or case.get('libx') or case.get('libb') or
                [])
    for x in _walk(py):
        if what == 'blob' and isinstance(x, (bytes, bytearray, memoryview)) \
                and len(x) % 4:
            return True
        if what == 'nonascii' and isinstance(x, str) and not x.isascii():
            return True
        if what == 'nul' and isinstance(x, str) and '\x00' in x:
            return True
    return False


def _pred_resent_nested_list(v):
    """Known-finding predicate: a bundle list nested to depth >= 3 sent a
    second time (same list object) from a routine through send_bundle."""
    case = v['case']
    return case.get('rr') == 'send_bundle' and bool(case.get('twice')) and \
        bundle_depth(jv(case['data'])) >= 3


PREDICATES = {'case_has': _pred_case_has,
              'resent_nested_list': _pred_resent_nested_list}


def only_leak(ctx):
    """An encoder that keeps state between messages makes every other
    disagreement depend on the whole history of its worker (not replayable
    from the case): report the leak alone."""
    ctx.violations = {k: v for k, v in ctx.violations.items()
                      if k.endswith('-encoder-state-leak')}


def nrt_preflight():
    """Can the library be initialised at all?  (A worker pool whose
    initialiser raises would respawn workers for ever.)  Returns None or a
    one-line description."""
    import subprocess
    import sys
    code = ("import sys; sys.path.insert(0, sys.argv[1]); import sc3; "
            "sc3.init('nrt', verbosity='CRITICAL'); "
            "from sc3.base.main import main; "
            "main._osc_interface._build_bundle(0.0, [0.0, ['/a', 1]])")
    try:
        r = subprocess.run([sys.executable, '-B', '-W', 'ignore', '-c', code,
                            core.REPO], capture_output=True, text=True,
                           timeout=300)
    except subprocess.TimeoutExpired:
        return 'no result after 300 s'
    if r.returncode == 0:
        return None
    lines = [l for l in r.stderr.strip().splitlines() if l.strip()]
    return (lines[-1] if lines else f'exit status {r.returncode}')[:300]


def main(ctx):
    thorough = ctx.tier != 'quick'
    maxlen = 4 if thorough else 3
    addrs = ADDRS_Q
    ctx.rule = (
        'E1: every message = address x argument list (all lists up to the '
        'stated length over the value alphabet, plus the listed extension '
        'families), every bundle nesting up to depth 3 (plus latency / '
        'width / depth families), every route case, every split case, is '
        'encoded by the real library and decoded by an independent strict '
        'OSC 1.0 reader. A message case is '
        'non-trivial when an argument is padded (string/blob whose payload '
        'is not a multiple of 4), coerced (None/bool/[]/float not exact in '
        'float32), a bracket marker or a nested list; every bundle case '
        'nests by construction; typed-argument / raw-bundle cases of the '
        'plain builder and transport cases always count (they exist only '
        'for the type or framing); a split case is non-trivial when a total '
        'or a datagram is within 8 bytes of a limit or the list was split.')
    ctx.assumptions += [
        'oracle: mc/oracles/osc10.py, strict OSC 1.0 reader/writer typed in '
        'from the specification (self-tested on the spec examples); strings '
        'are carried as UTF-8 as the statement includes non-ASCII strings',
        'coercion table taken from the property statement (None/False/[] -> '
        'int 0, True -> int 1, float -> float32, message/bundle-shaped list '
        '-> blob, bracket markers -> array tags)',
        'NRT score entries are the datagrams the RT interface would send '
        '(OscScore.add encodes with the same _build_bundle); timetags are '
        'absolute from zero outside routines, "immediately" may be 0 or 1',
        'UDP payload limit 65507 bytes (IPv4)',
        'OSC 1.0 stream framing for TCP: int32 big-endian size, then the '
        'packet',
        'a string with a lone surrogate, an empty address, a latency that '
        'is NaN, infinite or >= 2^32 s have no representation (refusal '
        'demanded)',
        'python struct is trusted for float32 rounding']
    ctx.bounds['alphabet_values'] = {'evaluations': 0, 'n': len(VALUES)}
    ctx.extra['alphabet_values_extension'] = len(VALUES_X)
    ctx.extra['addresses'] = len(ADDRS_Q) + len(ADDRS_X)
    import time
    t0 = time.time()

    def lap(name):
        nonlocal t0
        ctx.extra['wall_s_' + name] = round(time.time() - t0, 1)
        t0 = time.time()
    # --- pure builder/reader (no sc3.init) + canary
    of = 16
    jobs = [{'part': 'lib', 'shard': i, 'of': of} for i in range(of)]
    n_before = ctx.evaluations
    progenum.run(ctx, MODNAME, 'work_lib', jobs, mode='import',
                 bound=f'osclib builder: {len(ADDRS_Q)} addresses x <= 2 '
                       f'args over {len(PURE)} plain OSC values; '
                       f'{len(ADDRS_LIBX)} addresses x <= 2 typed args over '
                       f'{len(TYPED)} (value, type) pairs; bundle builder: '
                       f'{len(RAW_TT)} raw timetags, nesting <= 3')
    n_lib = ctx.evaluations - n_before - \
        ctx.extra.get('lib_typed_or_raw_bundle_cases', 0)
    lap('lib')
    broken = ctx.extra.get('lib_cases_with_disagreement', 0)
    if ctx.extra.get('shards_cut_state_leak'):
        only_leak(ctx)
        ctx.caps.append('the OSC builder keeps state between messages: '
                        'cases are not independent, nothing else was run')
        return
    if broken * 4 >= n_lib or ctx.extra.get('shards_cut_runaway_encoding'):
        ctx.caps.append(
            f'systematic breakage of the OSC builder ({broken} of {n_lib} '
            'plain cases disagree): the NRT parts were not run')
        return
    err = nrt_preflight()
    if err:
        if ctx.violations:
            ctx.caps.append('sc3.init("nrt") fails on this tree (' + err +
                            '): the NRT parts were not run')
            return
        raise core.HarnessError('sc3.init("nrt") fails: ' + err)
    # --- messages
    jobs = msg_jobs(maxlen, addrs)
    progenum.run(ctx, MODNAME, 'work_msg', jobs, mode='nrt',
                 bound=(f'messages: {len(addrs)} addresses x <= 3 args over '
                        f'{len(VALUES)} values; {len(ADDRS_LONG)} addresses '
                        f'x 4 args over {len(VALUES_4)} values')
                 if thorough else
                 (f'messages: {len(addrs)} addresses x <= 2 args, '
                  f'{len(ADDRS_LONG)} addresses x 3 args, over '
                  f'{len(VALUES)} values'))
    lap('msg')
    of = 64
    jobs = [{'part': 'msgx', 'shard': i, 'of': of, 'thorough': thorough}
            for i in range(of)]
    progenum.run(ctx, MODNAME, 'work_msg', jobs, mode='nrt',
                 bound=f'messages, extension: {len(ADDRS_X)} further '
                       f'addresses (non-ASCII, empty, NUL, every padding) x '
                       f'<= 1 arg over {len(VALUES_ALL)} values and 2 args '
                       f'over {len(VALUES_S)}; {len(ADDRS_LONG)} addresses x '
                       f'{len(VALUES_X)} further values alone, paired with '
                       f'every value, and at each position of 3 args with '
                       f'{len(VALUES_4 if thorough else VALUES_S)}^2 '
                       f'contexts; nesting chains to depth '
                       f'{8 if thorough else 6}; 5-12 arguments')
    lap('msgx')
    if ctx.extra.get('shards_cut_state_leak'):
        only_leak(ctx)
        ctx.caps.append('the message encoder keeps state between messages: '
                        'cases are not independent, remaining parts not run')
        return
    if ctx.extra.get('shards_cut_runaway_encoding'):
        ctx.caps.append('runaway encodings in the message part: remaining '
                        'parts were not run')
        return
    # --- bundles
    of = 64
    jobs = [{'part': 'bndl', 'shard': i, 'of': of, 'wide': thorough}
            for i in range(of)]
    progenum.run(ctx, MODNAME, 'work_bndl', jobs, mode='nrt',
                 bound='bundles: depth <= 3, <= 2 elements per bundle, '
                       f'{len(BM_T if thorough else BM_Q)} '
                       'messages x 4 latencies' +
                       (' (depth 3: depth-2 element + message or depth-1 '
                        'bundle of <= 1 element)' if thorough else
                        ' (depth 3: depth-2 element + optional message)'))
    lap('bndl')
    of = 16
    jobs = [{'part': 'bndlx', 'shard': i, 'of': of, 'wide': thorough}
            for i in range(of)]
    progenum.run(ctx, MODNAME, 'work_bndl', jobs, mode='nrt',
                 bound=f'bundles, extension: {len(LATS_X)} latencies (int, '
                       'float, not a multiple of 2^-32, 1e6, 2^32, inf, nan) '
                       'in pairs outer x nested (either order, and as a '
                       'completion bundle inside a message), triples over '
                       f'{len(LATS_S)}, 3 elements per bundle over 3 element '
                       'shapes, 4-17 elements, chains to depth '
                       f'{8 if thorough else 6}')
    lap('bndlx')
    # --- other entry points
    of = 16
    jobs = [{'part': 'route', 'shard': i, 'of': of, 'thorough': thorough}
            for i in range(of)]
    progenum.run(ctx, MODNAME, 'work_route', jobs, mode='nrt',
                 bound='routes: NetAddr.send_msg (2 addresses x <= 1 arg '
                       f'over {len(VALUES_ALL)} values, 2 args over '
                       f'{len(VALUES_S)}), NetAddr.send_bundle (depth-1, '
                       + ('all' if thorough else 'every 7th') +
                       ' depth-2 and all extension bundles), '
                       'send_status_msg; UDP and TCP _send x '
                       f'{len(TRANSPORT_DATA)} packets')
    lap('route')
    of = 16
    jobs = [{'part': 'rroute', 'shard': i, 'of': of, 'thorough': thorough}
            for i in range(of)]
    progenum.run(ctx, MODNAME, 'work_rroute', jobs, mode='nrt',
                 bound='routine sends: nested bundles (depth 2 over '
                       f'{len(LATS_R)}^2 latencies in both element orders '
                       'and as completion bundle through send_msg; depth 3 '
                       f'over {len(LATS_R if thorough else LATS_S)}x'
                       f'{len(LATS_S)}^2; depth 5) sent from a routine at '
                       'logical times 0, 0.1, 0.25, 2.75 s (SystemClock) '
                       'and 2.75 beats of a TempoClock(2); depth >= 3 '
                       + ('and all others ' if thorough else '') +
                       'also sent a second time 0.5 beats later from the '
                       'same list object')
    lap('rroute')
    # --- splitting
    of = 64
    sl = 3 if thorough else 2
    jobs = [{'part': 'split', 'shard': i, 'of': of, 'maxlen': sl}
            for i in range(of)]
    progenum.run(ctx, MODNAME, 'work_split', jobs, mode='nrt',
                 bound=f'split: <= {sl} elements from '
                       f'{len(CLASSES_T if thorough else CLASSES_Q)} size '
                       'classes + filler, totals on limit + {-8..8}, kinds '
                       'string/blob/nested bundle (<= 1 class: also '
                       'non-ASCII string, completion message, int-timed '
                       'bundle), '
                       f'{len(MANY_T if thorough else MANY_Q)} many-small '
                       'counts x 2 sizes, send_clumped_bundles and sync '
                       '(latency None / 0.5; sync also without elements); '
                       'string elements through sync with its own '
                       'condition, BundleNetAddr (direct and Server.bind) '
                       'flush, BundleNetAddr.sync in a routine')
    lap('split')
    # --- /d_recv
    of = 16
    jobs = [{'part': 'drecv', 'shard': i, 'of': of, 'thorough': thorough}
            for i in range(of)]
    progenum.run(ctx, MODNAME, 'work_drecv', jobs, mode='nrt',
                 bound='d_recv: real SynthDefs of edge + offsets bytes x 5 '
                       'completion messages through _do_send; '
                       + ('5' if thorough else '2') + ' completions x '
                       + ('9' if thorough else '3') + ' offsets through '
                       'send(server), send(None, function), add(function) '
                       'and to a non-local address')
    lap('drecv')
    ctx.extra['udp_limit'] = UDP_LIMIT
