"""C20 - definition builds are deterministic, isolated and leave no residue.

Four parts (DESIGN.md 5 C20), all compared with one reference table that is
filled by building every definition as the first thing in its own fresh
process:

(a) repetition (E1, NRT): every graph program of the C01 spaces below the bound
    (scalar programs and programs over channel lists) is built several times,
    alternately from a freshly created function and from the function object
    of the build before; all results equal.
(b) histories (E2, NRT): every sequence of <= N operations over {good builds,
    failing builds, SynthDesc.new_from, units created outside} and over {builds
    that share their function and argument objects, SynthDef.add, the
    @synthdef decorator, store + reading the files back, deferred writing};
    after every step the build context is None, the build lock is free, units
    created outside (plain, multi-output, width-first) have no definition and
    good builds equal the reference bytes.  A third alphabet holds definitions
    in which the library creates helper units itself (silence for zero
    channels of every sink class, K2A, info units, Env.circle).
(c) census (cross-process): the outcome of a fixed set of definitions and
    programs is computed in fresh subprocesses under several PYTHONHASHSEED
    values, in NRT and in RT-virtual mode, forwards and backwards; all equal.
(d) concurrency (E3, RT-virtual): two threads run one operation each; the
    build lock is a virtual lock and every access to main._current_synthdef
    is a scheduling point; all schedules within the preemption bound.

Hidden residue is what the property forbids, so a worker process cannot be
"reset" between cases.  Parts a, b and d therefore run every shard in a fresh
process and remember the position of a disagreement in that process (the
`walk`); the parent first tries to reproduce the small case on its own in a
fresh process and falls back to the walk, which is reproducible by
construction."""

import hashlib
import itertools
import json
import os
import subprocess

from mc import core, graphprog as gp
from mc.engines import progenum
from mc.oracles import build_ref

MODE = 'nrt'
MODNAME = 'mc.checks.c20'
VERSION = 1
PYTHON = '/venv/bin/python'


def REPLAY_MODE(v):
    return {'a': 'nrt', 'b': 'nrt', 'c': None, 'd': 'rt',
            'e': 'nrt'}[v['case']['part']]


# ---------------------------------------------------------------------------
# The definitions (operation alphabet).  Every call creates fresh function
# objects; nothing is cached between calls.
# ---------------------------------------------------------------------------

G_P0 = {'stmts': [['mul', 'A', 'K'], ['madd', 'A', 'v0', 'P'],
                  ['sum3', 'v0', 'v1', 'N']], 'outs': 'each', 'tagbase': 100}

GOOD = ['g:p0', 'g:ctl', 'g:wrapfft']
SMALL = ['g:s1', 'g:s2']          # few context accesses: used by part (d)
FAIL = ['f:fn', 'f:rate', 'f:nan', 'f:name', 'f:intr']
FAIL_MORE = ['f:sig', 'f:wrap', 'f:type']
DESC = ['desc:g:ctl', 'desc:g:p0:nokeep', 'desc:g:ctl:bad']
# definitions whose function objects AND build argument objects (rates,
# prepend, variants, metadata with specs, a closed-over Env, the arguments of
# an inner wrap) are created once per process and shared by every build of
# all of them: 'repeated builds' of the very same objects, and the script idiom
# SynthDef('a', fa, **common); SynthDef('b', fb, **common).  g:sh3 is the
# function of g:sh1 built without variants and metadata (its None defaults are
# then not replaced by spec defaults).
SHARED = ['g:sh1', 'g:sh2', 'g:sh3', 'f:sh']
# definitions in which the library makes helper units of its own accord - the
# places where a maintainer is tempted to memoise "the one" helper on a unit
# class or in a module: the DC.ar(0) silence that replaces literal / folded
# zero channels of every audio sink class (Out, ReplaceOut, OffsetOut, XOut,
# LocalOut; flat and nested channel lists), K2A for non-audio inputs of
# delays, the info units behind SoundIn, the Latch/Impulse of Env.circle
ZERO = ['g:zout', 'g:zrep', 'g:zx', 'g:zall', 'f:zero']
# witnesses for objects a definition hands out (sd.metadata, sd.variants,
# desc.metadata ...): built WITHOUT variants and metadata, with parameters
# that have no default (a leaked 'specs' entry would supply one) and controls
# a leaked variant could name.  g:s1, g:sh3 and g:zout are witnesses too.
NODEF = ['g:nd', 'g:nd2']
ALL_DEFS = GOOD + SMALL + FAIL + FAIL_MORE + SHARED + ZERO + NODEF
# other public routes that build a definition or read one back (every one of
# them is 'earlier use of the library' for what follows)
LIBUSE = ['add:g:ctl', 'deco:g:sh1', 'deco:g:sh3', 'store:g:sh1', 'late:g:p0']
LANE_MAPS = ['alt', 'mix', 'three']     # names of mc.checks.c01.LANES
# (b) second alphabet: shared objects x library routes x width-first units
OPS2 = SHARED + LIBUSE + ['g:wrapfft', 'f:fn', 'f:type', 'desc:g:wrapfft',
                          'bare']
# (b) third alphabet: implicit helper units x failing builds x read-back
OPS3 = ZERO + ['desc:g:zall', 'deco:g:zout', 'g:ctl', 'f:fn', 'bare']
# (b) fourth alphabet: a user writes to what built definitions hand out, then
# builds definitions without variants / metadata
OPS4 = ['touch:g:s1', 'touch:g:nd', 'hook:g:nd2', 'touchsys', 'g:nd', 'g:nd2',
        'g:s1', 'g:sh3', 'g:zout', 'f:fn']
# (a) definitions that are built repeatedly on their own
REP_DEFS = GOOD + SMALL + ['g:sh1', 'g:sh2', 'g:sh3'] + ZERO + NODEF
# census items that are operations (the definition built in them is compared)
CENSUS_OPS = LIBUSE + ['add:g:sh2', 'deco:g:ctl', 'deco:g:s1',
                       'desc:g:wrapfft', 'deco:g:zout', 'desc:g:zall',
                       'touch:g:s1', 'touch:g:nd', 'hook:g:nd2', 'touchsys']

_L = None


def _lib():
    global _L
    if _L is None:
        class L:
            pass
        from sc3.synth.synthdef import SynthDef
        from sc3.synth.synthdesc import SynthDesc
        from sc3.synth.envelope import Env
        from sc3.synth.ugens import (oscillators, inout, noise, pan, envgen,
                                     bufio, fft, filter, infougens, delays)
        L.info = infougens
        L.dly = delays
        L.SynthDef, L.SynthDesc, L.Env = SynthDef, SynthDesc, Env
        L.osc, L.io, L.noise, L.pan, L.eg, L.buf, L.fft, L.flt = (
            oscillators, inout, noise, pan, envgen, bufio, fft, filter)
        _L = L
    return _L


_S = None


def _shared():
    """The process-wide objects of the SHARED definitions (never re-created:
    that every build sees the same objects is the point)."""
    global _S
    if _S is not None:
        return _S
    m = _lib()
    from sc3.synth.spec import ControlSpec

    class S:
        pass
    S.env = m.Env([0, 1, 0.5, 0], [0.01, 0.2, 0.5], 'sin', 2)
    S.rates = [None, 'ir', 0.25, 0.1]      # shorter than the parameter lists
    S.prepend = [0.5]
    S.variants = {'lo': {'freq': 110}, 'hi': {'freq': 880, 'amp': 0.25}}
    S.metadata = {'specs': {
        'freq': ControlSpec(20, 20000, 'exp', default=330),
        'cut': ControlSpec(100, 8000, 'exp', default=1200)}, 'by': 'c20'}
    S.wrap_rates = ['tr']
    S.wrap_prepend = [2]

    def inner(mul, trig=0, cut=None):
        n = m.noise.WhiteNoise.ar() * mul
        return m.flt.LPF.ar(n, cut) * m.eg.EnvGen.kr(S.env, trig)

    def sh1(scale, freq=None, amp=0.5, lagged: 'tr' = 0.1, gate=1, cut=None,
            mode='x'):
        # lagged: the lag 0.25 of a trigger control is ignored (warning);
        # mode: a default that is no control value is replaced (warning) and
        # has no spec
        s = m.osc.SinOsc.ar(freq) * amp * scale
        e = m.eg.EnvGen.kr(S.env, gate, done_action=2)
        f = m.flt.LPF.ar(s * e, cut + mode)
        m.io.Out.ar(0, [f * lagged, f])

    def sh2(scale, freq=None, amp=0.25):
        x = m.SynthDef.wrap(inner, rates=S.wrap_rates,
                            prepend=S.wrap_prepend)
        # controls made by hand (the idiom of sc3.base.play) and an envelope
        # that asks for the build context
        m.io.Control.add_name('extra')
        extra = m.io.Control.kr(0.75)
        loop = m.Env([0, 1, 0], [0.1, 0.2]).circle()
        e = m.eg.EnvGen.kr(loop)
        s = m.osc.SinOsc.ar(freq) * amp * scale
        m.io.Out.ar(0, (x + s) * e * extra)

    def shf(scale, freq=None, amp=0.5):
        x = m.SynthDef.wrap(inner, rates=S.wrap_rates,
                            prepend=S.wrap_prepend)
        e = m.eg.EnvGen.kr(S.env, 1, done_action=2)
        m.io.Out.ar(0, m.osc.SinOsc.ar(freq) * amp * scale * e + x)
        raise RuntimeError('the shared graph function fails')
    S.funcs = {'g:sh1': sh1, 'g:sh2': sh2, 'f:sh': shf}
    _S = S
    return S


def make_def(key):
    """Build the definition `key` through the real constructor (may raise)."""
    name, func, kwargs = def_parts(key)
    return _lib().SynthDef(name, func, **kwargs)


class _Recorder:
    """Stands in for the library's SynthDef class inside `_def_table`: the
    constructor call is returned as data instead of being performed."""

    def __init__(self, real):
        self.wrap = real.wrap

    def __call__(self, name, func, **kwargs):
        return name, func, kwargs


def def_parts(key):
    """-> (name, graph function, keyword arguments) of the definition `key`;
    all objects fresh, except those of the SHARED definitions."""
    real = _lib()

    class M:
        pass
    m = M()
    m.__dict__.update({k: v for k, v in vars(real).items()
                       if not k.startswith('__')})
    m.SynthDef = _Recorder(real.SynthDef)
    return _def_table(key, m)


def _def_table(key, m):
    if key == 'g:sh3':
        S = _shared()
        return m.SynthDef('gs', S.funcs['g:sh1'], rates=S.rates,
                          prepend=S.prepend)
    if key in SHARED:
        S = _shared()
        return m.SynthDef('gs', S.funcs[key], rates=S.rates,
                          prepend=S.prepend, variants=S.variants,
                          metadata=S.metadata)
    if key == 'g:p0':
        graph, _ = gp.make_function(G_P0)
        return m.SynthDef('g', graph)
    if key == 'g:ctl':
        # every control rate, an array default, a lag, variants; named like
        # g:p0 on purpose
        def graph(freq=440, amp: 'ir' = 0.125, gate: 'tr' = 1,
                  mod: 'ar' = 0, pos=(0.25, 0.5), lagged=0.5):
            s = m.osc.SinOsc.ar(freq + mod) * amp
            e = m.eg.EnvGen.kr(m.Env.adsr(), gate, done_action=2)
            m.io.Out.ar(0, m.pan.Pan2.ar(s * e, pos) * lagged)
        return m.SynthDef(
            'g', graph, rates=[None, None, None, None, None, 0.5],
            variants={'a': {'freq': 220}, 'b': {'amp': 0.5, 'pos': [0, 1]},
                      'c': {'lagged': 1}})
    if key == 'g:wrapfft':
        # wrapped sub-functions, local buffers (state kept on the definition
        # under construction), width-first units
        def inner(cut=800, q=0.5):
            return m.flt.LPF.ar(m.noise.WhiteNoise.ar(), cut) * q

        def graph(out=0, amp=0.5):
            x = m.SynthDef.wrap(inner)
            y = m.SynthDef.wrap(inner, prepend=[1200])
            chain = m.fft.FFT.kr(m.buf.LocalBuf.new(64), x + y)
            chain = m.fft.PV_MagAbove.new(chain, 0.25)
            z = m.fft.IFFT.ar(chain)
            chain2 = m.fft.FFT.kr(m.buf.LocalBuf.new(64), x)
            m.io.Out.ar(out, [z * amp, m.fft.IFFT.ar(chain2) * amp])
        return m.SynthDef('g2', graph)
    if key == 'g:s1':
        def graph(freq=440):
            m.io.Out.ar(0, m.osc.SinOsc.ar(freq))
        return m.SynthDef('g', graph)
    if key == 'g:s2':
        def inner(cut=800):
            return m.flt.LPF.ar(m.noise.WhiteNoise.ar(), cut)

        def graph():
            buf = m.buf.LocalBuf.new(8)
            m.io.Out.ar(0, m.SynthDef.wrap(inner) * m.info.BufFrames.ir(buf))
        return m.SynthDef('g', graph)
    if key == 'f:fn':
        def graph(freq=440, amp=0.25):
            c = m.fft.FFT.kr(m.buf.LocalBuf.new(32), m.osc.SinOsc.ar(freq))
            m.io.Out.ar(0, m.fft.IFFT.ar(c) * amp)
            raise ValueError('the graph function fails')
        return m.SynthDef('g', graph)
    if key == 'f:intr':
        def graph(freq=330, pos=(0.5, 0.25)):
            m.io.Out.ar(0, m.pan.Pan2.ar(m.osc.SinOsc.ar(freq), pos))
            raise KeyboardInterrupt()
        return m.SynthDef('g', graph)
    if key == 'f:rate':
        def graph(freq=3):
            m.io.Out.ar(0, m.osc.SinOsc.kr(freq))
        return m.SynthDef('g', graph)
    if key == 'f:nan':
        def graph(amp=0.5):
            m.io.Out.ar(0, m.osc.SinOsc.ar(float('nan')) * amp)
        return m.SynthDef('g', graph)
    if key == 'f:name':
        def graph():
            m.io.Out.ar(0, m.osc.SinOsc.ar(440))
        return m.SynthDef('n' * 256, graph)
    if key == 'f:sig':
        def graph(*, freq=440):
            m.io.Out.ar(0, m.osc.SinOsc.ar(freq))
        return m.SynthDef('g', graph)
    if key == 'f:wrap':
        def inner(cut=800):
            m.flt.LPF.ar(m.noise.WhiteNoise.ar(), cut)
            raise ValueError('the wrapped function fails')

        def graph(out=0):
            m.io.Out.ar(out, m.SynthDef.wrap(inner))
        return m.SynthDef('g2', graph)
    if key in ZERO:
        def sig(freq):
            return m.osc.SinOsc.ar(freq)
        if key == 'g:zout':
            def graph(freq=440):
                s = sig(freq)
                m.io.Out.ar(0, [s, 0])              # literal zero channel
                m.io.Out.ar(2, [s * 0, s])          # folded zero channel
        elif key == 'g:zrep':
            def graph(freq=330):
                s = sig(freq)
                m.io.ReplaceOut.ar(0, [0, s])
                m.io.OffsetOut.ar(2, [s, 0.0, s - s * 1])
        elif key == 'g:zx':
            def graph(freq=220, mix=0.5):
                s = sig(freq)
                back = m.io.LocalIn.ar(2)
                m.io.XOut.ar(0, mix, [s + back[0], 0])
                m.io.LocalOut.ar([0 * s, s * 0.5])
        elif key == 'g:zall':
            def graph(freq=550, mix=0.25):
                s = sig(freq)
                back = m.io.LocalIn.ar(2)
                mic = m.io.SoundIn.ar([0, 1])
                d = m.dly.DelayN.ar(0.0, 0.1, 0.1) + m.dly.CombN.ar(
                    m.osc.SinOsc.kr(3), 0.1, 0.1, 1)
                loop = m.Env([0, 1, 0], [0.1, 0.2]).circle()
                e = m.eg.EnvGen.kr(loop) * m.info.SampleRate.ir() \
                    / m.info.SampleRate.ir()
                m.io.LocalOut.ar([s * e, 0])
                m.io.XOut.ar(4, mix, [0, back[1] + d])
                m.io.OffsetOut.ar(2, [mic[0] * 0, mic[1]])
                m.io.ReplaceOut.ar(6, [s, 0, s])
                m.io.Out.ar(0, [[s, 0], [0.0, back[0]]])   # nested lists
        else:
            def graph(freq=110):
                s = sig(freq)
                m.io.Out.ar(0, [s, 0])
                m.io.XOut.ar(2, 0.5, [0, s])
                m.io.LocalOut.ar([s * 0])
                raise ValueError('the graph function fails')
        return m.SynthDef('gz', graph)
    if key == 'g:nd':
        def graph(freq=None, amp=None, cut=None):
            s = m.osc.SinOsc.ar(freq) * amp
            m.io.Out.ar(0, m.flt.LPF.ar(s, cut + 100))
        return m.SynthDef('g', graph)
    if key == 'g:nd2':
        def inner(cut=None, q=None):
            return m.flt.LPF.ar(m.noise.WhiteNoise.ar(), cut + 100) * q

        def graph(freq=None, pos=(0.25, 0.5)):
            m.io.Out.ar(0, m.pan.Pan2.ar(
                m.osc.SinOsc.ar(freq) + m.SynthDef.wrap(inner), pos))
        return m.SynthDef('g', graph, rates=[0.1])
    if key == 'f:type':
        # a callable that is not a function: refused after the context is set
        import functools

        def graph(a, freq=440):
            m.io.Out.ar(0, m.osc.SinOsc.ar(freq) * a)
        return m.SynthDef('g', functools.partial(graph, 0.5))
    raise core.HarnessError(f'unknown definition {key}')


def _sha(data):
    return hashlib.sha1(data).hexdigest()


_PASS = ('Abort', 'StepBudgetExceeded')


def _bare_units(m):
    """Units of every kind of context reader, created outside any build:
    plain units and operators, the channels of a multi-output unit and its
    source, width-first units (their own attach method), control units."""
    x = m.osc.SinOsc.ar([440, 441])
    y = x * 0.5
    z = m.pan.Pan2.ar(m.noise.WhiteNoise.ar(), 0.5)
    c = m.fft.FFT.kr(0, x[0])
    w = m.fft.IFFT.ar(m.fft.PV_MagAbove.new(c, 0.25))
    k = m.io.Control.kr([1, 2])
    a = m.io.AudioControl.ar([0])
    units = list(x) + list(y) + list(z) + [z[0].source_ugen, c, w,
                                           c.inputs[1]]
    for ch in list(k) + [a]:        # two channels / a single channel
        units += [ch, ch.source_ugen]
    return units


def _lib_use(m, op, sd, data):
    """The library routes that register / store / read a definition -> note
    (what they return or raise is not decided by the statement)."""
    import io as _io
    route = op.split(':', 1)[0]
    try:
        if route == 'desc':
            if op.endswith(':bad'):
                cut = data[:len(data) * 2 // 3]

                class Truncated:
                    metadata = {}

                    def as_bytes(self):
                        return cut
                arg, kd = Truncated(), True
            else:
                arg, kd = sd, not op.endswith(':nokeep')
            m.SynthDesc.new_from(arg, kd)
        elif route == 'add':
            sd.add()
        elif route == 'store':
            import pathlib
            import shutil
            import tempfile
            from sc3.synth.synthdesc import SynthDescLib
            d = tempfile.mkdtemp(prefix='c20-store-')
            try:
                sd.store(dir=d)
                path = pathlib.Path(d) / f'{sd.name}.scsyndef'
                lib = SynthDescLib.get_lib('default')
                lib.read(path, keep_defs=False)
                # (a file holding several definitions with variants cannot
                # be read back by the library at all: not tried)
                try:
                    m.SynthDesc.read(path, keep_defs=True)
                except AttributeError:
                    pass
                m.SynthDesc._read_stream(_io.BytesIO(data), True)
                # load(): definition file + description + metadata file
                sd.load(None, dir=d)
            finally:
                shutil.rmtree(d, ignore_errors=True)
        return route + '-ok'
    except Exception as e:
        return f'{route}-raises-{type(e).__name__}'


def _leak_specs():
    from sc3.synth.spec import ControlSpec
    return {n: ControlSpec(1, 20000, 'exp', default=d) for n, d in (
        ('freq', 777), ('amp', 0.7), ('cut', 7000), ('q', 0.7), ('out', 7),
        ('pos', 0.7), ('mix', 0.7), ('lagged', 0.7), ('gate', 0.7))}


_LEAK_VARIANTS = {'freq': 111, 'amp': 0.11, 'cut': 1111, 'out': 1}


def _touch(sd, desc=None):
    """Use the objects a definition (and its description) hands out the way
    a user may: in-place writes.  What that means for `sd` itself is the
    user's business; no other definition may notice."""
    for md in (sd.metadata, getattr(desc, 'metadata', None)):
        if isinstance(md, dict):
            md.setdefault('specs', {}).update(_leak_specs())
            md['touched'] = True
    if isinstance(sd.variants, dict):
        # one control per variant, 'freq' (which every witness has) first:
        # the writer stops at the first variant it cannot use
        for cname, value in _LEAK_VARIANTS.items():
            sd.variants['l' + cname] = {cname: value}
    if desc is not None:
        for name in ('controls', 'control_names', 'inputs', 'outputs',
                     'constants'):
            lst = getattr(desc, name, None)
            if isinstance(lst, list):
                lst.reverse()
                lst.append(lst[0] if lst else None)
        if isinstance(desc.control_dict, dict):
            desc.control_dict['leak'] = None


def _touch_route(m, op, sd):
    route = op.split(':', 1)[0]
    from sc3.synth.synthdesc import SynthDescLib
    try:
        if route == 'touch':
            _touch(sd, m.SynthDesc.new_from(sd, True))
            sd.add()
            _touch(sd, SynthDescLib.get_lib('default').at(sd.name))
        else:
            import shutil
            import tempfile
            d = tempfile.mkdtemp(prefix='c20-hook-')
            saved = m.SynthDesc.__dict__['populate_metadata_func']
            try:
                m.SynthDesc.populate_metadata_func = \
                    lambda desc: _touch(desc.sdef or sd, desc)
                sd.store(dir=d)
            finally:
                m.SynthDesc.populate_metadata_func = saved
                shutil.rmtree(d, ignore_errors=True)
        return route + '-ok'
    except Exception as e:
        return f'{route}-raises-{type(e).__name__}'


def _touch_system_defs():
    from sc3.synth.systemdefs import SystemDefs
    for sd in SystemDefs.synthdefs:
        _touch(sd)


def run_op(op, keep=None):
    """Perform one operation on the real library -> outcome (plain data).
    `keep` (a list) receives the created objects so that they stay alive."""
    m = _lib()
    try:
        if op == 'bare':
            units = _bare_units(m)
            if keep is not None:
                keep.append(units)
            return ['bare', all(u._synthdef is None for u in units)]
        if op == 'touchsys':
            _touch_system_defs()
            return ['bare', True]
        key = build_ref.ref_key(op)
        route = op.split(':', 1)[0]
        if route == 'deco':
            # the decorator: builds, adds and registers a boot action
            from sc3.synth.synthdef import synthdef
            name, func, kwargs = def_parts(key)
            func.__name__ = name
            sd = synthdef(**kwargs)(func) if kwargs else synthdef(func)
        else:
            sd = make_def(key)
        if keep is not None:
            keep.append(sd)
        if route == 'late':
            # the bytes are written only after other builds (one failing),
            # a description read-back and outside units have come and gone
            for other in ('f:fn', 'desc:g:s2', 'bare'):
                run_op(other, keep)
        data = gp.sd_bytes(sd)
        out = ['ok', _sha(data)]
        if route in ('touch', 'hook'):
            # (the touched definition is not written again: what the writes
            # mean for it is not C20's business)
            out.append(_touch_route(m, op, sd))
        if route in ('desc', 'add', 'store'):
            out.append(_lib_use(m, op, sd, data))
            if gp.sd_bytes(sd) != data:
                out[1] = 'changed-by-' + route
        return out
    except BaseException as e:
        if type(e).__name__ in _PASS:
            raise
        return ['raise', type(e).__name__]


def post_state():
    """The observable build state right now (see mc/oracles/build_ref.py)."""
    from sc3.base.main import main
    m = _lib()
    cur = main._current_synthdef
    lock = main._def_build_lock
    got = lock.acquire(blocking=False)
    if got:
        lock.release()
    try:
        # one unit per attach method of the library: plain, output proxy
        # (and its multi-output source), width-first
        x = m.osc.SinOsc.kr(1.0)
        z = m.pan.Pan2.ar(x, 0.5)
        c = m.fft.FFT.kr(0, x)
        probe = all(u._synthdef is None
                    for u in (x, z[0], z[1], z[0].source_ugen, c))
    except Exception:
        probe = False
    post = {'ctx_none': cur is None, 'lock_free': bool(got),
            'probe_none': probe}
    if cur is not None:
        post['ctx_repr'] = f'{type(cur).__name__} {getattr(cur, "name", "?")!r:.40}'
    return post


def force_clean():
    """Repair the visible residue after a reported disagreement so that the
    walk can go on (what is left hidden is the walk's business)."""
    from sc3.base.main import main
    main._current_synthdef = None
    lock = main._def_build_lock
    if hasattr(lock, '_owner'):
        lock._owner, lock._count = None, 0
    elif lock.locked():
        lock.release()


class Cands:
    """Per kind: the smallest case and the earliest case of this process."""

    def __init__(self):
        self.small = {}
        self.early = {}
        self.n = 0

    def add(self, kind, case, walk, pos, exp, obs, detail, size):
        self.n += 1
        v = {'kind': kind, 'case': case, 'walk': walk, 'pos': pos,
             'expected': exp, 'observed': obs, 'detail': detail,
             'size': size}
        b = self.small.get(kind)
        if b is None or _ksmall(v) < _ksmall(b):
            self.small[kind] = v
        b = self.early.get(kind)
        if b is None or _kearly(v) < _kearly(b):
            self.early[kind] = v

    def merge(self, res):
        self.n += res.get('ncand', 0)
        for v in res.get('cands', ()):
            for tab, key in ((self.small, _ksmall), (self.early, _kearly)):
                b = tab.get(v['kind'])
                if b is None or key(v) < key(b):
                    tab[v['kind']] = v

    def dump(self, res):
        seen = {}
        for tab in (self.small, self.early):
            for v in tab.values():
                seen[core.canon([v['kind'], v['case'], v['walk']])] = v
        res['cands'] = list(seen.values())
        res['ncand'] = self.n
        return res


def hidden_residue(kind):
    """Kinds that prove residue no clean-up of the visible state removes:
    what the same process does afterwards is not attributable to the case
    in hand any more, so the shard's walk ends there (it is reported)."""
    return any(w in kind for w in ('bytes-differ', 'outcome-differs',
                                   'outside-unit'))


def _ksmall(v):
    return (v['size'], core.canon(v['case']), v['pos'], core.canon(v['walk']))


def _kearly(v):
    return (v['pos'], core.canon(v['walk']), core.canon(v['case']))


# ---------------------------------------------------------------------------
# (a) repetition
# ---------------------------------------------------------------------------

REPLAY_BUILDS = 32
REPEAT = 24


def check_rep(prog, builds):
    """-> None (ill-formed) | (disagreements, nontrivial, outcome)"""
    from sc3.base.main import main
    try:
        ref = gp.interpret(prog)
    except gp.IllFormed:
        return None
    m = _lib()
    keep = []
    outs = []
    dis = []
    graph = None
    for i in range(builds):
        try:
            # every second build re-uses the function object of the build
            # before it, the others get a freshly created function
            if i % 2 == 0 or graph is None:
                graph, _r = gp.make_function(prog)
            sd = m.SynthDef('g', graph)
            keep.append(sd)
            outs.append(['ok', gp.sd_bytes(sd)])
        except Exception as e:
            outs.append(['raise', type(e).__name__])
        if main._current_synthdef is not None:
            if not dis:
                dis.append(('rep-context-left-set', None,
                            f'after build {len(outs)} ({outs[-1][0]})', ''))
            main._current_synthdef = None
        if main._def_build_lock.locked():
            if not dis:
                dis.append(('rep-build-lock-left-held', 'free',
                            f'held after build {len(outs)} ({outs[-1][0]})',
                            ''))
            force_clean()
    first = outs[0]
    for i, o in enumerate(outs[1:], 1):
        if o[0] != first[0]:
            dis.append(('rep-outcome-differs', first[0], o[0],
                        f'build 1 vs build {i + 1} of the same program'))
            break
        if o[0] == 'ok' and o[1] != first[1]:
            dis.append(('rep-bytes-differ', _sha(first[1]), _sha(o[1]),
                        f'build 1 vs build {i + 1}: ' +
                        build_ref.first_difference(first[1], o[1])))
            break
    outcome = [first[0], _sha(first[1]) if first[0] == 'ok' else first[1]]
    return dis, ref['nontrivial'], outcome


def check_rep_def(key, builds):
    """The definition `key` built `builds` times in a row (all objects kept
    alive); same oracle as check_rep: all results equal, nothing left set."""
    from sc3.base.main import main
    outs = []
    keep = []
    dis = []
    for _ in range(builds):
        o = run_op(key, keep)
        outs.append(o)
        if main._current_synthdef is not None or \
                main._def_build_lock.locked():
            if not dis:
                dis.append(('rep-context-or-lock-left-after-definition',
                            None, f'after build {len(outs)} ({o[0]})', ''))
            force_clean()
    first = outs[0]
    for i, o in enumerate(outs[1:], 1):
        if o[0] != first[0]:
            dis.append(('rep-def-outcome-differs', first[0], o[0],
                        f'build 1 vs build {i + 1} of {key}'))
            break
        if o[0] == 'ok' and o[1] != first[1]:
            dis.append(('rep-def-bytes-differ', first[1], o[1],
                        f'build 1 vs build {i + 1} of {key}'))
            break
    return dis, True, first[:2]


def _rep_walk(job, upto=None):
    """Run the shard (or its first `upto`+1 programs); yields per program
    (index, prog, result of check_rep)."""
    if job['space'] == 'defs':
        # one definition per fresh process would hide nothing, but then no
        # earlier definition could have seeded a cache either: each job
        # builds its definitions one after the other
        for idx, key in enumerate(job['keys']):
            yield idx, {'def': key}, check_rep_def(key, job['builds'])
            if upto is not None and idx >= upto:
                return
        return
    from mc.checks import c01
    it = c01.programs(job['space'], job['shard'], job['of'], job['tagbase'],
                      job.get('slice_of', 1), job.get('slice_ix', 0),
                      job.get('lanes'))
    for idx, prog in enumerate(it):
        yield idx, prog, check_rep(prog, job['builds'])
        if upto is not None and idx >= upto:
            return


def work_rep(job):
    acc = progenum.Acc()
    cands = Cands()
    walk_job = dict(job)
    for idx, prog, r in _rep_walk(job):
        if r is None:
            acc.count('skipped_ill_formed')
            continue
        dis, nt, outcome = r
        for kind, exp, obs, detail in dis:
            case = {'part': 'a', 'prog': prog, 'builds': REPLAY_BUILDS}
            cands.add(kind, case, {'job': walk_job, 'index': idx}, idx, exp,
                      obs, detail, len(prog.get('stmts', ())) * 10000 +
                      len(core.canon(prog)))
        acc.case(prog, nt, outcome, steps=job['builds'])
        if any(hidden_residue(d[0]) for d in dis):
            acc.count('shards_stopped_after_hidden_residue')
            break
    return cands.dump(acc.result())


def replay_rep(case):
    if 'walk' in case:
        w = case['walk']
        r = None
        for idx, prog, r in _rep_walk(w['job'], upto=w['index']):
            pass
        if r is None or prog != case['prog']:
            return []
        return r[0]
    if 'def' in case['prog']:
        return check_rep_def(case['prog']['def'], case['builds'])[0]
    r = check_rep(case['prog'], case['builds'])
    return [] if r is None else r[0]


# ---------------------------------------------------------------------------
# (b) histories
# ---------------------------------------------------------------------------

def hist_nontrivial(h):
    """The last step tests isolation from something earlier: it follows a
    failing build, a description read-back, a registration / storage route
    or a different good build."""
    if len(h) < 2:
        return False
    last = h[-1]
    return any(o.startswith(('f:', 'desc:', 'late:', 'touch') +
                            build_ref.LIB_ROUTES + build_ref.TOUCH_ROUTES)
               or (o.startswith('g:') and o != last) for o in h[:-1])


def _hist_walk(job, stop=None):
    """Depth-first (lexicographic) walk over all histories of exactly
    job['depth'] operations that start with one of job['prefixes']; every
    prefix of every history is checked.  A history is abandoned at its first
    disagreement and histories extending a disagreeing prefix are skipped.
    Yields (leaf number, history so far, step index, observation,
    disagreements, first_visit)."""
    ops = job['ops']
    depth = job['depth']
    refs = job['refs']
    bad = set()
    leaf = -1
    for pre in job['prefixes']:
        rest = depth - len(pre)
        for tail in itertools.product(range(len(ops)), repeat=rest):
            leaf += 1
            ixs = list(pre) + list(tail)
            if any(tuple(ixs[:k]) in bad for k in range(1, depth + 1)):
                yield leaf, None, None, None, None, False
                continue
            hist = [ops[i] for i in ixs]
            keep = []
            for j, op in enumerate(hist):
                outcome = run_op(op, keep)
                post = post_state()
                obs = dict(post, outcome=outcome)
                dis = build_ref.judge_step(op, refs, obs)
                first = all(i == 0 for i in ixs[j + 1:])
                yield leaf, hist[:j + 1], j, obs, dis, first
                if stop is not None and (leaf, j) == tuple(stop):
                    return
                if dis:
                    bad.add(tuple(ixs[:j + 1]))
                    force_clean()
                    break


def work_hist(job):
    acc = progenum.Acc()
    cands = Cands()
    pos = 0
    for leaf, hist, j, obs, dis, first in _hist_walk(job):
        if hist is None:
            acc.count('histories_skipped_below_a_disagreeing_prefix')
            continue
        pos += 1
        for kind, exp, o, detail in dis:
            case = {'part': 'b', 'history': hist, 'refs': job['refs']}
            cands.add(kind, case, {'job': job, 'stop': [leaf, j]}, pos, exp,
                      o, detail, len(hist) * 1000 + len(core.canon(hist)))
        if first:
            acc.case({'part': 'b', 'history': hist}, hist_nontrivial(hist),
                     [hist, obs['outcome']], steps=0)
        acc.tr += 1
        if any(hidden_residue(d[0]) for d in dis):
            acc.count('shards_stopped_after_hidden_residue')
            break
    res = acc.result()
    res['tv'] = res['tr']
    return cands.dump(res)


def replay_hist(case):
    if 'walk' in case:
        w = case['walk']
        last = None
        for last in _hist_walk(w['job'], stop=w['stop']):
            pass
        if last is None or last[1] != case['history']:
            return []
        return last[4]
    for dis in _hist_iterations(case, case.get('repeat', 1)):
        if dis:
            return dis
    return []


def _hist_iterations(case, n):
    """Perform the history n times in a row (a longer history under the same
    oracle; objects stay alive so that the addresses of later builds differ);
    yields the disagreements of each iteration (first disagreeing step)."""
    keep = []
    for _ in range(n):
        found = []
        for op in case['history']:
            outcome = run_op(op, keep)
            obs = dict(post_state(), outcome=outcome)
            found = build_ref.judge_step(op, case['refs'], obs)
            if found:
                force_clean()
                break
        yield found


# ---------------------------------------------------------------------------
# (c) census in subprocesses
# ---------------------------------------------------------------------------

def census_programs(tagbase, slice_of):
    from mc.checks import c01
    out = []
    for p in c01.programs('s1', 0, 1, tagbase):
        out.append(p)
    for p in c01.programs('s2', 0, 1, tagbase, slice_of, 0):
        out.append(p)
    return out


def census_child():
    """Entry point of a census subprocess: argv = mode order tagbase slice_of
    repo focus repeat.  Prints one JSON object {item id: outcome}; the item
    `focus` (if any) is built `repeat` times and reported as the sorted list
    of its distinct outcomes under '@focus'."""
    import sys
    import faulthandler
    faulthandler.dump_traceback_later(900, exit=True)
    mode, order, tagbase, slice_of, repo, focus, repeat = sys.argv[1:8]
    only = len(sys.argv) > 8 and sys.argv[8] == 'only'
    if repo not in sys.path:
        sys.path.insert(0, repo)
    if mode == 'nrt':
        import sc3
        sc3.init('nrt', verbosity='CRITICAL')
    else:
        from mc import seams
        seams.init_rt_virtual()
    import sc3 as _sc3
    assert os.path.realpath(_sc3.__file__).startswith(
        os.path.realpath(repo)), (_sc3.__file__, repo)
    ex = None
    if mode == 'rt':
        from mc import seams
        ex = seams.Execution([], start_clocks=False)
    items = [('d:' + k, k) for k in ALL_DEFS + CENSUS_OPS]
    if only:
        # pristine reference: this one definition is the first thing built
        items = [it for it in items if it[0] == focus]
    else:
        for i, p in enumerate(census_programs(int(tagbase), int(slice_of))):
            items.append((f'p:{i}', p))
    if order == 'rev':
        items.reverse()
    from sc3.base.main import main
    m = _lib()
    out = {}
    keep = []
    for iid, it in items:
        seen = []
        for _ in range(int(repeat) if iid == focus else 1):
            if isinstance(it, str):
                o = run_op(it, keep)
            else:
                try:
                    gp.interpret(it)
                except gp.IllFormed:
                    o = None
                    break
                try:
                    graph, _r = gp.make_function(it)
                    sd = m.SynthDef('g', graph)
                    keep.append(sd)
                    o = ['ok', _sha(gp.sd_bytes(sd))]
                except Exception as e:
                    o = ['raise', type(e).__name__]
            # visible residue is part (b)'s business; here it must neither
            # become a second disagreement nor block the next build
            force_clean()
            if o not in seen:
                seen.append(o)
            if iid != focus:
                del keep[:]
        if o is None:
            continue
        out[iid] = seen[0]
        if iid == focus:
            out['@focus'] = sorted(seen)
    if ex is not None:
        ex.finish()
    sys.stdout.write(json.dumps(out, sort_keys=True))
    sys.stdout.flush()


def census_run(cfg, tagbase, slice_of, focus='-', repeat=1, timeout=240,
               only=False):
    """cfg = [mode, hashseed, order] -> {item: outcome}; parent side or
    replay worker (mode None)."""
    mode, hashseed, order = cfg
    env = dict(os.environ)
    env['PYTHONHASHSEED'] = str(hashseed)
    env['PYTHONDONTWRITEBYTECODE'] = '1'
    env['PYTHONWARNINGS'] = 'ignore::SyntaxWarning'
    code = (f'import sys; sys.path.insert(0, {core.VERIF!r}); '
            'from mc.checks import c20; c20.census_child()')
    r = subprocess.run(
        [PYTHON, '-B', '-c', code, mode, order, str(tagbase), str(slice_of),
         core.REPO, focus, str(repeat), 'only' if only else 'all'], env=env,
        capture_output=True, text=True, timeout=timeout, cwd=core.VERIF)
    if r.returncode != 0:
        raise core.HarnessError(
            f'census subprocess {cfg} failed rc={r.returncode}: '
            f'{r.stderr[-1500:]}')
    return json.loads(r.stdout)


def census_compare(base_cfg, base, cfg, got):
    """-> [(kind, item, expected, observed)]"""
    if cfg[0] != base_cfg[0]:
        kind = 'census-differs-between-nrt-and-rt'
    elif cfg[2] != base_cfg[2]:
        kind = 'census-differs-by-build-order'
    else:
        kind = 'census-differs-by-hash-seed'
    out = []
    for iid in sorted(set(base) | set(got)):
        a, b = base.get(iid), got.get(iid)
        if a is None or b is None or a[0] != b[0] or \
                (a[0] == 'ok' and a[1] != b[1]):
            out.append((kind, iid, a, b))
    return out


def replay_census(case):
    """Both configurations again, the item built case['repeat'] times in
    each: more than one distinct outcome over all of these builds is the
    disagreement (a seed or mode dependence gives one outcome per
    configuration, an address dependence several within one)."""
    outs = [case['ref'][:2]] if 'ref' in case else []
    for cfg in (case['a'], case['b'])[:1 if 'ref' in case else 2]:
        r = census_run(cfg, case['tagbase'], case['slice_of'], case['item'],
                       case['repeat'])
        for o in r.get('@focus', []):
            if o[:2] not in outs:
                outs.append(o[:2])
    classes = {core.canon(o if o[0] == 'ok' else o[:1]) for o in outs}
    if len(classes) > 1:
        return [(case['kind'], 'one outcome', f'{len(classes)} outcomes',
                 case['item'])]
    return []


# ---------------------------------------------------------------------------
# (d) two builder threads
# ---------------------------------------------------------------------------

_SEAM = {'active': False, 'store': {}, 'log': None, 'installed': False}


class _CtxSeam:
    """Data descriptor on the metaclass of `main`: every read and write of
    main._current_synthdef is a scheduling point while a driver is active."""

    def __get__(self, obj, objtype=None):
        if obj is None:
            return self
        if _SEAM['active']:
            from mc import vthreading as vt
            vt.SCHED.point('ctx')
        return _SEAM['store'].get(obj)

    def __set__(self, obj, value):
        if _SEAM['active']:
            from mc import vthreading as vt
            vt.SCHED.point('ctx')
            if _SEAM['log'] is not None:
                _SEAM['log'].append(
                    vt.SCHED.current.name + ('+' if value is not None
                                             else '-'))
        _SEAM['store'][obj] = value


def install_seam():
    from sc3.base.main import main
    meta = type(main)
    assert meta.__name__ == 'Process', meta
    _SEAM['store'] = {main: None}
    _SEAM['active'] = False
    meta._current_synthdef = _CtxSeam()
    _SEAM['installed'] = True
    assert main._current_synthdef is None


def remove_seam():
    from sc3.base.main import main
    if _SEAM['installed']:
        _SEAM['active'] = False
        del type(main)._current_synthdef
        _SEAM['installed'] = False
        main._current_synthdef = None


def run_conc(scn, prefix, step_budget=50000, keep=None):
    """One execution: threads X and Y perform scn['X'] / scn['Y'].
    -> (points, choices, result)"""
    from mc import seams, vthreading as vt
    ex = seams.Execution(prefix, start_clocks=False, step_budget=step_budget)
    S = vt.SCHED
    log = []
    outcomes = {}
    _SEAM['log'] = log

    def target(name, op):
        def f():
            outcomes[name] = run_op(op, keep)
        return f

    status, detail = 'ok', ''
    try:
        ths = [seams._VTModule.Thread(target=target(n, scn[n]), name=n,
                                      daemon=True) for n in ('X', 'Y')]
        # both threads are made runnable in the set-up phase (default
        # choices: the main thread is not preempted); exploration starts
        # when the main thread blocks in join()
        S.chooser = vt.Chooser(())
        for t in ths:
            t.start()
        S.chooser = ex.chooser
        _SEAM['active'] = True
        for t in ths:
            t.join()
    except vt.Deadlock as e:
        status, detail = 'deadlock', str(e)
    except vt.Livelock as e:
        status, detail = 'livelock', str(e)
    finally:
        _SEAM['active'] = False
        _SEAM['log'] = None
    post = None
    if status == 'ok':
        post = post_state()
        problems = ex.finish()
    else:
        S.deadlock = None
        S.livelock = None
        try:
            S.teardown()
            problems = []
        except Exception as e:
            problems = [['teardown', repr(e)]]
    force_clean()
    result = {'status': status, 'detail': detail, 'outcomes': outcomes,
              'post': post, 'log': log, 'dead': [list(x) for x in S.dead],
              'problems': [list(p) for p in problems], 'steps': S.steps}
    return ex.chooser.points, ex.chooser.choices, result


def judge_conc(scn, refs, res):
    dis = []
    tag = '-interrupt-scenario' if 'f:intr' in (scn['X'], scn['Y']) else ''
    if res['status'] != 'ok':
        return [('conc-' + res['status'] + tag, 'both threads finish',
                 res['detail'], '')]
    for name, exc in res['dead']:
        dis.append(('conc-thread-died', None, [name, exc], ''))
    for p in res['problems']:
        dis.append(('conc-finish-problem', None, p, ''))
    for n in ('X', 'Y'):
        o = res['outcomes'].get(n)
        if o is None:
            dis.append(('conc-thread-without-outcome', None, n, ''))
            continue
        dis += [(k, e, ob, f'thread {n}: {d}; context log {res["log"]}')
                for k, e, ob, d in
                build_ref.judge_outcome(scn[n], refs, o, 'conc-')]
    # which operation the end state is attributed to is not decidable:
    # one kind per scenario class
    for k, e, ob, d in build_ref.judge_state('g:any', res['post'], 'conc-'):
        k = k.replace('-after-good-build', '-at-the-end') + tag
        dis.append((k, e, ob, f'context log {res["log"]}'))
    return dis


def _conc_walk(job, on_exec, stop=None):
    from mc.engines import schedx

    class _Stop(Exception):
        pass
    n = [-1]

    def run(prefix):
        return run_conc(job['scn'], prefix)

    def on_result(choices, points, res):
        n[0] += 1
        if on_exec(n[0], list(choices), points, res) == 'stop':
            raise _Stop()
        if stop is not None and n[0] >= stop:
            raise _Stop()

    install_seam()
    try:
        return schedx.explore(run, job['max_pre'], 0, on_result,
                              max_exec=job.get('max_exec'))
    except _Stop:
        return None
    finally:
        remove_seam()


def work_conc(job):
    from mc.engines.schedx import cost_of
    acc = progenum.Acc(max_samples=1)
    cands = Cands()
    scn = job['scn']

    def on_exec(k, choices, points, res):
        pre, _ = cost_of(points, choices)
        case = {'part': 'd', 'scn': scn, 'choices': choices,
                'refs': job['refs']}
        dis = judge_conc(scn, job['refs'], res)
        for kind, exp, obs, detail in dis:
            cands.add(kind, case, {'job': job, 'index': k}, k, exp, obs,
                      detail, pre * 100000 + len(choices) * 100 +
                      len(core.canon(scn)))
        acc.case({'part': 'd', 'scn': scn, 'choices': choices}, pre > 0,
                 [scn, res['log'], res['outcomes']], steps=res['steps'])
        acc.count('scheduling_points', len(points))
        acc.count('executions')
        if any(hidden_residue(d[0]) for d in dis):
            acc.count('shards_stopped_after_hidden_residue')
            return 'stop'

    _conc_walk(job, on_exec)
    return cands.dump(acc.result())


def replay_conc(case):
    if 'walk' in case:
        w = case['walk']
        last = []

        def on_exec(k, choices, points, res):
            last[:] = [choices, res]
        _conc_walk(w['job'], on_exec, stop=w['index'])
        if not last or last[0] != case['choices']:
            return []
        return judge_conc(case['scn'], case['refs'], last[1])
    for dis in _conc_iterations(case, case.get('repeat', 1)):
        if dis:
            return dis
    return []


def _conc_iterations(case, n):
    keep = []      # objects stay alive: later executions see new addresses
    install_seam()
    try:
        for _ in range(n):
            _, ch, res = run_conc(case['scn'], case['choices'], keep=keep)
            yield judge_conc(case['scn'], case['refs'], res)
    finally:
        remove_seam()


# ---------------------------------------------------------------------------
# (e) caller-owned mutable arguments shared by several builds
# ---------------------------------------------------------------------------

ARG_RATES = [[], [None], ['ir'], [0.5], ['tr', None], [None, 'ar', 0.25]]
ARG_FUNCS = ['A', 'B', 'C', 'W', 'F']


def _arg_function(name, shared):
    """Graph functions with different numbers of parameters, annotations and
    lags; every one has a leading prepended parameter and a control 'f'."""
    m = _lib()
    if name == 'A':
        def fa(k, f=440, b: 'ir' = 2, c: 'tr' = 3, g=None):
            m.io.Out.ar(0, m.osc.SinOsc.ar(f + g) * b * c * k)
        return fa
    if name == 'B':
        def fb(k, x: 'ar' = 0, f=330, z: 'kr' = 0.5):
            m.io.Out.ar(0, m.osc.SinOsc.ar(f + x) * z * k)
        return fb
    if name == 'C':
        def fc(k, f=220, q=2):
            m.io.Out.ar(0, m.osc.SinOsc.ar(f) * q * k)
        return fc
    if name == 'W':
        def inner(k, t: 'tr' = 1, i: 'ir' = 0.5, g=None):
            return m.osc.SinOsc.ar(110 + g) * t * i * k

        def fw(k, f=550, y: 'ir' = 0.25):
            x = m.SynthDef.wrap(inner, rates=shared['rates'],
                                prepend=shared['prepend'])
            m.io.Out.ar(0, (m.osc.SinOsc.ar(f) + x) * y * k)
        return fw
    if name == 'F':
        def ff(k, f=660, u: 'tr' = 1, v: 'ir' = 2):
            m.io.Out.ar(0, m.osc.SinOsc.ar(f) * u * v * k)
            raise ValueError('the graph function fails')
        return ff
    raise core.HarnessError(name)


def _arg_objects(rates):
    from sc3.synth.spec import ControlSpec
    return {'rates': list(rates), 'prepend': [0.5],
            'variants': {'lo': {'f': 110}, 'hi': {'f': 880}},
            'metadata': {'specs': {'g': ControlSpec(0, 10, default=5)},
                         'by': 'c20'}}


def _arg_content(args):
    """Plain-data picture of the argument objects."""
    md = args['metadata']
    return {'rates': list(args['rates']), 'prepend': list(args['prepend']),
            'variants': {k: dict(v) for k, v in args['variants'].items()},
            'metadata': {'keys': list(md), 'specs': {
                n: repr(getattr(sp, 'default', sp))
                for n, sp in md['specs'].items()}}}


def _arg_build(name, args):
    m = _lib()
    try:
        sd = m.SynthDef('ga', _arg_function(name, args), rates=args['rates'],
                        prepend=args['prepend'], variants=args['variants'],
                        metadata=args['metadata'])
        return ['ok', _sha(gp.sd_bytes(sd))]
    except Exception as e:
        return ['raise', type(e).__name__]


def check_args(case):
    """One set of argument objects is handed to every build of the sequence;
    each build must equal the build of the same function with freshly made
    equal arguments and must leave the content of the arguments alone."""
    dis = []
    shared = _arg_objects(case['rates'])
    before = _arg_content(shared)
    outs = []
    for i, name in enumerate(case['seq']):
        ref = _arg_build(name, _arg_objects(case['rates']))
        got = _arg_build(name, shared)
        outs.append(got)
        force_clean()
        if got[0] != ref[0] or (got[0] == 'ok' and got[1] != ref[1]):
            dis.append(('shared-arguments-build-differs-from-fresh-arguments',
                        ref, got, f'build {i + 1} ({name}) of {case["seq"]}'))
            break
        after = _arg_content(shared)
        for arg in ('rates', 'prepend', 'variants', 'metadata'):
            if after[arg] != before[arg] and not any(
                    d[0] == f'caller-{arg}-changed-by-build' for d in dis):
                dis.append((f'caller-{arg}-changed-by-build', before[arg],
                            after[arg], f'after build {i + 1} ({name}) of '
                            f'{case["seq"]}'))
    return dis, outs


def arg_cases(maxlen):
    for n in range(1, maxlen + 1):
        for seq in itertools.product(ARG_FUNCS, repeat=n):
            for rates in ARG_RATES:
                yield {'part': 'e', 'rates': rates, 'seq': list(seq)}


def work_args(job):
    acc = progenum.Acc()
    cands = Cands()
    for idx, case in enumerate(arg_cases(job['maxlen'])):
        if idx % job['of'] != job['shard']:
            continue
        dis, outs = check_args(case)
        for kind, exp, obs, detail in dis:
            cands.add(kind, case, None, idx, exp, obs, detail,
                      len(case['seq']) * 1000 + len(core.canon(case)))
        acc.case(case, len(set(case['seq'])) > 1 or 'F' in case['seq'],
                 [case['seq'], case['rates'], outs], steps=len(case['seq']))
    return cands.dump(acc.result())


def replay_args(case):
    return check_args(case)[0]


# ---------------------------------------------------------------------------
# replay / predicates
# ---------------------------------------------------------------------------

STABILITY_RUNS = 10


def replay(job):
    case = job['case']
    part = case['part']
    if job['kind'].startswith('?'):
        # parent-side question (not a replay): does the small case show the
        # kind in every one of several iterations, in some, or in none?
        kind = job['kind'][1:]
        it = {'b': _hist_iterations, 'd': _conc_iterations}[part]
        hits = [any(d[0] == kind for d in dis)
                for dis in it(case, STABILITY_RUNS)]
        return {'violates': any(hits), 'all': all(hits)}
    dis = {'a': replay_rep, 'b': replay_hist, 'c': replay_census,
           'd': replay_conc, 'e': replay_args}[part](case)
    out = {'violates': any(d[0] == job['kind'] for d in dis)}
    if not hidden_residue(job['kind']) and part != 'c':
        # (which bytes a build produced when they differ, and which other
        # kinds accompany them, can depend on object addresses: not echoed)
        out['disagreements'] = [[d[0], repr(d[1])[:200], repr(d[2])[:200]]
                                for d in dis if not hidden_residue(d[0])]
    return out


def involves_interrupt(v, **_):
    """The failing input family of the KeyboardInterrupt finding: the
    operation that leaves the context behind is a build whose graph function
    raises a BaseException that is not an Exception."""
    c = v['case']
    if c['part'] == 'b':
        return c['history'][-1] == 'f:intr'
    if c['part'] == 'd':
        return 'f:intr' in (c['scn']['X'], c['scn']['Y'])
    return False


def rates_padded_with_zeros(v, **_):
    """The failing input family of the rates finding: the caller's rates list
    comes back as its old content followed by neutral zeros only."""
    exp, obs = v['expected'], v['observed']
    return (v['case'].get('part') == 'e' and isinstance(exp, list) and
            isinstance(obs, list) and len(obs) > len(exp) and
            obs[:len(exp)] == exp and
            all(x == 0 and not isinstance(x, bool) for x in obs[len(exp):]))


PREDICATES = {'involves_interrupt': involves_interrupt,
              'rates_padded_with_zeros': rates_padded_with_zeros}

STANDALONE_RATES = '''\
import sc3
sc3.init('nrt')
from sc3.synth.synthdef import SynthDef
from sc3.synth.ugens.oscillators import SinOsc
from sc3.synth.ugens.inout import Out

def graph(freq=440, amp=0.1, pan=0):
    Out.ar(0, SinOsc.ar(freq) * amp)

rates = ['ir']
SynthDef('g', graph, rates=rates)
assert rates == ['ir'], rates      # ['ir', 0, 0]: the caller's list was padded
'''


STANDALONE_INTERRUPT = '''\
import sc3
sc3.init('nrt')
from sc3.base.main import main
from sc3.synth.synthdef import SynthDef
from sc3.synth.ugens.oscillators import SinOsc

def graph():
    SinOsc.ar(440)
    raise KeyboardInterrupt()      # e.g. Ctrl-C while the function runs

try:
    SynthDef('g', graph)
except KeyboardInterrupt:
    pass
assert main._current_synthdef is None, main._current_synthdef
assert SinOsc.ar(1)._synthdef is None   # a unit created outside any build
'''


# ---------------------------------------------------------------------------
# parent side
# ---------------------------------------------------------------------------

def _parts():
    """C20_PARTS=a,b,c,d (development aid): run only these parts; a longer
    token selects the bounds whose label contains it.  A partial run is
    recorded as a cap."""
    v = os.environ.get('C20_PARTS')
    return set(v.split(',')) if v else None


def _run_part(ctx, mode, fname, jobs, bound, cands):
    sel = _parts()
    if sel is not None and not (bound[1:2] in sel or any(
            len(x) > 1 and x in bound for x in sel)):
        return
    jobs = list(jobs)
    order = core.shard_order(len(jobs), ctx.seed)
    # maxtasks=1: every shard runs in a fresh worker process
    for res in ctx.map(mode, MODNAME, fname, [jobs[i] for i in order],
                       maxtasks=1):
        cands.merge(res)
        ctx.absorb(res, bound)
    if os.environ.get('C20_TIMING'):
        import time
        print(f'[timing] {time.time() - ctx.t0:7.1f}s after {bound[:40]}',
              flush=True)


def _resolve(ctx, cands):
    """Turn the candidates into violations whose case reproduces in a fresh
    process: small case alone, earliest case alone, earliest case with its
    walk."""
    import sys
    mod = sys.modules[__name__]
    registered = 0
    lost = []
    for kind in sorted(set(cands.small) | set(cands.early)):
        s, e = cands.small[kind], cands.early[kind]
        tries = []
        if s['case']['part'] in ('b', 'd'):
            # results that depend on object addresses do not repeat from one
            # fresh process to the next: ask how stable the small case is and
            # use the several-times-in-a-row form unless it always shows
            q = core._replay_once(mod, {'kind': '?' + kind, 'case': s['case']})
            if q.get('all'):
                tries.append((s, s['case']))
            elif q.get('violates'):
                tries.append((s, dict(s['case'], repeat=REPEAT)))
        else:
            tries.append((s, s['case']))
        if core.canon(e['case']) != core.canon(s['case']):
            tries.append((e, e['case']))
        if e['walk'] is not None:
            tries.append((e, dict(e['case'], walk=e['walk'])))
        chosen = None
        for v, case in tries:
            r = core._replay_once(mod, {'kind': kind, 'case': case})
            if r.get('violates'):
                chosen = (v, case)
                break
        if chosen is None:
            lost.append((kind, e))
            continue
        v, case = chosen
        viol = {'kind': kind, 'case': case, 'expected': v['expected'],
                'observed': v['observed'], 'detail': v['detail'],
                'size': v['size'] + (10 ** 7 if 'walk' in case else 0)}
        if 'interrupt' in kind and 'context-left-set' in kind:
            viol['standalone'] = STANDALONE_INTERRUPT
        if kind == 'caller-rates-changed-by-build':
            viol['standalone'] = STANDALONE_RATES
        ctx.violation(viol)
        registered += 1
    ctx.violation_count += cands.n - registered
    if lost and not registered:
        kind, e = lost[0]
        raise core.HarnessError(
            f'{kind}: seen by a worker but not reproducible in a fresh '
            f'process, not even with its walk: {core.canon(e["case"])[:400]}')
    for kind, e in lost:
        # other kinds of the same run reproduce and are reported; this one
        # depends on something a fresh process does not repeat
        print(f'NOTE property=C20 kind={kind} was seen by a worker but did '
              f'not reproduce in a fresh process: '
              f'{core.canon(e["case"])[:300]}', flush=True)
    ctx.extra['kinds_seen_but_not_reproduced'] = [k for k, _ in lost]


def _pristine_refs(ctx, tagbase):
    """Reference table: each definition is the first thing built in its own
    fresh NRT process (PYTHONHASHSEED=0)."""
    from concurrent.futures import ThreadPoolExecutor
    with ThreadPoolExecutor(min(len(ALL_DEFS), max(2, core.NWORKERS))) as tp:
        # the RT-virtual smoke run makes a library that cannot start in that
        # mode a prompt harness error (a pool would respawn workers for ever)
        smoke = tp.submit(census_run, ['rt', '0', 'fwd'], tagbase, 1,
                          'd:g:s1', 1, 120, True)
        res = list(tp.map(
            lambda k: census_run(['nrt', '0', 'fwd'], tagbase, 1, 'd:' + k, 1,
                                 120, True), ALL_DEFS))
        smoke.result()
    refs = {k: r['d:' + k][:2] for k, r in zip(ALL_DEFS, res)}
    for k in GOOD + SMALL:
        if refs[k][0] != 'ok':
            raise core.HarnessError(f'reference build of {k} fails: {refs[k]}')
    for k in FAIL + FAIL_MORE:
        if refs[k][0] != 'raise':
            raise core.HarnessError(f'failing definition {k} builds: {refs[k]}')
    ctx.extra['reference_definitions'] = len(refs)
    return refs


def _census(ctx, tagbase, slice_of, cands, refs):
    from concurrent.futures import ThreadPoolExecutor
    extra = str(1000 + ctx.seed)
    base_cfg = ['nrt', '0', 'fwd']
    cfgs = [base_cfg]
    for mode in ('nrt', 'rt'):
        for hs in ('0', '1', '2', '3', extra):
            if [mode, hs, 'fwd'] != base_cfg:
                cfgs.append([mode, hs, 'fwd'])
    cfgs.append(['nrt', extra, 'rev'])
    cfgs.append(['rt', '0', 'rev'])
    # hidden residue already proven by the other parts can make a process
    # that builds thousands of definitions arbitrarily slow: then the census
    # is given little time and its absence is a recorded cap, not an error
    proven = any(hidden_residue(k) for k in cands.small)
    timeout = 45 if proven else 600

    def one(cfg):
        try:
            return census_run(cfg, tagbase, slice_of, timeout=timeout)
        except subprocess.TimeoutExpired:
            return None
    with ThreadPoolExecutor(min(len(cfgs), max(2, core.NWORKERS))) as tp:
        results = list(tp.map(one, cfgs))
    if any(r is None for r in results):
        if not proven:
            raise core.HarnessError('a census subprocess timed out')
        ctx.caps.append('census not completed: a subprocess timed out after '
                        'hidden residue had been proven by parts a/b/d')
        return
    base = results[0]
    items = len(base)
    for k in ALL_DEFS + CENSUS_OPS:
        if build_ref.ref_key(k) is None:
            continue            # builds nothing (touchsys)
        a, b = refs[build_ref.ref_key(k)], base['d:' + k][:2]
        if a[0] != b[0] or (a[0] == 'ok' and a[1] != b[1]):
            kind = 'census-differs-from-pristine-reference'
            case = {'part': 'c', 'item': 'd:' + k, 'a': base_cfg,
                    'b': base_cfg, 'tagbase': tagbase, 'slice_of': slice_of,
                    'repeat': 8, 'kind': kind, 'ref': a}
            cands.add(kind, case, None, 0, a, b, f'definition {k} built '
                      f'among the census items under {base_cfg}', len(k))
    by_cfg = {tuple(c): r for c, r in zip(cfgs, results)}
    for cfg, got in zip(cfgs[1:], results[1:]):
        # partner = the configuration that differs in exactly one coordinate
        mode, hs, order = cfg
        if order == 'rev':
            partner = [mode, hs, 'fwd']
        elif hs != '0':
            partner = [mode, '0', 'fwd']
        else:
            partner = base_cfg
        pres = by_cfg[tuple(partner)]
        for kind, iid, a, b in census_compare(partner, pres, cfg, got):
            case = {'part': 'c', 'item': iid, 'a': partner, 'b': cfg,
                    'tagbase': tagbase, 'slice_of': slice_of,
                    'repeat': 8, 'kind': kind}
            size = (0 if iid.startswith('d:') else 10 ** 6) + len(iid) * 100
            cands.add(kind, case, None, 0, a, b,
                      f'item {iid} under {partner} vs {cfg}', size)
        ctx.evaluations += len(got)
        ctx.traces += len(got)
        ctx.transitions += len(got)
    ctx.evaluations += items
    ctx.traces += items
    ctx.transitions += items
    ctx.states += items
    for iid, o in base.items():
        ctx.outcomes.add(core.digest(['census', o]))
    ctx.bounds['(c) census'] = {
        'items': items, 'configurations': [' '.join(c) for c in cfgs],
        'definitions': len(ALL_DEFS),
        'operations': len(CENSUS_OPS),
        'programs': items - len(ALL_DEFS) - len(CENSUS_OPS),
        'evaluations': items * len(cfgs)}
    ctx.extra['census_configurations'] = len(cfgs)
    ctx.extra['census_items'] = items


def _prefixes(nops, depth, shards):
    plen = min(2, depth)
    pres = [list(p) for p in itertools.product(range(nops), repeat=plen)]
    return [pres[i::shards] for i in range(shards) if pres[i::shards]]


def main(ctx):
    quick = ctx.tier == 'quick'
    ctx.rule = (
        'Distinct = different program (a), different operation history (b), '
        'different (item, configuration) pair (c), different choice sequence '
        '(d), different (rates list, build sequence) pair (e). Non-trivial '
        '(e) = the sequence has two different functions or a failing one; '
        '(a) the program reaches an optimiser rewrite, a '
        'constructor shortcut, dead code or a shared operand (decided on the '
        'AST) or runs over channel lists; (b) the last step of the history '
        'follows a failing build, a description read-back, a registration / '
        'storage route or a different good build; (d) the schedule '
        'contains at least one preemption. Census items are counted as '
        'evaluations only.')
    ctx.assumptions += [
        'reference table: every definition built once, first thing, in a '
        'pristine NRT process with PYTHONHASHSEED=0; all other processes, '
        'modes, seeds, histories and schedules are compared with it',
        'exception class of a failing build and the result of '
        'SynthDesc.new_from / SynthDef.add / store / SynthDescLib.read / '
        'SynthDesc.read are not decided by the statement (accepted); the '
        'definition built inside such an operation must still equal the '
        'reference, also when written again afterwards',
        '(e): a build may not change the content of the rates / prepend '
        'lists and variants / metadata dicts it is given (pure function of '
        'its arguments) and must equal the build with fresh equal arguments',
        'g:sh* / f:sh share one set of function and argument objects per '
        'process (rates and prepend lists, variants and metadata dicts, a '
        'closed-over Env): the bytes must not change (what a build does '
        'to the content of such objects is judged by part (e))',
        '(d): interleavings at lock operations, thread start/exit and at '
        'every read/write of main._current_synthdef (data descriptor on the '
        'metaclass, installed only during the executions); a bare unit '
        'created concurrently with a build is outside the statement',
        'worker processes are fresh per shard; a disagreement that needs '
        'the earlier cases of its shard is replayed with that walk']
    tagbase = 100 + 32 * (ctx.seed % 4)
    cands = Cands()

    refs = _pristine_refs(ctx, tagbase)

    # (a) repetition
    builds = 3
    jobs = [{'space': 's1', 'shard': i, 'of': 8, 'tagbase': tagbase,
             'builds': builds} for i in range(8)]
    _run_part(ctx, 'nrt', 'work_rep', jobs,
              f'(a) 1 statement, full pool, {builds} builds each', cands)
    # multichannel expansion: every statement becomes one unit per lane,
    # shared leaves get several consumers that are ready at the same time
    jobs = [{'space': 'l1', 'shard': i, 'of': 4, 'tagbase': tagbase,
             'builds': builds, 'lanes': ln}
            for ln in LANE_MAPS for i in range(4)]
    _run_part(ctx, 'nrt', 'work_rep', jobs,
              f'(a) 1 statement over channel lists ({len(LANE_MAPS)} lane '
              f'maps), {builds} builds each', cands)
    # definitions with implicit helper units, options, shared objects: each
    # built repeatedly; a job runs its definitions one after the other in
    # one process, forwards in one job and backwards in the other
    jobs = [{'space': 'defs', 'keys': REP_DEFS, 'builds': builds},
            {'space': 'defs', 'keys': REP_DEFS[::-1], 'builds': builds}]
    _run_part(ctx, 'nrt', 'work_rep', jobs,
              f'(a) {len(REP_DEFS)} definitions of the alphabets, {builds} '
              'builds each, in both orders', cands)
    if quick:
        # 236 first statements, dealt to 8 shards; slice = every k-th round
        k = 30
        jobs = [{'space': 's2', 'shard': i, 'of': 8, 'tagbase': tagbase,
                 'builds': builds, 'slice_of': k,
                 'slice_ix': core.pick_slice(ctx.seed, k)}
                for i in range(8)]
        _run_part(ctx, 'nrt', 'work_rep', jobs,
                  f'(a) 2 statements, small pool: 1/{k} slice chosen by '
                  'seed (not exhaustive)', cands)
        ctx.extra['sampled_slice'] = f'(a) 2 statements: 1/{k} of the prefixes'
    else:
        jobs = [{'space': 's2', 'shard': i, 'of': 64, 'tagbase': tagbase,
                 'builds': builds} for i in range(64)]
        _run_part(ctx, 'nrt', 'work_rep', jobs,
                  '(a) 2 statements, small pool', cands)

    # (b) histories
    ops = GOOD + FAIL + DESC + ['bare']
    plans = [(ops, 4), (OPS2, 3), (OPS3, 3), (OPS4, 3)]
    if not quick:
        plans.append((ops + FAIL_MORE + SMALL, 3))
        plans.append((OPS2, 4))
        plans.append((OPS3, 4))
        plans.append((OPS4, 4))
        plans.append((sorted(set(ops + OPS2 + OPS3 + OPS4)), 3))
        plans.append((['g:p0', 'g:ctl', 'f:fn', 'f:rate', 'f:name', 'f:intr',
                       'desc:g:ctl', 'desc:g:ctl:bad', 'bare'], 5))
    for opl, depth in plans:
        hrefs = {k: refs[k] for k in ALL_DEFS}
        jobs = [{'ops': opl, 'depth': depth, 'prefixes': pres, 'refs': hrefs}
                for pres in _prefixes(len(opl), depth, 32)]
        _run_part(ctx, 'nrt', 'work_hist', jobs,
                  f'(b) histories of <= {depth} operations over '
                  f'{len(opl)} operations', cands)

    # (e) caller-owned argument objects shared by the builds of a sequence
    maxlen = 3
    jobs = [{'shard': i, 'of': 8, 'maxlen': maxlen} for i in range(8)]
    _run_part(ctx, 'nrt', 'work_args', jobs,
              f'(e) sequences of <= {maxlen} builds over {len(ARG_FUNCS)} '
              f'functions x {len(ARG_RATES)} shared rates lists (+ shared '
              'prepend, variants, metadata)', cands)

    # (d) two threads: a small alphabet (few context accesses per build)
    # at the full preemption bound, the rich alphabet one preemption lower
    small = SMALL + ['f:rate', 'f:name', 'f:intr', 'desc:g:s1',
                     'desc:g:s1:bad', 'add:g:s1']
    rich = GOOD + ['f:fn', 'f:nan', 'desc:g:ctl', 'desc:g:ctl:bad',
                   'g:sh2']
    if not quick:
        small = small + ['f:nan', 'f:sig', 'desc:g:s2:nokeep', 'deco:g:s1',
                         'f:type']
        rich = rich + ['f:wrap', 'f:intr', 'g:sh1', 'f:sh', 'g:zall',
                       'f:zero']
    max_pre = 2 if quick else 3
    nscn = 0
    for label, opl, mp in (('small', small, max_pre),
                           ('rich', rich, max_pre - 1)):
        jobs = [{'scn': {'X': a, 'Y': b}, 'max_pre': mp,
                 'refs': {k: refs[k] for k in ALL_DEFS}}
                for i, a in enumerate(opl) for b in opl[i:]]
        nscn += len(jobs)
        _run_part(ctx, 'rt', 'work_conc', jobs,
                  f'(d) {len(jobs)} two-thread scenarios over the {label} '
                  f'alphabet ({len(opl)} operations), <= {mp} preemptions',
                  cands)
    ctx.extra['scenarios'] = nscn
    ctx.extra['operations'] = sorted(set(ops + OPS2 + OPS3 + OPS4))
    ctx.extra['exhaustive_bounds'] = [b for b in ctx.bounds
                                      if 'not exhaustive' not in b]

    # (c) census
    if _parts() is None or 'c' in _parts():
        _census(ctx, tagbase, 256 if quick else 32, cands, refs)
    if _parts() is not None:
        ctx.caps.append(f'partial run: C20_PARTS={os.environ["C20_PARTS"]}')
    _resolve(ctx, cands)
