"""C08 - real-time clocks wake every task once, on time, in order, and survive
errors.  E3: every schedule (preemption / lateness bounded) of small driver
programs over the real SystemClock / TempoClock / AppClock threads."""

import json

from mc import core
from mc.engines import progenum

MODE = 'rt'
MODNAME = 'mc.checks.c08'
INF = float('inf')


# ---------------------------------------------------------------------------
# Scenario programs (plain data, see mc/rtprog.py)
# ---------------------------------------------------------------------------

def clocks_for(c):
    d = {'s': ['system']}
    if c == 't':
        d['t'] = ['tempo', 2.0]
    if c == 'a':
        d['a'] = ['app']
    return d


def grammar_scenarios():
    """Systematic family: every program in which the main thread and a
    second thread X each issue up to two calls from a small alphabet against
    one clock (X optionally starting 0.25 s later).  Tasks are distinct
    functions; one of them re-schedules itself once."""
    out = []
    for c in ('s', 't', 'a'):
        alpha = [['sched', c, 0], ['sched', c, 0.5], ['sched', c, 1.0],
                 ['clear', c]]
        if c != 'a':
            alpha.append(['sched_abs', c, 1.0])   # AppClock has none
        if c == 't':
            alpha.append(['tempo', 't', 4.0])
        seqs = [[a] for a in alpha] + [[a, b] for a in alpha for b in alpha]
        for ms in seqs:
            for xs in seqs:
                for lead in (0, 0.25):
                    nsched = sum(1 for o in ms + xs if o[0].startswith('sch'))
                    if nsched == 0:
                        continue
                    k = 0
                    funcs = {}
                    actors = {'main': [], 'X': []}
                    if lead:
                        actors['X'].append(['sleep', lead])
                    for who, ops in (('main', ms), ('X', xs)):
                        for o in ops:
                            if o[0].startswith('sch'):
                                fid = f'f{k}'
                                funcs[fid] = {'returns': [0.5, None]} \
                                    if k == 0 else {}
                                k += 1
                                actors[who].append(o + [fid])
                            else:
                                actors[who].append(list(o))
                    out.append(('G', {'clocks': clocks_for(c),
                                      'funcs': funcs, 'actors': actors,
                                      'horizon': 5.0}))
    return out


def scenarios(tier):
    out = []
    thorough = tier == 'thorough'
    for c in ('s', 't', 'a'):
        cl = clocks_for(c)
        # S1/S3: two threads schedule one task each (equal times included)
        for d1 in (0, 0.5, 1.0):
            for d2 in (0, 0.5, 1.0):
                out.append(('S1', {
                    'clocks': cl, 'funcs': {'f0': {}, 'f1': {}},
                    'actors': {'main': [['sched', c, d1, 'f0']],
                               'X': [['sched', c, d2, 'f1']]},
                    'horizon': 4.0}))
        # S2: head change while the clock sleeps towards a later deadline
        for w in (0.25, 0.5):
            for d2 in (0, 0.25):
                out.append(('S2', {
                    'clocks': cl, 'funcs': {'f0': {}, 'f1': {}},
                    'actors': {'main': [['sched', c, 2.0, 'f0']],
                               'X': [['sleep', w], ['sched', c, d2, 'f1']]},
                    'horizon': 5.0}))
        # S4: numeric return re-schedules; a colliding task from thread X
        for d2 in (0.5, 1.0):
            out.append(('S4', {
                'clocks': cl,
                'funcs': {'f0': {'returns': [0.5, 0.5, None]}, 'f1': {}},
                'actors': {'main': [['sched', c, 0.5, 'f0']],
                           'X': [['sched', c, d2, 'f1']]},
                'horizon': 5.0}))
        # S4b: the numeric return value is an instance of a float / int
        # subclass (numpy scalar, IntEnum member ...): still a number
        out.append(('S4b', {
            'clocks': cl,
            'funcs': {'f0': {'returns': [0.5, 1, None], 'numtype': 'sub'},
                      'f1': {}},
            'actors': {'main': [['sched', c, 0.5, 'f0']],
                       'X': [['sched', c, 1.0, 'f1']]},
            'horizon': 6.0}))
        # S5: a raising task between two good ones (function / bare awakeable)
        for kind in ('func', 'awakeable'):
            for d in (0.5, 1.0):
                out.append(('S5', {
                    'clocks': cl,
                    'funcs': {'f0': {'kind': kind},
                              'f1': {'raises': [0], 'kind': kind},
                              'f2': {'returns': [0.5, None], 'kind': kind}},
                    'actors': {'main': [['sched', c, 0.5, 'f0'],
                                        ['sched', c, 0.5, 'f1'],
                                        ['sched', c, d, 'f2']],
                               'X': [['sleep', 2.0], ['sched', c, 0.5, 'f0']]},
                    'horizon': 5.0}))
        # S6: clear / stop with tasks pending
        for w in (0.25, 0.75):
            for op in ('clear', 'stopclock'):
                if op == 'stopclock' and c != 't' and not thorough:
                    continue
                out.append(('S6', {
                    'clocks': cl, 'funcs': {'f0': {}, 'f1': {}, 'f2': {}},
                    'actors': {'main': [['sched', c, 0.5, 'f0'],
                                        ['sched', c, 1.0, 'f1']],
                               'X': [['sleep', w], [op, c]]},
                    'horizon': 4.0}))
        # infinite delay: never awakened
        out.append(('Sinf', {
            'clocks': cl, 'funcs': {'f0': {}, 'f1': {}},
            'actors': {'main': [['sched', c, INF, 'f0'],
                                ['sched', c, 0.5, 'f1']]},
            'horizon': 3.0}))
    # S7: TempoClock tempo / beats changed while its thread sleeps
    for v in (4.0, 1.0):
        for w in (0.25, 0.5):
            out.append(('S7', {
                'clocks': clocks_for('t'), 'funcs': {'f0': {}, 'f1': {}},
                'actors': {'main': [['sched', 't', 2.0, 'f0'],
                                    ['sched', 't', 4.0, 'f1']],
                           'X': [['sleep', w], ['tempo', 't', v]]},
                'horizon': 6.0}))
    for b in (1.5, 0.0):
        out.append(('S7b', {
            'clocks': clocks_for('t'), 'funcs': {'f0': {}},
            'actors': {'main': [['sched', 't', 2.0, 'f0']],
                       'X': [['sleep', 0.5], ['beats', 't', b]]},
            'horizon': 6.0}))
    # S7c: tempo / beats changed from a task running on another clock's
    # thread (SystemClock or AppClock routine) while the TempoClock sleeps
    for oc in ('s', 'a'):
        for what, v in (('tempo', 8.0), ('tempo', 1.0), ('beats', 1.5)):
            cl = clocks_for('t')
            if oc == 'a':
                cl['a'] = ['app']
            out.append(('S7c', {
                'clocks': cl, 'funcs': {'f0': {}},
                'routines': {'r0': [['yield', 0.25], [what, 't', v]]},
                'actors': {'main': [['sched', 't', 2.0, 'f0'],
                                    ['play', 'r0', oc]]},
                'horizon': 6.0}))
    # S10: a plain thread schedules while a clock thread is inside a
    # routine's awake call (the routine itself takes the lock again, which
    # gives a preemption point inside the awake)
    for c in ('s', 't'):
        for d in (0.5, 0.25):
            out.append(('S10', {
                'clocks': clocks_for(c), 'funcs': {'f0': {}, 'f1': {}},
                'routines': {'r0': [['yield', 0.5],
                                    ['sched', c, 0.25, 'f0'], ['log'],
                                    ['yield', 0.5]]},
                'actors': {'main': [['play', 'r0', c, 0]],
                           'X': [['sleep', 0.25 if c == 't' else 0.5],
                                 ['sched', c, d, 'f1']]},
                'horizon': 5.0}))
    # S11: the last task that ran (on any clock) raised; a plain thread then
    # schedules on the same or another clock: the error may not leave the
    # library's notion of the present frozen at the faulty task's time
    for c1 in ('s', 't', 'a'):
        for c2 in ('s', 't', 'a'):
            for kind in ('func', 'awakeable'):
                cl = dict(clocks_for(c1))
                cl.update(clocks_for(c2))
                out.append(('S11', {
                    'clocks': cl,
                    'funcs': {'f0': {'raises': [0], 'kind': kind},
                              'f1': {}},
                    'actors': {'main': [['sched', c1, 0.25, 'f0'],
                                        ['sleep', 1.0],
                                        ['sched', c2, 0.5, 'f1']]},
                    'horizon': 4.0}))
    # S9: a task on one clock schedules onto another clock
    out.append(('S9', {
        'clocks': {'s': ['system'], 't': ['tempo', 2.0]},
        'funcs': {'f0': {}, 'f1': {}},
        'routines': {'r0': [['yield', 1.0], ['sched', 's', 0.25, 'f0'],
                            ['yield', 1.0]]},
        'actors': {'main': [['play', 'r0', 't'], ['sched', 's', 1.0, 'f1']]},
        'horizon': 4.0}))
    if thorough:
        for c in ('s', 't'):
            out.append(('S3x', {
                'clocks': clocks_for(c),
                'funcs': {'f0': {}, 'f1': {}, 'f2': {}},
                'actors': {'main': [['sched', c, 0.5, 'f0']],
                           'X': [['sched', c, 0.5, 'f1']],
                           'Y': [['sched', c, 0.5, 'f2']]},
                'horizon': 3.0}))
    return out


# ---------------------------------------------------------------------------
# Oracle over one execution trace
# ---------------------------------------------------------------------------

class TempoRef:
    """Affine beat/second map of a TempoClock created at elapsed time 0."""

    def __init__(self, tempo):
        self.tempo = tempo
        self.base_s = 0.0
        self.base_b = 0.0

    def b2s(self, b):
        return (b - self.base_b) / self.tempo + self.base_s

    def s2b(self, s):
        return (s - self.base_s) * self.tempo + self.base_b

    def set_tempo(self, v, at):
        b = self.s2b(at)
        self.base_s, self.base_b, self.tempo = at, b, v

    def set_beats(self, v, at):
        self.base_s, self.base_b = at, v


def check_trace(prog, res):
    dis = []

    def bad(kind, exp, obs, detail=''):
        dis.append((kind, exp, obs, detail))

    if res['status'] != 'ok':
        bad(res['status'], 'the execution completes', res['detail'])
        return dis
    for name, exc in res['dead']:
        bad('clock-thread-died', 'clock threads survive task errors',
            [name, exc])
    for what, thread in res['lockfree']:
        bad('queue-access-without-lock', 'main lock held', [what, thread])
    for kind, d in res['finish_problems']:
        bad(kind, 'clocks stop', d)
    for c, alive in res['alive'].items():
        if res['dead']:
            break
        stopped = any(e[0] == 'stop-end' and _q(prog, e[2]) == c
                      for e in res['trace'])
        if not alive and not stopped:
            bad('clock-not-running-at-horizon', True, False, c)
    if dis:
        return dis
    funcs = dict(prog.get('funcs', {}))
    for rid, stmts in prog.get('routines', {}).items():
        rets = []
        for st in stmts:
            if st[0] == 'yield':
                rets.append(st[1])
            elif st[0] in ('yieldv', 'wait'):
                rets.append(None)
            elif st[0] == 'raise':
                break
        funcs[rid] = {'returns': rets + [None]}
    clocks = prog.get('clocks', {})
    tref = {cid: TempoRef(spec[1]) for cid, spec in clocks.items()
            if spec[0] == 'tempo'}
    qkind = {}
    for cid, spec in clocks.items():
        qkind[_q(prog, cid)] = spec[0]
    pending = {}      # queue -> {name: [prio, seq, add_phys]}
    wakes = {}        # name -> count
    last_wake = {}    # name -> (queue, prio, phys)
    expect_add = {}   # name -> (queue, expected prio) after a numeric return
    cleared = {}      # queue -> names snapshot at clear-begin
    horizon = prog.get('horizon', 4.0)
    # a tempo / beats change made from a plain thread is not atomic with
    # respect to the clock thread: what happens on that clock at the very
    # instant of the change (same virtual time) is not decided by the
    # statement - timing clauses are skipped for that instant only
    racy = {}
    for e in res['trace']:
        if e[0] == 'tempo-set' and e[1] in prog.get('actors', {}):
            racy.setdefault(_q(prog, e[3]), set()).add(e[5])
    # if a task of that clock really was awakened at such an instant, the
    # base of the clock's map after the change depends on the interleaving
    # inside the setter: the reference map is not trusted from then on
    tainted = {}
    for e in res['trace']:
        if e[0] in ('wake', 'res'):
            q0 = _q(prog, e[7])
            if e[3] in racy.get(q0, ()):
                tainted[q0] = min(tainted.get(q0, e[3]), e[3])

    class _Racy:
        def __init__(self, q):
            self.q = q

        def __contains__(self, phys):
            return phys in racy.get(self.q, ()) or \
                (self.q in tainted and phys >= tainted[self.q])
    racy_view = {q0: _Racy(q0) for q0 in set(racy) | set(tainted)}
    calls = {}        # task name -> (queue, expected prio) of a pending call
    actors = set(prog.get('actors', {}))
    for e in res['trace']:
        k = e[0]
        if k == 'sched-call' and e[1] in actors:
            _, who, cid, delta, fid, t0 = e
            q0 = _q(prog, cid)
            if isinstance(delta, list):
                calls[fid] = (q0, delta[1])
            elif qkind[q0] == 'tempo':
                calls[fid] = (q0, tref[q0].s2b(t0) + delta)
            else:
                calls[fid] = (q0, t0 + delta)
        if k == 'add':
            _, q, prio, name, seq, phys = e
            pending.setdefault(q, {})[name] = [prio, seq, phys, False]
            want = calls.pop(name, None)
            if phys in racy_view.get(q, ()):
                want = None
            if want is not None and prio != float('inf') and \
                    (want[0] != q or want[1] != prio):
                bad('scheduled-time-wrong', list(want), [q, prio],
                    f'{name}: sched(delta) from a plain thread must be '
                    'relative to the physical present of the call')
            exp = expect_add.pop(name, None)
            if exp is not None:
                eq, eprio = exp
                if eq != q or (eprio is not None and eprio != prio):
                    bad('reschedule-time-wrong', [eq, eprio], [q, prio],
                        f'{name}: numeric return must re-schedule relative '
                        'to the scheduled time (AppClock: to the present)')
        elif k in ('wake', 'res'):
            _, name, n, phys, logical, beats, late, cname = e
            q = _q(prog, cname)
            if name in expect_add:
                bad('reschedule-missing', expect_add[name], None, name)
                expect_add.pop(name)
            pq = pending.get(q, {})
            if name not in pq:
                bad('wake-without-pending-scheduling',
                    f'{name} not pending on {q}', e,
                    'awakened twice, after clear/stop, or on a wrong clock')
                continue
            prio, seq, addphys, _opt = pq.pop(name)
            for other, (p2, s2, _, opt2) in pq.items():
                if opt2:
                    continue    # may have been removed by a racing clear()
                if (p2, s2) < (prio, seq):
                    bad('wake-out-of-order', [other, p2, s2],
                        [name, prio, seq],
                        'an earlier (time, scheduling order) task was '
                        'pending')
            kind = qkind[q]
            if kind == 'tempo':
                due = tref[q].b2s(prio)
            else:
                due = prio
            timing = phys not in racy_view.get(q, ()) and \
                addphys not in racy_view.get(q, ())
            if timing and phys < due:
                bad('early-wake', f'>= {due}', phys, name)
            limit = max(due, addphys) + late
            if timing and phys > limit:
                bad('late-wake', f'<= {limit}', phys,
                    f'{name} due {due}, scheduled at {addphys}, injected '
                    f'lateness {late}: waited for an unrelated deadline')
            if kind == 'system' and logical != prio:
                bad('logical-time-wrong', prio, logical, name)
            if kind == 'tempo' and beats != prio and timing:
                bad('logical-beats-wrong', prio, beats, name)
            wakes[name] = wakes.get(name, 0) + 1
            spec = funcs.get(name, {})
            rets = spec.get('returns', [None])
            r = rets[n] if n < len(rets) else None
            if n in spec.get('raises', []):
                r = None
            if isinstance(r, (int, float)) and not isinstance(r, bool):
                expect_add[name] = (q, (phys if kind == 'app' else prio) + r)
                if not timing:
                    expect_add[name] = (q, None)
        elif k == 'clear-begin':
            q = _q(prog, e[2])
            cleared[q] = {n: v[1] for n, v in pending.get(q, {}).items()}
            # the removal takes effect somewhere between begin and end
            for v in pending.get(q, {}).values():
                v[3] = True
        elif k in ('clear-end', 'stop-end'):
            q = _q(prog, e[2])
            snap = cleared.pop(q, None)
            pq = pending.get(q, {})
            if k == 'stop-end':
                snap = {n: v[1] for n, v in pq.items()}
            for n, seq in (snap or {}).items():
                if n in pq and pq[n][1] == seq:
                    del pq[n]
            if k == 'clear-end':
                # scheduled while the clear() call was in progress: the
                # statement does not say which of the two wins
                for n, v in pq.items():
                    if n not in (snap or {}) or (snap or {})[n] != v[1]:
                        v[3] = True
        elif k == 'tempo-set':
            _, who, what, cid, v, phys, t = e
            if what == 'tempo':
                tref[cid].set_tempo(v, t)
            else:
                tref[cid].set_beats(v, t)
        elif k == 'raises':
            bad('api-call-raises', 'no exception', e[1:], '')
    for name, exp in expect_add.items():
        bad('reschedule-missing', exp, None, name)
    # missed wake-ups: still pending in the model though due before horizon
    late = res['late_total']
    for q, pq in pending.items():
        for name, (prio, seq, addphys, opt) in pq.items():
            if opt:
                continue
            due = tref[q].b2s(prio) if qkind[q] == 'tempo' else prio
            if max(due, addphys) + late < horizon:
                bad('missed-wake', f'{name} awakened by '
                    f'{max(due, addphys) + late}', 'still pending at '
                    f'{horizon}', q)
    # the real queues must hold exactly what the model says is pending
    stopped_q = {_q(prog, e[2]) for e in res['trace'] if e[0] == 'stop-end'}
    for q, lst in res['pending'].items():
        if q in stopped_q:
            # a stopped clock fires nothing any more (checked through the
            # wake events); what its dead queue still holds is not observable
            continue
        must = sorted(n for n, v in pending.get(q, {}).items() if not v[3])
        may = sorted(pending.get(q, {}))
        real = sorted(n for _, n in lst)
        if not (set(must) <= set(real) <= set(may)):
            bad('pending-set-differs', {'must': must, 'may': may}, real, q)
    return dis


def _q(prog, cid):
    """queue name of a clock id: 'system', 'app' or the tempo clock id."""
    spec = prog.get('clocks', {}).get(cid)
    if spec is None:
        return cid
    return {'system': 'system', 'app': 'app'}.get(spec[0], cid)


# ---------------------------------------------------------------------------
# Worker side
# ---------------------------------------------------------------------------

def run_case(case):
    from mc import rtprog
    prog = case['prog']
    pts, ch, res = rtprog.run_rt(prog, case['choices'],
                                 lateness_menu=case.get('menu'))
    return pts, ch, res


def work(job):
    from mc import rtprog
    from mc.engines import schedx
    acc = progenum.Acc(max_samples=2)
    prog = job['prog']
    name = job['name']
    npts = [0]

    def run(prefix):
        return rtprog.run_rt(prog, prefix)

    def on_result(choices, points, res):
        from mc.engines.schedx import cost_of
        pre, late = cost_of(points, choices)
        case = {'name': name, 'prog': prog, 'choices': list(choices)}
        dis = check_trace_full(prog, res)
        for kind, exp, obs, detail in dis:
            acc.violation(kind, case, exp, obs, detail,
                          size=(pre + late) * 100000 + len(choices) * 100 +
                          len(core.canon(prog)) // 10)
        wake_order = [[e[1], e[3]] for e in res['trace']
                      if e[0] in ('wake', 'res')]
        nontrivial = (pre + late) > 0 or _same_instant(res)
        acc.case(case, nontrivial, wake_order, steps=res['steps'])
        npts[0] = max(npts[0], len(points))
        acc.count('scheduling_points', len(points))
        if res['status'] != 'ok':
            # a dead-/live-locked execution leaves library threads behind:
            # the violation is recorded, do not explore further in this
            # process (each job runs in its own process)
            return 'stop'

    r = schedx.explore(run, job['max_pre'], job['max_late'], on_result,
                       max_exec=job.get('max_exec'))
    acc.count('executions', r['executions'])
    if r['capped']:
        acc.extra['capped_scenarios'] = [name]
    return acc.result()


def work_batch(job):
    """Several small scenario jobs in one process."""
    total = None
    for j in job['jobs']:
        r = work(j)
        if total is None:
            total = r
        else:
            for k in ('ev', 'st', 'tr', 'tv', 'nt', 'nviol'):
                total[k] += r.get(k, 0)
            total['out'] = sorted(set(total['out']) | set(r['out']))
            total['samples'] = (total['samples'] + r['samples'])[:3]
            total['viol'] += r['viol']
            for k, v in r.get('extra', {}).items():
                if isinstance(v, (int, float)):
                    total['extra'][k] = total['extra'].get(k, 0) + v
        if any(v['kind'] in ('deadlock', 'livelock') for v in r['viol']):
            break
    return total or progenum.Acc().result()


def _same_instant(res):
    seen = {}
    for e in res['trace']:
        if e[0] == 'add':
            key = (e[1], e[2])
            if key in seen:
                return True
            seen[key] = 1
    return False


def check_trace_full(prog, res):
    return check_trace(prog, res)


def replay(job):
    case = job['case']
    pts, ch, res = run_case(case)
    dis = check_trace_full(case['prog'], res)
    return {'violates': any(d[0] == job['kind'] for d in dis),
            'disagreements': [[d[0], repr(d[1])[:300], repr(d[2])[:300]]
                              for d in dis],
            'choices': ch,
            'trace': res['trace'], 'dead': res['dead'],
            'status': res['status']}


def main(ctx):
    ctx.rule = (
        'E3: for each scenario program (2-3 threads issuing sched/clear/stop/'
        'tempo calls against the real clock threads) every schedule with at '
        'most P preemptions and L lateness deviations (menu on time / +2^-10 '
        '/ +0.75 s at every timed wait) is executed under the cooperative '
        'scheduler with virtual time; the trace is checked against the '
        'exactly-once / not-early / not-late / ordered / survives-errors / '
        'clear-cancels oracle. Distinct = different choice sequence. '
        'Non-trivial = at least one deviation, or two insertions with the '
        'same due time on one clock.')
    ctx.assumptions += [
        'interleavings at synchronisation operations only (lock release, '
        'blocking, thread start/exit, timed-wait expiry); unsynchronised '
        'accesses are covered only by the lockset monitor on the clock '
        'queues',
        'virtual time: executing code takes no time; a timed wait fires at '
        'its deadline plus the chosen lateness',
        'clock threads re-created per execution by a mirror of the '
        "library's init_func (mc/seams.py)"]
    if ctx.tier == 'quick':
        bounds = [(2, 1)]
    else:
        bounds = [(3, 2)]
    scs = scenarios(ctx.tier)
    for max_pre, max_late in bounds:
        jobs = [{'name': n, 'prog': p, 'max_pre': max_pre,
                 'max_late': max_late} for n, p in scs]
        progenum.run(ctx, MODNAME, 'work', jobs, mode='rt', maxtasks=1,
                     bound=f'<= {max_pre} preemptions, <= {max_late} '
                           'lateness deviations')
    # systematic grammar family: thorough = all programs under (1, 1);
    # quick = a seed-selected 1/16 slice under (1, 0)
    gs = grammar_scenarios()
    if ctx.tier == 'quick':
        k = core.pick_slice(ctx.seed, 16)
        part = gs[k::16]
        gb = (1, 0)
        label = (f'grammar family, 1/16 slice chosen by seed (not '
                 f'exhaustive), <= 1 preemption')
    else:
        part = gs
        gb = (1, 1)
        label = 'grammar family (all programs), <= 1 preemption, <= 1 late'
    jobs = [{'name': n, 'prog': p, 'max_pre': gb[0], 'max_late': gb[1]}
            for n, p in part]
    progenum.run(ctx, MODNAME, 'work_batch',
                 [{'jobs': jobs[i::64]} for i in range(64) if jobs[i::64]],
                 mode='rt', maxtasks=1, bound=label)
    ctx.extra['grammar_programs'] = len(part)
    ctx.extra['scenarios'] = len(scs)
    ctx.extra['bounds_completed'] = [list(b) for b in bounds]
