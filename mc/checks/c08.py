"""C08 - real-time clocks wake every task once, on time, in order, and survive
errors.  E3: every schedule (preemption / lateness bounded) of small driver
programs over the real SystemClock / TempoClock / AppClock threads.

Scenario sets: scenarios() = the sharp scenarios S1-S11 + audit_scenarios()
(S8-S20, Sinf2); grammar_scenarios() and grammar2_scenarios() = two systematic
program families (quick: seed-selected slices).  The interpreter of the
programs is mc/rtprog.py extended by _run2_class() below."""

import json
import re

from mc import core
from mc.engines import progenum

MODE = 'rt'
MODNAME = 'mc.checks.c08'
INF = float('inf')


# ---------------------------------------------------------------------------
# Scenario programs (plain data, see mc/rtprog.py)
# ---------------------------------------------------------------------------

def clocks_for(c):
    d = {'s': ['system']}
    if c == 't':
        d['t'] = ['tempo', 2.0]
    if c == 'a':
        d['a'] = ['app']
    return d


def grammar_scenarios():
    """Systematic family: every program in which the main thread and a
    second thread X each issue up to two calls from a small alphabet against
    one clock (X optionally starting 0.25 s later).  Tasks are distinct
    functions; one of them re-schedules itself once."""
    out = []
    for c in ('s', 't', 'a'):
        alpha = [['sched', c, 0], ['sched', c, 0.5], ['sched', c, 1.0],
                 ['clear', c]]
        if c != 'a':
            alpha.append(['sched_abs', c, 1.0])   # AppClock has none
        if c == 't':
            alpha.append(['tempo', 't', 4.0])
        seqs = [[a] for a in alpha] + [[a, b] for a in alpha for b in alpha]
        for ms in seqs:
            for xs in seqs:
                for lead in (0, 0.25):
                    nsched = sum(1 for o in ms + xs if o[0].startswith('sch'))
                    if nsched == 0:
                        continue
                    k = 0
                    funcs = {}
                    actors = {'main': [], 'X': []}
                    if lead:
                        actors['X'].append(['sleep', lead])
                    for who, ops in (('main', ms), ('X', xs)):
                        for o in ops:
                            if o[0].startswith('sch'):
                                fid = f'f{k}'
                                funcs[fid] = {'returns': [0.5, None]} \
                                    if k == 0 else {}
                                k += 1
                                actors[who].append(o + [fid])
                            else:
                                actors[who].append(list(o))
                    out.append(('G', {'clocks': clocks_for(c),
                                      'funcs': funcs, 'actors': actors,
                                      'horizon': 5.0}))
    return out


def scenarios(tier):
    out = []
    thorough = tier == 'thorough'
    for c in ('s', 't', 'a'):
        cl = clocks_for(c)
        # S1/S3: two threads schedule one task each (equal times included)
        for d1 in (0, 0.5, 1.0):
            for d2 in (0, 0.5, 1.0):
                out.append(('S1', {
                    'clocks': cl, 'funcs': {'f0': {}, 'f1': {}},
                    'actors': {'main': [['sched', c, d1, 'f0']],
                               'X': [['sched', c, d2, 'f1']]},
                    'horizon': 4.0}))
        # S2: head change while the clock sleeps towards a later deadline
        for w in (0.25, 0.5):
            for d2 in (0, 0.25):
                out.append(('S2', {
                    'clocks': cl, 'funcs': {'f0': {}, 'f1': {}},
                    'actors': {'main': [['sched', c, 2.0, 'f0']],
                               'X': [['sleep', w], ['sched', c, d2, 'f1']]},
                    'horizon': 5.0}))
        # S4: numeric return re-schedules; a colliding task from thread X
        for d2 in (0.5, 1.0):
            out.append(('S4', {
                'clocks': cl,
                'funcs': {'f0': {'returns': [0.5, 0.5, None]}, 'f1': {}},
                'actors': {'main': [['sched', c, 0.5, 'f0']],
                           'X': [['sched', c, d2, 'f1']]},
                'horizon': 5.0}))
        # S4b: the numeric return value is an instance of a float / int
        # subclass (numpy scalar, IntEnum member ...): still a number
        out.append(('S4b', {
            'clocks': cl,
            'funcs': {'f0': {'returns': [0.5, 1, None], 'numtype': 'sub'},
                      'f1': {}},
            'actors': {'main': [['sched', c, 0.5, 'f0']],
                       'X': [['sched', c, 1.0, 'f1']]},
            'horizon': 6.0}))
        # S5: a raising task between two good ones (function / bare awakeable)
        for kind in ('func', 'awakeable'):
            for d in (0.5, 1.0):
                out.append(('S5', {
                    'clocks': cl,
                    'funcs': {'f0': {'kind': kind},
                              'f1': {'raises': [0], 'kind': kind},
                              'f2': {'returns': [0.5, None], 'kind': kind}},
                    'actors': {'main': [['sched', c, 0.5, 'f0'],
                                        ['sched', c, 0.5, 'f1'],
                                        ['sched', c, d, 'f2']],
                               'X': [['sleep', 2.0], ['sched', c, 0.5, 'f0']]},
                    'horizon': 5.0}))
        # S6: clear / stop with tasks pending
        for w in (0.25, 0.75):
            for op in ('clear', 'stopclock'):
                if op == 'stopclock' and c != 't' and not thorough:
                    continue
                out.append(('S6', {
                    'clocks': cl, 'funcs': {'f0': {}, 'f1': {}, 'f2': {}},
                    'actors': {'main': [['sched', c, 0.5, 'f0'],
                                        ['sched', c, 1.0, 'f1']],
                               'X': [['sleep', w], [op, c]]},
                    'horizon': 4.0}))
        # infinite delay: never awakened
        out.append(('Sinf', {
            'clocks': cl, 'funcs': {'f0': {}, 'f1': {}},
            'actors': {'main': [['sched', c, INF, 'f0'],
                                ['sched', c, 0.5, 'f1']]},
            'horizon': 3.0}))
    # S7: TempoClock tempo / beats changed while its thread sleeps
    for v in (4.0, 1.0):
        for w in (0.25, 0.5):
            out.append(('S7', {
                'clocks': clocks_for('t'), 'funcs': {'f0': {}, 'f1': {}},
                'actors': {'main': [['sched', 't', 2.0, 'f0'],
                                    ['sched', 't', 4.0, 'f1']],
                           'X': [['sleep', w], ['tempo', 't', v]]},
                'horizon': 6.0}))
    for b in (1.5, 0.0):
        out.append(('S7b', {
            'clocks': clocks_for('t'), 'funcs': {'f0': {}},
            'actors': {'main': [['sched', 't', 2.0, 'f0']],
                       'X': [['sleep', 0.5], ['beats', 't', b]]},
            'horizon': 6.0}))
    # S7c: tempo / beats changed from a task running on another clock's
    # thread (SystemClock or AppClock routine) while the TempoClock sleeps
    for oc in ('s', 'a'):
        for what, v in (('tempo', 8.0), ('tempo', 1.0), ('beats', 1.5)):
            cl = clocks_for('t')
            if oc == 'a':
                cl['a'] = ['app']
            out.append(('S7c', {
                'clocks': cl, 'funcs': {'f0': {}},
                'routines': {'r0': [['yield', 0.25], [what, 't', v]]},
                'actors': {'main': [['sched', 't', 2.0, 'f0'],
                                    ['play', 'r0', oc]]},
                'horizon': 6.0}))
    # S10: a plain thread schedules while a clock thread is inside a
    # routine's awake call (the routine itself takes the lock again, which
    # gives a preemption point inside the awake)
    for c in ('s', 't'):
        for d in (0.5, 0.25):
            out.append(('S10', {
                'clocks': clocks_for(c), 'funcs': {'f0': {}, 'f1': {}},
                'routines': {'r0': [['yield', 0.5],
                                    ['sched', c, 0.25, 'f0'], ['log'],
                                    ['yield', 0.5]]},
                'actors': {'main': [['play', 'r0', c, 0]],
                           'X': [['sleep', 0.25 if c == 't' else 0.5],
                                 ['sched', c, d, 'f1']]},
                'horizon': 5.0}))
    # S11: the last task that ran (on any clock) raised; a plain thread then
    # schedules on the same or another clock: the error may not leave the
    # library's notion of the present frozen at the faulty task's time
    for c1 in ('s', 't', 'a'):
        for c2 in ('s', 't', 'a'):
            for kind in ('func', 'awakeable'):
                cl = dict(clocks_for(c1))
                cl.update(clocks_for(c2))
                out.append(('S11', {
                    'clocks': cl,
                    'funcs': {'f0': {'raises': [0], 'kind': kind},
                              'f1': {}},
                    'actors': {'main': [['sched', c1, 0.25, 'f0'],
                                        ['sleep', 1.0],
                                        ['sched', c2, 0.5, 'f1']]},
                    'horizon': 4.0}))
    # S9: a task on one clock schedules onto another clock
    out.append(('S9', {
        'clocks': {'s': ['system'], 't': ['tempo', 2.0]},
        'funcs': {'f0': {}, 'f1': {}},
        'routines': {'r0': [['yield', 1.0], ['sched', 's', 0.25, 'f0'],
                            ['yield', 1.0]]},
        'actors': {'main': [['play', 'r0', 't'], ['sched', 's', 1.0, 'f1']]},
        'horizon': 4.0}))
    if thorough:
        for c in ('s', 't'):
            out.append(('S3x', {
                'clocks': clocks_for(c),
                'funcs': {'f0': {}, 'f1': {}, 'f2': {}},
                'actors': {'main': [['sched', c, 0.5, 'f0']],
                           'X': [['sched', c, 0.5, 'f1']],
                           'Y': [['sched', c, 0.5, 'f2']]},
                'horizon': 3.0}))
    out += audit_scenarios(tier)
    return out


CL2 = {'s': ['system'], 't': ['tempo', 2.0], 'u': ['tempo', 1.0]}
CL3 = {'s': ['system'], 't': ['tempo', 2.0], 'a': ['app']}


def _target(kind):
    """(task name, funcs, routines) of a re-schedulable task of `kind`."""
    if kind == 'routine':
        return 'r0', {}, {'r0': [['yield', 0.5], ['yield', 0.5]]}
    return 'f0', {'f0': {'kind': kind, 'returns': [0.5, None]}}, {}


def audit_scenarios(tier):
    """Scenario families added by the audit (see the comments)."""
    out = []
    thorough = tier == 'thorough'
    for c in ('s', 't', 'a'):
        cl = clocks_for(c)
        # S8: ONE task object scheduled again while it is pending (moved
        # earlier: the head changes under the sleeping clock; moved later:
        # nothing may fire at the old time; concurrently at the same time);
        # awakeable / Function object / routine handed to sched() are one
        # item, a plain function is a new item per call (both must fire)
        moves = ((1.0, 0.25, 0.25), (0.5, 0.25, 1.0), (0.5, 0, 0.5))
        for kind, nmoves in (('awakeable', 3),
                             ('routine', 3 if thorough else 2),
                             ('funcobj', 3 if thorough else 1),
                             ('func', 3 if thorough else 1)):
            for d1, w, d2 in moves[:nmoves]:
                t, funcs, routines = _target(kind)
                funcs = dict(funcs)
                funcs['f1'] = {}
                xs = ([['sleep', w]] if w else []) + [['sched', c, d2, t]]
                ms = [['sched', c, d1, t]]
                if c != 'a' or thorough:
                    # an unrelated task in between (AppClock: thorough only,
                    # its tick protocol has many more scheduling points)
                    ms.append(['sched', c, 0.75, 'f1'])
                out.append(('S8', {
                    'clocks': cl, 'funcs': funcs, 'routines': routines,
                    'actors': {'main': ms, 'X': xs},
                    'horizon': 5.0}))
        # S8d: a task re-schedules ANOTHER task object that is due at the
        # same instant (before / after the re-scheduling task in the queue)
        for kind in ('awakeable', 'routine'):
            t, funcs, routines = _target(kind)
            funcs = dict(funcs)
            funcs['f1'] = {'does': {'0': [['sched', c, 0.25, t]]}}
            for ms in ([['sched', c, 0.5, 'f1'], ['sched', c, 0.5, t]],
                       [['sched', c, 0.5, t], ['sched', c, 0.5, 'f1']]):
                prog = {'clocks': cl, 'funcs': funcs, 'routines': routines,
                        'actors': {'main': ms}, 'horizon': 4.0}
                if c == 'a' and ms[0][3] == 'f1':
                    # own violation kinds (known finding: AppClock has
                    # already popped the whole batch that is due)
                    prog['tag'] = 'app-batch-resched'
                out.append(('S8d', prog))
        # S8b: a task schedules ITSELF from inside its awake call and then
        # returns nothing / a number (which moves it once more)
        x8b = [('X', [['sched', c, 0.75, 'f1']])] \
            if (c != 'a' or thorough) else []
        for kind in ('awakeable', 'funcobj'):
            for rets in ([None], [0.5, None]):
                out.append(('S8b', {
                    'clocks': cl,
                    'funcs': {'f0': {'kind': kind, 'returns': rets,
                                     'does': {'0': [['sched', c, 0.25,
                                                     'f0']]}},
                              'f1': {}},
                    'actors': dict([('main', [['sched', c, 0.5, 'f0']])] +
                                   x8b),
                    'horizon': 4.0}))
        for y in (['yield', 0.5], ['yieldv', 'x']):
            out.append(('S8b', {
                'clocks': cl, 'funcs': {'f1': {}},
                'routines': {'r0': [['sched', c, 0.25, 'r0'], y,
                                    ['yield', 0.5]]},
                'actors': dict([('main', [['sched', c, 0.5, 'r0']])] + x8b),
                'horizon': 4.0}))
        # S12: return values: zero (again at the same time, after the tasks
        # already tied there), negative, int, not a number
        for rets in ([0, None], [-0.25, None], [1, None], ['x'],
                     [0.5, 0, None]):
            acts = {'main': [['sched', c, 0.5, 'f0'],
                             ['sched', c, 0.5, 'f1']]}
            if thorough or (c != 'a' and rets[0] == 0):
                # a plain thread schedules at the very instant of the wake
                acts['X'] = [['sleep', 0.5], ['sched', c, 0, 'f2']]
            out.append(('S12', {
                'clocks': cl,
                'funcs': {'f0': {'returns': rets}, 'f1': {}, 'f2': {}},
                'actors': acts, 'horizon': 4.0}))
        out.append(('S12', {
            'clocks': cl, 'funcs': {'f1': {}},
            'routines': {'r0': [['yield', 0], ['yield', -0.25],
                                ['yield', 1]]},
            'actors': {'main': [['sched', c, 0.5, 'r0'],
                                ['sched', c, 0.5, 'f1']]},
            'horizon': 4.0}))
        # Sinf2: a task returns / a routine yields float('inf') ("never
        # again", as sched(inf, ...) means): the tasks scheduled afterwards
        # with a finite delay are still awakened
        out.append(('Sinf2', {
            'clocks': cl, 'funcs': {'f0': {'returns': [INF]}, 'f1': {}},
            'actors': {'main': [['sched', c, 0.25, 'f0'], ['sleep', 1.0],
                                ['sched', c, 0.5, 'f1']]},
            'horizon': 3.0}))
        out.append(('Sinf2', {
            'clocks': cl, 'funcs': {'f1': {}},
            'routines': {'r0': [['yield', INF]]},
            'actors': {'main': [['sched', c, 0.25, 'r0'],
                                ['sched', c, 0.5, 'f1']]},
            'horizon': 3.0}))
        if c != 'a':
            # sched_abs(inf, ...): never awakened, nothing else disturbed
            out.append(('Sinf2', {
                'clocks': cl, 'funcs': {'f0': {}, 'f1': {}},
                'actors': {'main': [['sched_abs', c, INF, 'f0'],
                                    ['sched', c, 0.5, 'f1']]},
                'horizon': 3.0}))
        # S13: negative delay / absolute time in the past: due at once,
        # ahead of everything pending
        xops = [['sched', c, -0.5, 'f1']]
        if c != 'a':
            xops.append(['sched_abs', c, 0.0, 'f1'])
        for xo in xops:
            out.append(('S13', {
                'clocks': cl, 'funcs': {'f0': {}, 'f1': {}},
                'actors': {'main': [['sched', c, 0.5, 'f0']],
                           'X': [['sleep', 0.25], xo]},
                'horizon': 3.0}))
        # S18: the other public entry points that schedule on a clock:
        # clock.play(task, quant), defer(func, delta, clock)
        cla = dict(cl)
        cla['a'] = ['app']
        out.append(('S18', {
            'clocks': cl, 'funcs': {'f0': {}},
            'routines': {'r0': [['yield', 0.5]]},
            'actors': {'main': [['cplay', c, 'f0']],
                       'X': [['sleep', 0.25], ['cplay', c, 'r0', 0]]},
            'horizon': 3.0}))
        out.append(('S18', {
            'clocks': cla,
            'funcs': {'f1': {'kind': 'thunk', 'clock': c},
                      'f2': {'kind': 'thunk', 'clock': 'a'},
                      'f3': {'kind': 'thunk', 'clock': c}},
            'actors': {'main': [['defer', c, 0.5, 'f1'],
                                ['defer', None, None, 'f2']],
                       'X': [['defer', c, None, 'f3']]},
            'horizon': 3.0}))
        # S20: a routine that raises; every subset position of raising tasks
        out.append(('S20', {
            'clocks': cl, 'funcs': {'f0': {}, 'f1': {}},
            'routines': {'r0': [['yield', 0.25], ['raise']]},
            'actors': {'main': [['play', 'r0', c, 0],
                                ['sched', c, 0.25, 'f0'],
                                ['sched', c, 0.5, 'f1']]},
            'horizon': 3.0}))
        for sub, kind in (((0,), 'func'), ((2,), 'func'), ((0, 2), 'func'),
                          ((0, 1, 2), 'awakeable')):
            funcs = {}
            for i in range(3):
                funcs[f'f{i}'] = {'kind': kind}
                if i in sub:
                    funcs[f'f{i}']['raises'] = [0]
                elif i == 2:
                    funcs[f'f{i}']['returns'] = [0.5, None]
            out.append(('S20', {
                'clocks': cl, 'funcs': funcs,
                'actors': {'main': [['sched', c, 0.5, 'f0'],
                                    ['sched', c, 0.5, 'f1'],
                                    ['sched', c, 0.5, 'f2'],
                                    ['sleep', 1.5],
                                    ['sched', c, 0.5, 'f1']]},
                'horizon': 4.0}))
    # S21: the exception alphabet: a task raising the built-in StopIteration
    # (or a subclass of it that is not the library's StopStream) is an error
    # like ValueError: logged, not re-scheduled, the others go on; StopStream
    # itself is normal termination (nothing demanded but that the others go
    # on); a generator routine whose body raises StopIteration
    for c in ('s', 't', 'a'):
        for exc, kind in (('StopIteration', 'func'), ('StopSub', 'awakeable'),
                          ('StopStream', 'func')):
            out.append(('S21', {
                'clocks': clocks_for(c),
                'funcs': {'f0': {'kind': kind},
                          'f1': {'kind': kind, 'raises': [0], 'exc': exc,
                                 'returns': [0.25, None]},
                          'f2': {'kind': kind, 'returns': [0.5, None]}},
                'actors': {'main': [['sched', c, 0.5, 'f0'],
                                    ['sched', c, 0.5, 'f1'],
                                    ['sched', c, 0.5, 'f2'],
                                    ['sleep', 1.5],
                                    ['sched', c, 0.5, 'f1']]},
                'horizon': 4.0}))
        out.append(('S21', {
            'clocks': clocks_for(c), 'funcs': {'f0': {}, 'f1': {}},
            'routines': {'r0': [['yield', 0.25],
                                ['raisex', 'StopIteration']]},
            'actors': {'main': [['play', 'r0', c, 0],
                                ['sched', c, 0.25, 'f0'],
                                ['sched', c, 0.5, 'f1']]},
            'horizon': 3.0}))
    # S8c: one object pending on two clocks at once: each clock awakens it
    for c1, c2 in (('s', 't'), ('s', 'a'), ('t', 'a')):
        cl = dict(clocks_for(c1))
        cl.update(clocks_for(c2))
        d1 = 1.0 if c1 == 't' else 0.5
        d2 = 1.5 if c2 == 't' else 0.75
        for kind in ('awakeable', 'routine'):
            if kind == 'routine':
                t, funcs = 'r0', {}
                routines = {'r0': [['yield', 1.0], ['yield', 1.0]]}
            else:
                t, funcs, routines = 'f0', {'f0': {'kind': kind}}, {}
            funcs['f1'] = {}
            out.append(('S8c', {
                'clocks': cl, 'funcs': funcs, 'routines': routines,
                'actors': {'main': [['sched', c1, d1, t],
                                    ['sched', c2, d2, t],
                                    ['sched', c2, d2, 'f1']]},
                'horizon': 5.0}))
    # S14: two TempoClocks: what is done to one leaves the other alone
    for xs in ([['tempo', 't', 4.0]], [['stopclock', 't']],
               [['clear', 'u']], [['sched', 'u', 0.25, 'f2']],
               [['stoppub', 't']], [['etempo', 'u', 4.0]]):
        out.append(('S14', {
            'clocks': CL2, 'funcs': {'f0': {}, 'f1': {}, 'f2': {}},
            'actors': {'main': [['sched', 't', 2.0, 'f0'],
                                ['sched', 'u', 1.0, 'f1']],
                       'X': [['sleep', 0.25]] + xs},
            'horizon': 4.0}))
    # S15: SystemClock, AppClock and a TempoClock with tasks pending:
    # clearing / stopping one of them cancels nothing on the others
    ops15 = [['clear', 's'], ['clear', 'a'], ['clear', 't'],
             ['stopclock', 't']]
    if thorough:
        ops15 += [['stopclock', 's'], ['stopclock', 'a']]
    for xo in ops15:
        out.append(('S15', {
            'clocks': CL3, 'funcs': {'f0': {}, 'f1': {}, 'f2': {}},
            # (one driver thread and staggered times: three clock threads
            # already give thousands of schedules)
            'actors': {'main': [['sched', 's', 0.5, 'f0'],
                                ['sched', 't', 2.0, 'f1'],
                                ['sched', 'a', 1.5, 'f2'],
                                ['sleep', 0.25], xo]},
            'horizon': 3.0}))
    # S16: etempo() while the clock sleeps (from a plain thread / from a
    # routine on another clock); S17: the public, asynchronous stop()
    for v in (4.0, 1.0):
        out.append(('S16', {
            'clocks': clocks_for('t'), 'funcs': {'f0': {}, 'f1': {}},
            'actors': {'main': [['sched', 't', 2.0, 'f0'],
                                ['sched', 't', 4.0, 'f1']],
                       'X': [['sleep', 0.25], ['etempo', 't', v]]},
            'horizon': 6.0}))
    for oc in ('s', 'a'):
        cl = clocks_for('t')
        if oc == 'a':
            cl['a'] = ['app']
        out.append(('S16', {
            'clocks': cl, 'funcs': {'f0': {}},
            'routines': {'r0': [['yield', 0.25], ['etempo', 't', 8.0]]},
            'actors': {'main': [['sched', 't', 2.0, 'f0'],
                                ['play', 'r0', oc]]},
            'horizon': 6.0}))
    # (stop_all() walks a WeakSet, whose order depends on addresses: only
    # with a single TempoClock is the execution a function of the choices)
    for w, op in ((0.25, 'stoppub'), (0.75, 'stoppub'), (0.25, 'stopall')):
        out.append(('S17', {
            'clocks': clocks_for('t'), 'funcs': {'f0': {}, 'f1': {}},
            'actors': {'main': [['sched', 't', 1.0, 'f0'],
                                ['sched', 't', 2.0, 'f1']],
                       'X': [['sleep', w], [op, 't']]},
            'horizon': 4.0}))
    out.append(('S18', {
        'clocks': clocks_for('t'), 'funcs': {'f0': {}, 'f1': {}},
        'actors': {'main': [['playbar', 't', 'f0']],
                   'X': [['sleep', 0.25], ['playbar', 't', 'f1']]},
        'horizon': 4.0}))
    # S19: a task running on one clock's thread schedules onto the same or
    # another clock (what an OSC responder does: the library runs it as a
    # SystemClock task) while a plain thread schedules there too; the delay
    # counts from the logical time of the awakened task
    for c1 in ('s', 't', 'a'):
        for c2 in ('s', 't', 'a'):
            cl = dict(clocks_for(c1))
            cl.update(clocks_for(c2))
            d1 = 1.0 if c1 == 't' else 0.5
            out.append(('S19', {
                'clocks': cl,
                'funcs': {'f0': {'does': {'0': [['sched', c2, 0.25,
                                                 'f1']]}},
                          'f1': {}, 'f2': {}},
                'actors': {'main': [['sched', c1, d1, 'f0']],
                           'X': [['sleep', 0.5], ['sched', c2, 0.25, 'f2']]},
                'horizon': 3.0}))
    # families whose point shows on the default schedule plus one deviation
    # and that have many scheduling points: lower deviation bound
    for n, p in out:
        if n in ('S8b', 'S8c', 'S14', 'S15', 'S18', 'S19'):
            p['cap'] = {'quick': [1, 1], 'thorough': [2, 2]}
    return out


def grammar2_scenarios():
    """Second systematic family: like grammar_scenarios(), but the alphabet
    schedules ONE shared task object g (an awakeable or a routine handed to
    sched(); it re-schedules itself once by its return value) at two
    different delays, next to fresh plain functions and clear()."""
    out = []
    for c in ('s', 't', 'a'):
        for kind in ('awakeable', 'routine'):
            g = 'g' if kind == 'awakeable' else 'r0'
            alpha = [['sched', c, 0.25, g], ['sched', c, 1.0, g],
                     ['sched', c, 0.5, None], ['clear', c]]
            seqs = [[a] for a in alpha] + [[a, b] for a in alpha
                                           for b in alpha]
            for ms in seqs:
                for xs in seqs:
                    if not any(o[0] == 'sched' and o[3] == g
                               for o in ms + xs):
                        continue
                    for lead in (0, 0.25):
                        k = 0
                        funcs = {}
                        routines = {}
                        if kind == 'awakeable':
                            funcs['g'] = {'kind': 'awakeable',
                                          'returns': [0.5, None]}
                        else:
                            routines['r0'] = [['yield', 0.5],
                                              ['yield', 0.5]]
                        actors = {'main': [], 'X': []}
                        if lead:
                            actors['X'].append(['sleep', lead])
                        for who, ops in (('main', ms), ('X', xs)):
                            for o in ops:
                                o = list(o)
                                if o[0] == 'sched' and o[3] is None:
                                    o[3] = f'f{k}'
                                    funcs[o[3]] = {}
                                    k += 1
                                actors[who].append(o)
                        out.append(('G2', {'clocks': clocks_for(c),
                                           'funcs': funcs,
                                           'routines': routines,
                                           'actors': actors,
                                           'horizon': 5.0}))
    return out


# ---------------------------------------------------------------------------
# Oracle over one execution trace
# ---------------------------------------------------------------------------

class TempoRef:
    """Affine beat/second map of a TempoClock created at elapsed time 0."""

    def __init__(self, tempo):
        self.tempo = tempo
        self.base_s = 0.0
        self.base_b = 0.0

    def b2s(self, b):
        return (b - self.base_b) / self.tempo + self.base_s

    def s2b(self, s):
        return (s - self.base_s) * self.tempo + self.base_b

    def set_tempo(self, v, at):
        b = self.s2b(at)
        self.base_s, self.base_b, self.tempo = at, b, v

    def set_beats(self, v, at):
        self.base_s, self.base_b = at, v


SINGLE_KINDS = ('awakeable', 'funcobj', 'routine')


def check_trace(prog, res):
    """The oracle.  Model of what is pending: per clock queue a set of
    entries (scheduled time, scheduling order).  An object that is ONE item
    however often it is scheduled (awakeable, Function object, routine) has at
    most one entry per clock: scheduling it again while it is pending moves
    it to its new time as the most recent entry (the contract of the clocks'
    queue, property C09, and what the non-real-time scheduler does); a plain
    function is wrapped anew by every scheduling call, so every call makes an
    entry of its own."""
    from collections import Counter
    dis = []

    def bad(kind, exp, obs, detail=''):
        dis.append((kind, exp, obs, detail))

    if res['status'] != 'ok':
        bad(res['status'], 'the execution completes', res['detail'])
        return dis
    for name, exc in res['dead']:
        # (own kind for a wait whose timeout the platform refuses, so that
        # the known finding about it cannot hide another cause of death)
        bad('clock-thread-died-wait-overflow' if exc.startswith(
            'OverflowError') else 'clock-thread-died',
            'clock threads survive task errors', [name, exc])
    for what, thread in res['lockfree']:
        bad('queue-access-without-lock', 'main lock held', [what, thread])
    for kind, d in res['finish_problems']:
        bad(kind, 'clocks stop', d)
    for c, alive in res['alive'].items():
        if res['dead']:
            break
        stopped = any(e[0] == 'stop-end' and _q(prog, e[2]) == c
                      for e in res['trace'])
        if not alive and not stopped:
            bad('clock-not-running-at-horizon', True, False, c)
    if dis:
        return dis
    funcs = dict(prog.get('funcs', {}))
    kindof = {fid: spec.get('kind', 'func') for fid, spec in funcs.items()}
    raise_at = {fid: set(spec.get('raises', []))
                for fid, spec in funcs.items()}
    # awakenings that end with the stream-end signal are normal termination:
    # not re-scheduled, nothing has to be logged
    silent = {fid for fid, spec in funcs.items()
              if spec.get('exc') == 'StopStream'}
    for rid, stmts in prog.get('routines', {}).items():
        rets = []
        for st in stmts:
            if st[0] == 'yield':
                rets.append(st[1])
            elif st[0] in ('yieldv', 'wait'):
                rets.append(None)
            elif st[0] in ('raise', 'raisex'):
                # (StopIteration raised inside a generator body reaches the
                # clock as RuntimeError, PEP 479: an error like any other)
                raise_at[rid] = {len(rets)}
                break
        funcs[rid] = {'returns': rets + [None]}
        kindof[rid] = 'routine'
    clocks = prog.get('clocks', {})
    tref = {cid: TempoRef(spec[1]) for cid, spec in clocks.items()
            if spec[0] == 'tempo'}
    qkind = {}
    for cid, spec in clocks.items():
        qkind[_q(prog, cid)] = spec[0]
    # queue -> {key: [prio, seq, add_phys, optional, name, adding thread]}
    pending = {}
    wakes = {}        # name -> count

    def ghost(name):
        # a routine that has run to its end (or failed) is awakened without
        # any observable effect: its entries demand / constrain nothing
        return kindof.get(name) == 'routine' and \
            wakes.get(name, 0) >= len(funcs[name]['returns'])
    expect_add = {}   # name -> (queue, expected prio) after a numeric return
    cleared = {}      # queue -> keys snapshot at clear-begin
    cur_log = {}      # task name -> logical seconds of its latest awakening
    inflight = {}     # caller -> [task name, queue, expected prio | None]
    nraise = 0
    raised = set()    # tasks whose latest awakening raised
    horizon = prog.get('horizon', 4.0)
    # a tempo / beats change made from a plain thread is not atomic with
    # respect to the clock thread: what happens on that clock at the very
    # instant of the change (same virtual time) is not decided by the
    # statement - timing clauses are skipped for that instant only
    racy = {}
    for e in res['trace']:
        if e[0] == 'tempo-set' and e[1] in prog.get('actors', {}):
            racy.setdefault(_q(prog, e[3]), set()).add(e[5])
    # if a task of that clock really was awakened at such an instant, the
    # base of the clock's map after the change depends on the interleaving
    # inside the setter: the reference map is not trusted from then on
    tainted = {}
    for e in res['trace']:
        if e[0] in ('wake', 'res'):
            q0 = _q(prog, e[7])
            if e[3] in racy.get(q0, ()):
                tainted[q0] = min(tainted.get(q0, e[3]), e[3])

    class _Racy:
        def __init__(self, q):
            self.q = q

        def __contains__(self, phys):
            return phys in racy.get(self.q, ()) or \
                (self.q in tainted and phys >= tainted[self.q])
    racy_view = {q0: _Racy(q0) for q0 in set(racy) | set(tainted)}
    actors = set(prog.get('actors', {}))
    actor_threads = {'MainThread' if a == 'main' else a for a in actors}

    def expected_prio(q0, delta, base, t0):
        """Scheduled time a scheduling call must produce, None = not decided
        here.  base: the caller's present (physical for a plain thread, the
        logical time of the awakened task inside an awake call)."""
        kind = qkind[q0]
        if isinstance(delta, list):
            if delta[0] == 'abs':
                return delta[1]
            if delta[0] == 'play':
                # SystemClock / AppClock: play(task) = sched(0, task);
                # TempoClock: only quant 0 ('now') is decided here, the grid
                # arithmetic belongs to C12
                if kind == 'tempo' and delta[1] != 0:
                    return None
                d = 0
            elif delta[0] == 'defer':
                d = delta[1] or 0
            else:
                return None
        else:
            d = delta
        if kind == 'app':
            return t0 + d       # AppClock: always the physical present
        if base is None:
            return None
        if kind == 'tempo':
            return tref[q0].s2b(base) + d
        return base + d

    for e in res['trace']:
        k = e[0]
        if k == 'sched-call':
            _, who, cid, delta, fid, t0 = e
            q0 = _q(prog, cid)
            base = t0 if who in actors else cur_log.get(who)
            want = expected_prio(q0, delta, base, t0)
            if t0 in racy_view.get(q0, ()):
                want = None
            inflight[who] = [fid, q0, want]
        elif k == 'sched-ret':
            inflight.pop(e[1], None)
        elif k == 'add':
            _, q, prio, name, seq, phys = e[:6]
            thread = e[6] if len(e) > 6 else None
            owner = None
            for who, fl in inflight.items():
                if fl is None or fl[0] != name:
                    continue
                if who in actors:
                    if thread == ('MainThread' if who == 'main' else who):
                        owner = who
                elif thread not in actor_threads:
                    # a task that schedules holds the main lock for the
                    # whole awake call: no other clock thread can insert
                    owner = who
            single = kindof.get(name, 'func') in SINGLE_KINDS
            key = name if single else f'{name}#{seq}'
            pending.setdefault(q, {})[key] = [prio, seq, phys, False, name,
                                              thread]
            if owner is not None:
                _, wq, want = inflight[owner]
                inflight[owner] = None
                if phys in racy_view.get(q, ()):
                    want = None
                if want is not None and prio != float('inf') and \
                        (wq != q or want != prio):
                    bad('scheduled-time-wrong', [wq, want], [q, prio],
                        f'{name}: sched(delta) must be relative to the '
                        'physical present of a call from a plain thread, to '
                        'the logical time of the awakened task inside an '
                        'awake call')
            elif thread not in actor_threads:
                if name in raised:
                    bad('rescheduled-after-error', 'a task whose awakening '
                        'raised is not re-scheduled by the clock', [q, prio],
                        name)
                exp = expect_add.pop(name, None)
                if exp is not None:
                    eq, eprio = exp
                    if eq != q or (eprio is not None and eprio != prio):
                        bad('reschedule-time-wrong', [eq, eprio], [q, prio],
                            f'{name}: numeric return must re-schedule '
                            'relative to the scheduled time (AppClock: to '
                            'the present)')
        elif k in ('wake', 'res'):
            _, name, n, phys, logical, beats, late, cname = e
            q = _q(prog, cname)
            if name in expect_add:
                bad('reschedule-missing', expect_add[name], None, name)
                expect_add.pop(name)
            pq = pending.get(q, {})
            cands = [(v[0], v[1], key) for key, v in pq.items()
                     if v[4] == name]
            raised.discard(name)
            if n in raise_at.get(name, ()):
                raised.add(name)
                if name not in silent:
                    nraise += 1
            if not cands:
                bad('wake-without-pending-scheduling',
                    f'{name} not pending on {q}', e,
                    'awakened twice, after clear/stop, at the old time of a '
                    'task that was scheduled again, or on a wrong clock')
                continue
            prio, seq, key = min(cands)
            _, _, addphys, _opt, _, _ = pq.pop(key)
            for other, (p2, s2, a2, opt2, n2, th2) in pq.items():
                if opt2 or ghost(n2):
                    continue    # may have been removed by a racing clear()
                if qkind[q] == 'app' and a2 == phys and p2 < a2 and \
                        th2 not in actor_threads:
                    # AppClock awakens what is due in batches (first pops
                    # everything that is due, then awakens it, so that
                    # nothing scheduled as a result is awakened before
                    # control returns): an entry inserted by a task of the batch
                    # with a time that is already past on arrival (negative
                    # delta) waits for the next tick, which follows at once
                    continue
                if (p2, s2) < (prio, seq):
                    bad('wake-out-of-order', [other, p2, s2],
                        [name, prio, seq],
                        'an earlier (time, scheduling order) task was '
                        'pending')
            kind = qkind[q]
            if kind == 'tempo':
                due = tref[q].b2s(prio)
            else:
                due = prio
            timing = phys not in racy_view.get(q, ()) and \
                addphys not in racy_view.get(q, ())
            if timing and phys < due:
                bad('early-wake', f'>= {due}', phys, name)
            limit = max(due, addphys) + late
            if timing and phys > limit:
                bad('late-wake', f'<= {limit}', phys,
                    f'{name} due {due}, scheduled at {addphys}, injected '
                    f'lateness {late}: waited for an unrelated deadline')
            if kind == 'system' and logical != prio:
                bad('logical-time-wrong', prio, logical, name)
            if kind == 'tempo' and beats != prio and timing:
                bad('logical-beats-wrong', prio, beats, name)
            # logical time seen by scheduling calls made inside this awake
            # call (AppClock has no logical time: not decided)
            cur_log[name] = due if (kind != 'app' and timing) else None
            wakes[name] = wakes.get(name, 0) + 1
            spec = funcs.get(name, {})
            rets = spec.get('returns', [None])
            r = rets[n] if n < len(rets) else None
            if n in raise_at.get(name, ()):
                r = None
            if isinstance(r, (int, float)) and not isinstance(r, bool) \
                    and r != INF:
                # (inf = never again: whether an entry that is never due
                # is kept in the queue is not observable)
                expect_add[name] = (q, (phys if kind == 'app' else prio) + r)
                if not timing:
                    expect_add[name] = (q, None)
        elif k == 'clear-begin':
            q = _q(prog, e[2])
            cleared[q] = {n: v[1] for n, v in pending.get(q, {}).items()}
            # the removal takes effect somewhere between begin and end
            for v in pending.get(q, {}).values():
                v[3] = True
        elif k in ('clear-end', 'stop-end'):
            q = _q(prog, e[2])
            snap = cleared.pop(q, None)
            pq = pending.get(q, {})
            if k == 'stop-end':
                snap = {n: v[1] for n, v in pq.items()}
            for n, seq in (snap or {}).items():
                if n in pq and pq[n][1] == seq:
                    del pq[n]
            if k == 'clear-end':
                # scheduled while the clear() call was in progress: the
                # statement does not say which of the two wins
                for n, v in pq.items():
                    if n not in (snap or {}) or (snap or {})[n] != v[1]:
                        v[3] = True
        elif k == 'tempo-set':
            _, who, what, cid, v, phys, t = e
            if what == 'tempo':
                tref[cid].set_tempo(v, t)
            else:
                tref[cid].set_beats(v, t)
        elif k == 'raises':
            bad('api-call-raises', 'no exception', e[1:], '')
    for name, exp in expect_add.items():
        bad('reschedule-missing', exp, None, name)
    # "an exception raised by one task is logged": one record with the
    # exception attached per raising awakening (any level, any logger of
    # the library)
    nlogged = sum(1 for e in res['trace'] if e[0] == 'logged' and e[3])
    if nlogged < nraise and ['run2'] in res['trace']:
        bad('task-error-not-logged', f'>= {nraise} log records with the '
            'exception', nlogged, '')
    # missed wake-ups: still pending in the model though due before horizon
    late = res['late_total']
    for q, pq in pending.items():
        for key, (prio, seq, addphys, opt, name, _) in pq.items():
            if opt or ghost(name):
                continue
            due = tref[q].b2s(prio) if qkind[q] == 'tempo' else prio
            if max(due, addphys) + late < horizon:
                bad('missed-wake', f'{name} awakened by '
                    f'{max(due, addphys) + late}', 'still pending at '
                    f'{horizon}', q)
    # the real queues must hold exactly what the model says is pending
    stopped_q = {_q(prog, e[2]) for e in res['trace'] if e[0] == 'stop-end'}
    for q, lst in res['pending'].items():
        if q in stopped_q:
            # a stopped clock fires nothing any more (checked through the
            # wake events); what its dead queue still holds is not observable
            continue
        pq = pending.get(q, {})
        must = Counter(v[4] for v in pq.values()
                       if not v[3] and not ghost(v[4]))
        may = Counter(v[4] for v in pq.values())
        real = Counter(n for _, n in lst)
        if any(real[n] < c for n, c in must.items()) or \
                any(may[n] < c for n, c in real.items()):
            bad('pending-set-differs',
                {'must': sorted(must.elements()),
                 'may': sorted(may.elements())},
                sorted(real.elements()), q)
    return dis


def _q(prog, cid):
    """queue name of a clock id: 'system', 'app' or the tempo clock id."""
    spec = prog.get('clocks', {}).get(cid)
    if spec is None:
        return cid
    return {'system': 'system', 'app': 'app'}.get(spec[0], cid)


# ---------------------------------------------------------------------------
# Worker side
# ---------------------------------------------------------------------------
#
# The shared interpreter mc/rtprog.py is extended *here* (it may not be
# edited): while one execution runs, a subclass is put in place of
# rtprog.Run (the same device as in c05 / c10).  Additions:
#
# funcs spec
#   'kind': 'func'      plain function; every sched() call wraps it in a NEW
#                       Function object = a new item each time (default)
#           'awakeable' one object with __awake__ only
#           'funcobj'   one sc3 Function object made once and scheduled as is
#           'thunk'     zero-argument callable for defer(); 'clock': cid says
#                       on which clock it is deferred
#   'does': {'<k>': [stmt, ...]}  statements executed by the k-th call before
#                       it returns / raises (a task that schedules: what an
#                       OSC responder running as a SystemClock task does)
# ops
#   ['sched_abs', cid, t, rid]    also with a routine
#   ['cplay', cid, name, quant]   clock.play(task, quant)
#   ['playbar', cid, name]        TempoClock.play_next_bar(task)
#   ['defer', cid|None, delta|None, fid]   sc3.base.clock.defer(...)
#   ['etempo', cid, v]            TempoClock.etempo(v)
#   ['stoppub', cid]              TempoClock.stop() (public, asynchronous)
#   ['stopall']                   TempoClock.stop_all()
#   ['raisex', name]              (routine statement) raise _exc_class(name)
# funcs spec 'exc': name          class raised by the calls listed in 'raises'
# events
#   'add' carries the name of the thread that made the insertion (7th field)
#   ['logged', logger, level, has_exc_info, thread]  every record of the
#       library's loggers
#   ['run2'] marker: the extended interpreter was in place

class _StopSub(StopIteration):
    pass


def _exc_class(name):
    """Exception alphabet of raising tasks ('exc' of a funcs spec, operand
    of the routine statement ['raisex', name]).  StopStream is the library's
    stream-end signal: the clocks treat it as normal termination (nothing
    logged); the built-in StopIteration and its other subclasses are errors
    like any other."""
    if name == 'StopStream':
        from sc3.base.stream import StopStream
        return StopStream
    return {'ValueError': ValueError, 'StopIteration': StopIteration,
            'StopSub': _StopSub}[name]


_NEW_OPS = ('cplay', 'playbar', 'defer', 'etempo', 'stoppub', 'stopall')
_LOG = {}


def _run2_class():
    import logging
    from mc import rtprog, seams, vthreading as vt
    base = rtprog.Run

    class Run2(base):
        def setup(self):
            base.setup(self)
            self.ev('run2')
            run = self

            def on_add(q, prio, task):
                name = run.names.get(id(task))
                if name is None:
                    f = getattr(task, 'func', None)
                    name = run.names.get(id(f))
                    if name is None and getattr(f, '__closure__', None):
                        # defer() wraps the callable in a local function
                        for cell in f.__closure__:
                            name = run.names.get(id(cell.cell_contents))
                            if name is not None:
                                break
                    if name is None:
                        name = repr(task)
                run.ev('add', getattr(q, '_qname', '?'), prio, name,
                       run.addseq, run.now(), vt.SCHED.current.name)
                run.addseq += 1
            seams.on_add = on_add

            class Cap(logging.Handler):
                def emit(self, record):
                    run.ev('logged', record.name, record.levelname,
                           bool(record.exc_info), vt.SCHED.current.name)
            lg = logging.getLogger('sc3')
            _LOG['state'] = (lg, lg.level, lg.propagate, Cap())
            lg.setLevel(logging.DEBUG)
            lg.propagate = False
            lg.addHandler(_LOG['state'][3])

        def _func(self, fid, spec):
            run = self
            kind = spec.get('kind', 'func')
            returns = spec.get('returns', [None])
            raises = set(spec.get('raises', []))
            does = spec.get('does', {})

            def call(clock):
                k = run.calls.get(fid, 0)
                run.calls[fid] = k + 1
                if clock is None:       # thunk: defer() passes nothing
                    clock = run.clocks[spec['clock']]
                run.ev('wake', fid, k, run.now(), clock.seconds,
                       clock.beats, run.late(), run.clockname(clock))
                for st in does.get(str(k), []):
                    run.do(st, fid, clock)
                if k in raises:
                    raise _exc_class(spec.get('exc', 'ValueError'))(
                        f'task {fid} call {k}')
                r = returns[k] if k < len(returns) else None
                if spec.get('numtype') and isinstance(r, (int, float)):
                    r = (rtprog._Dur(r) if isinstance(r, float)
                         else rtprog._Count(r))
                return r

            if kind == 'awakeable':
                class Awakeable:
                    def __awake__(self, clock):
                        return call(clock)
                return Awakeable()
            if kind == 'thunk':
                def th():
                    return call(None)
                th.__qualname__ = fid
                return th

            def f(_, clock):
                return call(clock)
            f.__qualname__ = fid
            if kind == 'funcobj':
                from sc3.base.functions import Function
                obj = Function(f)
                self.names[id(f)] = fid
                return obj
            return f

        def _task(self, name):
            return self.funcs[name] if name in self.funcs \
                else self.routines[name]

        def do(self, st, who, clock=None):
            op = st[0]
            if op == 'raisex':      # routine body raises this exception
                raise _exc_class(st[1])(f'routine {who}')
            if not (op in _NEW_OPS or
                    (op == 'sched_abs' and st[3] in self.routines)):
                if op in ('tempo', 'beats') and who in self.funcs:
                    raise ValueError('tempo/beats from a function task: '
                                     'not modelled')
                return base.do(self, st, who, clock)
            from sc3.base import clock as clk
            S = vt.SCHED
            try:
                if op == 'sched_abs':
                    self.ev('sched-call', who, st[1], ['abs', st[2]], st[3],
                            self.now())
                    self.clocks[st[1]].sched_abs(st[2], self.routines[st[3]])
                    self.ev('sched-ret', who, st[1], st[3], self.now())
                elif op == 'cplay':
                    q = st[3] if len(st) > 3 else None
                    self.ev('sched-call', who, st[1], ['play', q], st[2],
                            self.now())
                    self.clocks[st[1]].play(self._task(st[2]), q)
                    self.ev('sched-ret', who, st[1], st[2], self.now())
                elif op == 'playbar':
                    self.ev('sched-call', who, st[1], ['bar'], st[2],
                            self.now())
                    self.clocks[st[1]].play_next_bar(self._task(st[2]))
                    self.ev('sched-ret', who, st[1], st[2], self.now())
                elif op == 'defer':
                    cid = st[1]
                    if cid is None:     # the documented default: AppClock
                        cid = [c for c, o in self.clocks.items()
                               if o is clk.AppClock][0]
                    self.ev('sched-call', who, cid, ['defer', st[2]], st[3],
                            self.now())
                    clk.defer(self.funcs[st[3]], st[2],
                              None if st[1] is None else self.clocks[st[1]])
                    self.ev('sched-ret', who, cid, st[3], self.now())
                elif op == 'etempo':
                    # always at the physical present
                    self.ev('tempo-set', who, 'tempo', st[1], st[2],
                            self.now(), self.now())
                    self.clocks[st[1]].etempo(st[2])
                elif op in ('stoppub', 'stopall'):
                    cids = [st[1]] if op == 'stoppub' else \
                        [c for c, o in self.clocks.items()
                         if isinstance(o, clk.TempoClock)]
                    for c in cids:
                        self.ev('stop-begin', who, c, self.now())
                    if op == 'stoppub':
                        self.clocks[st[1]].stop()
                    else:
                        clk.TempoClock.stop_all()
                    # stop() only starts a thread that stops the clock: let
                    # it finish (no time passes)
                    S.idle()
                    for c in cids:
                        self.ev('stop-end', who, c, self.now())
            except Exception as e:
                if type(e).__name__ in ('Abort',):
                    raise
                self.ev('raises', who, st, type(e).__name__, str(e)[:200])
                if who in self.routines:
                    raise

    return Run2


def run_rt2(prog, prefix, lateness_menu=None):
    """rtprog.run_rt with the extended interpreter in place."""
    import threading as _real
    from mc import rtprog, vthreading as vt
    old = rtprog.Run
    rtprog.Run = _run2_class()
    # CPython's Condition.wait / Lock.acquire refuse a timeout beyond
    # threading.TIMEOUT_MAX (float('inf') included) with OverflowError; the
    # virtual Condition would simply wait for ever.  Made faithful here
    # (mc/vthreading.py is shared and may not be edited).
    vwait = vt.VCondition.wait

    def wait(self, timeout=None):
        if timeout is not None and timeout > _real.TIMEOUT_MAX:
            raise OverflowError('timestamp out of range for platform time_t')
        return vwait(self, timeout)
    vt.VCondition.wait = wait
    try:
        pts, ch, res = rtprog.run_rt(prog, prefix,
                                     lateness_menu=lateness_menu)
    finally:
        vt.VCondition.wait = vwait
        rtprog.Run = old
        st = _LOG.pop('state', None)
        if st is not None:
            lg, level, prop, h = st
            lg.removeHandler(h)
            lg.setLevel(level)
            lg.propagate = prop
    for e in res['trace']:
        if e[0] == 'raises':    # no addresses in observations
            e[-1] = re.sub(r'0x[0-9a-f]+', '0x?', e[-1])
    res['dead'] = [[n, re.sub(r'0x[0-9a-f]+', '0x?', x)]
                   for n, x in res['dead']]
    if res['status'] == 'ok' and ['run2'] not in res['trace']:
        raise RuntimeError('mc.rtprog.run_rt no longer instantiates '
                           'rtprog.Run: the C08 interpreter extension is '
                           'not in place')
    return pts, ch, res


def run_case(case):
    prog = case['prog']
    pts, ch, res = run_rt2(prog, case['choices'],
                           lateness_menu=case.get('menu'))
    return pts, ch, res


def work(job):
    from mc import rtprog
    from mc.engines import schedx
    acc = progenum.Acc(max_samples=2)
    prog = job['prog']
    name = job['name']
    npts = [0]

    def run(prefix):
        return run_rt2(prog, prefix)

    def on_result(choices, points, res):
        from mc.engines.schedx import cost_of
        pre, late = cost_of(points, choices)
        case = {'name': name, 'prog': prog, 'choices': list(choices)}
        dis = check_trace_full(prog, res)
        for kind, exp, obs, detail in dis:
            acc.violation(kind, case, exp, obs, detail,
                          size=(pre + late) * 100000 + len(choices) * 100 +
                          len(core.canon(prog)) // 10)
        wake_order = [[e[1], e[3]] for e in res['trace']
                      if e[0] in ('wake', 'res')]
        nontrivial = (pre + late) > 0 or _same_instant(res)
        acc.case(case, nontrivial, wake_order, steps=res['steps'])
        npts[0] = max(npts[0], len(points))
        acc.count('scheduling_points', len(points))
        if res['status'] != 'ok':
            # a dead-/live-locked execution leaves library threads behind:
            # the violation is recorded, do not explore further in this
            # process (each job runs in its own process)
            return 'stop'

    r = schedx.explore(run, job['max_pre'], job['max_late'], on_result,
                       max_exec=job.get('max_exec'))
    acc.count('executions', r['executions'])
    if r['capped']:
        acc.extra['capped_scenarios'] = [name]
    return acc.result()


def work_batch(job):
    """Several small scenario jobs in one process."""
    total = None
    for j in job['jobs']:
        r = work(j)
        if total is None:
            total = r
        else:
            for k in ('ev', 'st', 'tr', 'tv', 'nt', 'nviol'):
                total[k] += r.get(k, 0)
            total['out'] = sorted(set(total['out']) | set(r['out']))
            total['samples'] = (total['samples'] + r['samples'])[:3]
            total['viol'] += r['viol']
            for k, v in r.get('extra', {}).items():
                if isinstance(v, (int, float)):
                    total['extra'][k] = total['extra'].get(k, 0) + v
        if any(v['kind'] in ('deadlock', 'livelock') for v in r['viol']):
            break
    return total or progenum.Acc().result()


def _same_instant(res):
    seen = {}
    for e in res['trace']:
        if e[0] == 'add':
            key = (e[1], e[2])
            if key in seen:
                return True
            seen[key] = 1
    return False


def check_trace_full(prog, res):
    dis = check_trace(prog, res)
    tag = prog.get('tag')
    if tag:
        dis = [(f'{k}@{tag}', e, o, d) for k, e, o, d in dis]
    return dis


def replay(job):
    case = job['case']
    pts, ch, res = run_case(case)
    dis = check_trace_full(case['prog'], res)
    return {'violates': any(d[0] == job['kind'] for d in dis),
            'disagreements': [[d[0], repr(d[1])[:300], repr(d[2])[:300]]
                              for d in dis],
            'choices': ch,
            'trace': res['trace'], 'dead': res['dead'],
            'status': res['status']}


def _returns_inf(v, **_):
    """The program has a task that returns / a routine that yields inf."""
    prog = v['case']['prog']
    for spec in prog.get('funcs', {}).values():
        if any(r == INF for r in spec.get('returns', [])
               if isinstance(r, (int, float))):
            return True
    for stmts in prog.get('routines', {}).values():
        if any(st[0] == 'yield' and st[1] == INF for st in stmts):
            return True
    return False


def _app_batch_resched(v, **_):
    """AppClock program in which a task re-schedules another task object
    that is due in the same tick and comes after it in the queue."""
    prog = v['case']['prog']
    return prog.get('tag') == 'app-batch-resched' and \
        any(spec[0] == 'app' for spec in prog.get('clocks', {}).values())


PREDICATES = {'task_returns_inf': _returns_inf,
              'app_batch_resched': _app_batch_resched}


def main(ctx):
    ctx.rule = (
        'E3: for each scenario program (2-3 threads issuing sched/clear/stop/'
        'tempo calls against the real clock threads) every schedule with at '
        'most P preemptions and L lateness deviations (menu on time / +2^-10 '
        '/ +0.75 s at every timed wait) is executed under the cooperative '
        'scheduler with virtual time; the trace is checked against the '
        'exactly-once / not-early / not-late / ordered / survives-errors / '
        'clear-cancels oracle. Distinct = different choice sequence. '
        'Non-trivial = at least one deviation, or two insertions with the '
        'same due time on one clock. Audit families (S8-S20, Sinf2, grammar '
        'family 2): one task object (awakeable / Function object / routine '
        'handed to sched()) scheduled again while pending, from another '
        'thread, from its own awake call, or on two clocks (model: one entry '
        'per clock and object, a re-scheduling moves it; a plain function is '
        'a new entry per call); return values 0 / negative / int / inf / not '
        'a number; negative delays and past absolute times; two TempoClocks '
        'and SystemClock+AppClock+TempoClock side by side (clear / stop / '
        'tempo change of one leaves the others alone); etempo(), the public '
        'stop() / stop_all(), clock.play(), play_next_bar() and defer() as '
        'entry points; function tasks that schedule onto the same / another '
        'clock (delay counted from the logical time of the awakened task); '
        'raising routines and more subsets of raising tasks, each raising '
        'awakening must leave a log record carrying the exception.')
    ctx.assumptions += [
        'interleavings at synchronisation operations only (lock release, '
        'blocking, thread start/exit, timed-wait expiry); unsynchronised '
        'accesses are covered only by the lockset monitor on the clock '
        'queues',
        'virtual time: executing code takes no time; a timed wait fires at '
        'its deadline plus the chosen lateness',
        'clock threads re-created per execution by a mirror of the '
        "library's init_func (mc/seams.py)",
        'Condition.wait with a timeout beyond threading.TIMEOUT_MAX raises '
        'OverflowError as in CPython (made faithful inside this check)',
        'times, delays and tempi are dyadic rationals: virtual time is '
        'exact; non-dyadic values are not explored (a busy re-check loop of '
        'the clock thread takes no virtual time)']
    if ctx.tier == 'quick':
        bounds = [(2, 1)]
    else:
        bounds = [(3, 2)]
    scs = scenarios(ctx.tier)
    naudit = len(audit_scenarios(ctx.tier))
    sharp, audit = scs[:len(scs) - naudit], scs[len(scs) - naudit:]
    for max_pre, max_late in bounds:
        jobs = [{'name': n, 'prog': p, 'max_pre': max_pre,
                 'max_late': max_late} for n, p in sharp]
        progenum.run(ctx, MODNAME, 'work', jobs, mode='rt', maxtasks=1,
                     bound=f'<= {max_pre} preemptions, <= {max_late} '
                           'lateness deviations')
        # the audit families: same bound unless the program carries a cap
        # (families whose point is visible on few deviations and that have
        # three or more clock threads); several programs per process
        jobs = []
        for n, p in audit:
            cp, cl_ = p.get('cap', {}).get(ctx.tier, (max_pre, max_late))
            jobs.append({'name': n, 'prog': p, 'max_pre': min(cp, max_pre),
                         'max_late': min(cl_, max_late)})
        nb = 48
        progenum.run(ctx, MODNAME, 'work_batch',
                     [{'jobs': jobs[i::nb]} for i in range(nb)
                      if jobs[i::nb]],
                     mode='rt', maxtasks=1,
                     bound=f'audit families, <= {max_pre} preemptions, <= '
                           f'{max_late} lateness deviations (capped '
                           'programs: see cap in the program)')
        ctx.extra['capped_programs'] = sum(1 for _, p in audit
                                           if 'cap' in p)
    # systematic grammar family: thorough = all programs under (1, 1);
    # quick = a seed-selected 1/16 slice under (1, 0)
    gs = grammar_scenarios()
    if ctx.tier == 'quick':
        k = core.pick_slice(ctx.seed, 16)
        part = gs[k::16]
        gb = (1, 0)
        label = (f'grammar family, 1/16 slice chosen by seed (not '
                 f'exhaustive), <= 1 preemption')
    else:
        part = gs
        gb = (1, 1)
        label = 'grammar family (all programs), <= 1 preemption, <= 1 late'
    jobs = [{'name': n, 'prog': p, 'max_pre': gb[0], 'max_late': gb[1]}
            for n, p in part]
    progenum.run(ctx, MODNAME, 'work_batch',
                 [{'jobs': jobs[i::64]} for i in range(64) if jobs[i::64]],
                 mode='rt', maxtasks=1, bound=label)
    ctx.extra['grammar_programs'] = len(part)
    # second grammar family (one shared task object scheduled repeatedly):
    # thorough = all programs under (1, 1); quick = a seed-selected 1/32
    # slice under (1, 0)
    g2 = grammar2_scenarios()
    if ctx.tier == 'quick':
        k2 = core.pick_slice(ctx.seed, 32)
        part2 = g2[k2::32]
        label2 = ('grammar family 2 (shared task object), 1/32 slice chosen '
                  'by seed (not exhaustive), <= 1 preemption')
    else:
        part2 = g2
        label2 = ('grammar family 2 (shared task object, all programs), '
                  '<= 1 preemption, <= 1 late (routine variant: 0 late)')
    # (the routine variant differs from the awakeable one only in the awake
    # protocol, not in the queue path: no lateness deviation for it)
    jobs = [{'name': n, 'prog': p, 'max_pre': gb[0],
             'max_late': 0 if p.get('routines') else gb[1]}
            for n, p in part2]
    progenum.run(ctx, MODNAME, 'work_batch',
                 [{'jobs': jobs[i::64]} for i in range(64) if jobs[i::64]],
                 mode='rt', maxtasks=1, bound=label2)
    ctx.extra['grammar2_programs'] = len(part2)
    ctx.extra['scenarios'] = len(scs)
    ctx.extra['bounds_completed'] = [list(b) for b in bounds]
