"""C11 - routines, conditions and flow variables obey their state machine; the
current thread and its logical time are restored on exit; waiters resume
exactly once.

* life (E2, NRT): BFS over histories of external operations on a real Routine
  whose body is a data script interpreted by a generator function (first
  operation of a history chooses the body), lock-step with
  mc/oracles/routine_ref.py.
* cond (E2, NRT): BFS over histories of play/test/signal/unhang/value
  assignment/step-scheduler with 1-2 waiting routines.
* rt (E3, thorough): two waiters on different real clocks, signal from a third
  thread / routine, every schedule with <= 2 preemptions."""

from mc import core
from mc.engines import histbfs, progenum
from mc.oracles import routine_ref as rr

MODE = 'nrt'
MODNAME = 'mc.checks.c11'


def REPLAY_MODE(v):
    return 'rt' if 'prog' in v['case'] else 'nrt'


# ---------------------------------------------------------------------------
# Body scripts (plain data, see mc/oracles/routine_ref.py)
# ---------------------------------------------------------------------------

Y5 = ['yield', 0.5]
YX = ['yield', 'x']
EC = ['echo']
RET = ['return']
RV = ['raise', 'ValueError']
YAR = ['yar', 7]
AY = ['ay', 5]
SS = ['call', 'self', 'stop', 'c']
SP = ['call', 'self', 'pause', 'c']
SR = ['call', 'self', 'reset', 'c']
SN = ['call', 'self', 'next', 'c']
SSP = ['call', 'self', 'stop', 'p']
IN = ['call', 'inner', 'next', 'p']
INC = ['call', 'inner', 'next', 'c']

NONTERM = [Y5, YX, EC, SS, SP, SR, SN, IN]
TERM = [RV, YAR, AY, SSP]
FN_NONTERM = [SS, SP, SR, IN]

# -- audit widening ---------------------------------------------------------
# falsy / None values wherever a value is recorded, yielded or sent
Y0 = ['yield', 0]
YN = ['yield', None]
YF = ['yield', False]
AY0 = ['ay', 0]
AYN = ['ay', None]
YAR0 = ['yar', 0]
YARN = ['yar', None]
# other ways for a body to fail: a BaseException that is not an Exception
# (class _Abort below), the library's own stream-end exceptions raised by hand
RA = ['raise', 'Abort']
RS = ['raise', 'StopStream']
RP = ['raise', 'PausedStream']
RK = ['raise', 'KeyError']
# the remaining life-cycle methods called from inside bodies
SPL = ['call', 'self', 'play', 'c']
SRS = ['call', 'self', 'resume', 'c']
ISTOP = ['call', 'inner', 'stop', 'c']
IPAUSE = ['call', 'inner', 'pause', 'c']
IRESUME = ['call', 'inner', 'resume', 'c']
IRESET = ['call', 'inner', 'reset', 'c']
IPLAY = ['call', 'inner', 'play', 'c']
# embedding: yield from inner.__embed__(last) / yield from embed(inner, last)
EM = ['embed', 'inner']
EMF = ['embed', 'inner', 'func']

VAL_NONTERM = [Y0, YN, EC]
VAL_TERM = [AY0, AYN, YAR0, YARN, RA, RS]
# inner.pause and inner.play never meet in one body: play() on a paused
# routine is a don't-care that needs the observed state (see routine_ref)
INS_A = [YX, IN, ISTOP, IPAUSE, IRESUME, IRESET]
INS_B = [YX, IN, IPLAY, ISTOP, IRESET, SPL, SRS]
INS_TERM = [RV, AY]


class _Abort(BaseException):
    """A failure that is not an Exception (as KeyboardInterrupt, SystemExit,
    GeneratorExit, asyncio.CancelledError are); private so that it cannot be
    confused with a real interrupt of the worker."""


RAISES = {'ValueError': ValueError, 'KeyError': KeyError, 'Abort': _Abort}

INNERS = {
    'y': {'kind': 'gen', 'runs': [[['yield', 'i']]]},
    'rv': {'kind': 'gen', 'runs': [[RV]]},
    'ay': {'kind': 'gen', 'runs': [[['ay', 9]]]},
    'ostop': {'kind': 'gen',
              'runs': [[['call', 'outer', 'stop', 'p'], ['yield', 'i']]]},
    'onext': {'kind': 'gen',
              'runs': [[['call', 'outer', 'next', 'c'], ['yield', 'i']]]},
    'opause': {'kind': 'gen',
               'runs': [[['call', 'outer', 'pause', 'c'], ['yield', 'i'],
                         ['call', 'outer', 'reset', 'c']]]},
    'fn': {'kind': 'fn', 'runs': [[]]},
    'yy': {'kind': 'gen', 'runs': [[['yield', 'i'], ['yield', 0.5], AY]]},
    # audit: ends by exhaustion after two values / records a falsy terminal
    # value / fails with a non-Exception / pauses-stops its caller's caller
    'y2': {'kind': 'gen', 'runs': [[['yield', 'i'], ['yield', 0]]]},
    'ay0': {'kind': 'gen', 'runs': [[['yield', None], AY0]]},
    'ra': {'kind': 'gen', 'runs': [[['yield', 'i'], RA]]},
    # three levels: inner steps a third routine which calls back the first
    'mid': {'kind': 'gen', 'runs': [[['call', 'third', 'next', 'p'],
                                     ['yield', 'm'],
                                     ['call', 'third', 'next', 'c'],
                                     ['yield', 'n']]]},
}

THIRDS = {
    'mid': {'kind': 'gen', 'runs': [[['call', 'outer', 'stop', 'c'],
                                     ['call', 'inner', 'pause', 'c'],
                                     ['yield', 't'],
                                     ['call', 'outer', 'reset', 'c'], RV]]},
}


def scripts(maxlen, nonterm, term):
    """All scripts of at most `maxlen` actions: non-terminating actions
    optionally closed by one terminating action; shortest first."""
    out = []
    layer = [[]]
    for n in range(maxlen + 1):
        for s in layer:
            out.append(s)
        if n == maxlen:
            break
        for s in layer:
            for t in term:
                out.append(s + [t])
        layer = [s + [a] for s in layer for a in nonterm]
    return [s for s in out if len(s) <= maxlen]


def _uses_inner(runs):
    return any(a[0] == 'call' and a[1] == 'inner' for s in runs for a in s)


def _body(kind, runs, inner=None, param=None, **flags):
    """flags (audit): ctor='decorator'|'run'|'drun' (how the outer routine is
    made: routine(f), Routine.run(f), routine.run()(f); default Routine(f)),
    iter=True (the external next() is the builtin next(r), i.e. __next__),
    clk='tempo'|'app' (external play / resume pass an explicit clock and
    quant)."""
    echo = any(a == EC for s in runs for a in s)
    b = {'outer': {'kind': kind, 'runs': runs,
                   'param': echo if param is None else param}}
    if inner:
        b['inner'] = INNERS[inner]
        if inner in THIRDS:
            b['third'] = THIRDS[inner]
    if echo:
        b['send'] = True
    b.update(flags)
    return b


def _uniq(bodies):
    seen = set()
    out = []
    for b in bodies:
        k = core.canon(b)
        if k not in seen:
            seen.add(k)
            out.append(b)
    return out


def audit_bodies(which):
    """Bodies added by the audit (appended to the menu of each tier)."""
    out = []
    n = 2 if which == 'quick' else 3
    # 1. falsy / None values, non-Exception failures, hand-raised StopStream
    for s in scripts(n, VAL_NONTERM, VAL_TERM):
        out.append(_body('gen', [s]))
    for s in ([YF, Y0, AY0], [YN, YF, YARN], [Y0, Y0, RA], [EC, YF, AYN],
              [YX, RP], [YX, RK], [RP], [RS]):
        out.append(_body('gen', [s]))
    for a, b in (([AY0], [YX]), ([AYN], [YX]), ([AY0], [AY]), ([YAR0], [AY0]),
                 ([RA], [YX, AY0]), ([Y0, AY0], []), ([RS], [YN])):
        out.append(_body('gen', [a, b]))
    for s in ([RA], [RS], [RP], [RK], [AY0], [AYN], [YAR0], [YARN],
              [IN, IN], [IN, IN, AY0], [SS, RA], [INC, RS]):
        out.append(_body('fn', [s], 'y' if _uses_inner([s]) else None))
    out.append(_body('fn', [[AY0], []]))
    out.append(_body('fn', [[RA], [AY0]]))
    # 2. life-cycle methods of the inner routine / of itself from the body
    for alpha in (INS_A, INS_B):
        for s in scripts(n, alpha, INS_TERM):
            if _uses_inner([s]):
                for i in (('y', 'yy') if len(s) <= 2 else ('yy',)):
                    out.append(_body('gen', [s], i))
            else:
                out.append(_body('gen', [s]))
    for s in ([IPLAY], [IPLAY, IN], [ISTOP, IN], [IPAUSE, IN], [SPL, SRS]):
        out.append(_body('fn', [s], 'y' if _uses_inner([s]) else None))
    # 3. inner routines that fail with a non-Exception / record 0 / end
    for s in ([IN], [INC, YX], [INC, INC, EC], [IN, IN, IN]):
        for i in ('y2', 'ay0', 'ra'):
            out.append(_body('gen', [s], i))
    # 4. embedding (Stream.__embed__ and embed()) of every inner body
    inn = ('y', 'rv', 'ay', 'yy', 'y2', 'ay0', 'ra', 'onext', 'ostop',
           'opause', 'fn')
    for s in ([EM], [EM, YX], [EC, EM, EC], [EMF, EC], [EM, EMF],
              [IN, EM], [EM, AY0], [ISTOP, EM, YX], [IPAUSE, EM, YX]):
        for i in (inn if len(s) <= 2 or which != 'quick' else ('y2', 'ra')):
            out.append(_body('gen', [s], i))
    # 5. three levels of nesting with call-backs to both callers
    for s in ([IN, YX], [INC, INC, EC], [IN, SS, IN], [EM, YX]):
        out.append(_body('gen', [s], 'mid'))
    # 6. other entry points: decorator, Routine.run, routine.run, __next__,
    #    play / resume with an explicit clock and quant
    for s in ([Y5, YX, AY], [EC, Y0, RV], [YX, YAR0], [SS, SP, SR],
              [YN, RA], [Y5, Y5, Y5]):
        for fl in ({'ctor': 'decorator'}, {'ctor': 'run'}, {'ctor': 'drun'},
                   {'iter': True}, {'clk': 'tempo'}, {'clk': 'app'},
                   {'ctor': 'run', 'clk': 'tempo', 'iter': True}):
            out.append(_body('gen', [s], **fl))
    for s in ([], [AY0], [RV], [IN]):
        for fl in ({'ctor': 'run'}, {'ctor': 'drun', 'iter': True},
                   {'clk': 'tempo'}):
            out.append(_body('fn', [s], 'y' if _uses_inner([s]) else None,
                             **fl))
    for s in ([IN, Y5, IN], [IPLAY, Y5, IN], [EM, Y5]):
        for fl in ({'clk': 'tempo'}, {'ctor': 'run', 'clk': 'app'}):
            out.append(_body('gen', [s], 'yy', **fl))
    return out


RUN_SCRIPTS = [[AY], [YX], [YAR], [RV], [], [Y5, AY], [SS, YX], [EC, AY]]


def life_bodies(which):
    """The body menu of one tier (deterministic order, simplest first)."""
    out = []
    if which.startswith('audit-'):
        base = {core.canon(b) for b in
                _life_bodies_base(which[len('audit-'):])}
        return [b for b in _uniq(audit_bodies(which[len('audit-'):]))
                if core.canon(b) not in base]
    return _life_bodies_base(which)


def _life_bodies_base(which):
    out = []
    if which == 'quick':
        for s in scripts(2, NONTERM, TERM):
            if _uses_inner([s]):
                for i in ('y', 'rv', 'onext'):
                    out.append(_body('gen', [s], i))
            else:
                out.append(_body('gen', [s]))
        for s in ([Y5, YX, AY], [YX, YX, RV], [EC, EC, YAR], [YX, SN, YX],
                  [SN, SS, YX], [IN, EC, IN], [YX, RET, YX]):
            out.append(_body('gen', [s], 'y' if _uses_inner([s]) else None))
        for a, b in (([AY], [YX]), ([AY], [RV]), ([YX], [AY]),
                     ([YAR], [AY]), ([RV], [YX, AY]), ([Y5, AY], [])):
            out.append(_body('gen', [a, b]))
        for s in ([], [RV], [AY], [YAR], [SS], [SR], [SP, RV], [IN],
                  [IN, AY]):
            out.append(_body('fn', [s], 'y' if _uses_inner([s]) else None))
        out.append(_body('fn', [[]], param=True))
        out.append(_body('fn', [[AY], []]))
        out.append(_body('gen', [[INC, EC]], 'opause'))
        out.append(_body('gen', [[INC, YX, INC]], 'yy'))
    else:
        for s in scripts(3, NONTERM, TERM):
            if _uses_inner([s]):
                inn = ('y', 'rv', 'onext') if len(s) > 2 else \
                    ('y', 'rv', 'ay', 'ostop', 'onext', 'fn', 'yy')
                for i in inn:
                    out.append(_body('gen', [s], i))
            else:
                out.append(_body('gen', [s]))
        out.append(_body('gen', [[YX, RET, YX]]))
        for a in RUN_SCRIPTS:
            for b in RUN_SCRIPTS:
                if a != b:
                    out.append(_body('gen', [a, b]))
        for s in scripts(2, FN_NONTERM, TERM):
            for i in (('y', 'rv') if _uses_inner([s]) else (None,)):
                out.append(_body('fn', [s], i))
        out.append(_body('fn', [[]], param=True))
        out.append(_body('fn', [[AY], []]))
        out.append(_body('fn', [[], [RV]]))
        for s in ([INC, EC], [INC, YX, INC], [INC, INC, EC]):
            for i in ('opause', 'yy'):
                out.append(_body('gen', [s], i))
    return out


# ---------------------------------------------------------------------------
# The real side: routines whose bodies interpret the scripts
# ---------------------------------------------------------------------------

class RealWorld:
    def __init__(self, specs, conds=(), fvs=(), flags=(), cond_init=None,
                 opts=None):
        from sc3.base.main import main
        from sc3.base import stream as stm
        from sc3.base.clock import SystemClock, AppClock, TempoClock
        main.reset()
        main.current_tt = main.main_tt          # a previous case may have
        self.main = main                        # left it corrupted
        self.stm = stm
        self.clock = SystemClock
        self.opts = opts or {}
        self.played_at_creation = []
        # the explicit (clock, quant) arguments of external play / resume
        clk = self.opts.get('clk')
        self.xclock = ()
        if clk == 'tempo':
            self.xclock = (TempoClock(2.0), 1)
        elif clk == 'app':
            self.xclock = (AppClock, None)
        self.clocks = [SystemClock, AppClock] + list(self.xclock[:1])
        self.runs = {n: 0 for n in specs}
        self.log = []           # [routine, action index, outcome] in bodies
        self.problems = []      # invariant violations seen inside bodies
        self.awake = []         # [routine, outcome] of every clock wake-up
        self.flags = {g: [False] for g in flags}
        self.conds = {}
        for c in conds:
            t = (cond_init or {}).get(c)
            self.conds[c] = stm.Condition() if t is None else \
                stm.Condition(self.testval(t))
        self.fvs = {f: stm.FlowVar() for f in fvs}
        self.routines = {}
        self.names = {}
        for n, s in specs.items():
            ctor = self.opts.get('ctor') if n == 'outer' else None
            f = self._func(n, s)
            if ctor == 'decorator':
                r = stm.routine(f)
            elif ctor == 'run':
                r = stm.Routine.run(f, *self.xclock)
            elif ctor == 'drun':
                r = stm.routine.run(*self.xclock)(f)
            else:
                r = stm.Routine(f)
            if type(r) is not stm.Routine:
                raise core.HarnessError(f'{ctor} made a {type(r).__name__}')
            if ctor in ('run', 'drun'):
                self.played_at_creation.append(n)
            self.routines[n] = r
            self.names[id(r)] = n
            r.__awake__ = self._spy(n, r)

    # -- helpers ---------------------------------------------------------------
    def testval(self, t):
        """bool, or ['flag', g] -> a callable predicate reading flag g."""
        if isinstance(t, list) and t[0] == 'flag':
            cell = self.flags[t[1]]
            return lambda: cell[0]
        return t

    def plain(self, v):
        if v is None or isinstance(v, (bool, int, float, str)):
            return v
        if isinstance(v, tuple) and len(v) == 2 and \
                id(v[0]) in self.names and \
                any(v[1] is c for c in self.clocks):
            # (routine, clock); which clock is not decided by the statement
            return 'RC:' + self.names[id(v[0])]
        if v is self.stm.FlowVar._UNBOUND:
            return rr.UNBOUND
        return f'<{type(v).__name__}>'

    def ttname(self, tt):
        if tt is self.main.main_tt:
            return 'main_tt'
        return self.names.get(id(tt), repr(tt))

    def invoke(self, tgt, meth, *args):
        """-> (plain outcome, raw value, exception)"""
        try:
            if meth == '__next__':
                v = next(iter(self.routines[tgt]))  # the iterator protocol
            else:
                v = getattr(self.routines[tgt], meth)(*args)
        except (Exception, _Abort) as e:
            return ['exc', _clsname(e)], None, e
        return ['ret', self.plain(v)], v, None

    def _spy(self, n, r):
        def awake(clock):
            try:
                v = type(r).__awake__(r, clock)
            except (Exception, _Abort) as e:
                self.awake.append([n, ['exc', _clsname(e)]])
                raise
            self.awake.append([n, ['ret', self.plain(v)]])
            return v
        return awake

    def queue(self):
        """[[time, routine name], ...] in wake-up order."""
        out = []
        for t, ct in self.main._clock_scheduler.queue:
            out.append([t, self.names.get(id(ct.task), '?')])
        return out

    def check_main(self, t_expected, what):
        """After a call from the main thread: the current thread is the main
        time thread again and its logical time is what it was."""
        m = self.main
        dis = []
        if m.current_tt is not m.main_tt:
            dis.append(('current-thread-not-restored', 'main_tt',
                        self.ttname(m.current_tt), what))
            m.current_tt = m.main_tt
        if m.main_tt._m_seconds != t_expected:
            dis.append(('main-logical-time-changed', t_expected,
                        m.main_tt._m_seconds, what))
        return dis

    def _check_inside(self, name, r, t0, what):
        m = self.main
        if m.current_tt is not r:
            self.problems.append((
                'current-thread-not-restored-inside', name,
                self.ttname(m.current_tt),
                f'after {what} called from the body of {name}'))
        elif r._seconds != t0:
            self.problems.append((
                'routine-logical-time-changed-inside', t0, r._seconds,
                f'after {what} called from the body of {name}'))

    # -- body interpreter ----------------------------------------------------
    def _func(self, name, spec):
        w = self
        if spec['kind'] == 'gen':
            if spec.get('param'):
                def body(inval):
                    return (yield from w._interp(name, spec, inval))
            else:
                def body():
                    return (yield from w._interp(name, spec, None))
        else:
            if spec.get('param'):
                def body(inval):
                    w._interp_fn(name, spec, inval)
            else:
                def body():
                    w._interp_fn(name, spec, None)
        body.__qualname__ = name
        return body

    def _script(self, name, spec):
        k = self.runs[name]
        self.runs[name] = k + 1
        runs = spec['runs']
        return runs[min(k, len(runs) - 1)]

    def _interp(self, name, spec, inval):
        """Generator bodies."""
        last = inval
        for idx, act in enumerate(self._script(name, spec)):
            a = act[0]
            if a == 'yield':
                last = yield act[1]
            elif a == 'echo':
                last = yield last
            elif a == 'return':
                return
            elif a == 'embed':
                if len(act) > 2 and act[2] == 'func':
                    last = yield from self.stm.embed(self.routines[act[1]],
                                                     last)
                else:
                    last = yield from self.routines[act[1]].__embed__(last)
                self._check_inside(name, self.routines[name],
                                   self.routines[name]._seconds,
                                   f'embedding {act[1]}')
            elif a == 'wait':
                yield from self.conds[act[1]].wait()
            elif a == 'fvget':
                last = yield from self.fvs[act[1]].value
            else:
                last = self._act(name, idx, act, last)

    def _interp_fn(self, name, spec, inval):
        """Plain function bodies (no yields)."""
        last = inval
        for idx, act in enumerate(self._script(name, spec)):
            if act[0] == 'return':
                return
            if act[0] in ('yield', 'echo', 'wait', 'fvget', 'embed'):
                raise core.HarnessError('yield in a plain function body')
            last = self._act(name, idx, act, last)

    def _act(self, name, idx, act, last):
        """One non-yielding action; returns the new `last`."""
        stm = self.stm
        r = self.routines[name]
        a = act[0]
        if a == 'raise':
            if act[1] in ('StopStream', 'PausedStream'):
                raise getattr(stm, act[1])
            raise RAISES[act[1]]('body')
        elif a == 'yar':
            raise stm.YieldAndReset(act[1])
        elif a == 'ay':
            raise stm.AlwaysYield(act[1])
        elif a == 'call':
            tgt = name if act[1] == 'self' else act[1]
            t0 = r._seconds
            out, v, e = self.invoke(tgt, act[2])
            self.log.append([name, idx, out])
            self._check_inside(name, r, t0, f'{tgt}.{act[2]}()')
            if e is None:
                if act[2] == 'next':
                    last = v
            elif act[3] == 'p':
                raise e
        elif a == 'set':
            self.conds[act[1]].test = self.testval(act[2])
        elif a == 'signal':
            self.conds[act[1]].signal()
        elif a == 'unhang':
            self.conds[act[1]].unhang()
        elif a == 'fvset':
            try:
                self.fvs[act[1]].value = act[2]
                out, e = ['ret', None], None
            except Exception as ex:
                out, e = ['exc', type(ex).__name__], ex
            self.log.append([name, idx, out])
            if e is not None and act[3] == 'p':
                raise e
        else:
            raise core.HarnessError(f'bad action {act}')
        return last

    # -- implementation state for the deduplication key ----------------------
    def implkey(self):
        now = self.main.main_tt._m_seconds
        rs = {}
        for n, r in self.routines.items():
            it = r._iterator
            pos = None
            if it is not None:
                sub = getattr(it, 'gi_yieldfrom', None)
                fr = getattr(sub, 'gi_frame', None)
                pos = fr.f_locals.get('idx') if fr is not None else 'x'
            tv = r._terminal_value
            rs[n] = [r.state.name, it is None, pos,
                     '-' if tv is r._SENTINEL else ['v', self.plain(tv)],
                     self.plain(r._last_value), r.parent is None,
                     self.runs[n], getattr(r._clock, '__name__', '?')]
        cs = {c: [callable(x._test), bool(x.test),
                  [self.ttname(t) for t in x._waiting_threads]]
              for c, x in self.conds.items()}
        fs = {f: [self.plain(x._value),
                  [self.ttname(t) for t in x.condition._waiting_threads]]
              for f, x in self.fvs.items()}
        return [rs, cs, fs, [[t - now, n] for t, n in self.queue()]]


def _clsname(e):
    return 'Abort' if isinstance(e, _Abort) else type(e).__name__


def _cmp_common(w, ref, tag, dis):
    """states, in-body call logs and in-body invariants after one step."""
    obs_states = {n: r.state.name for n, r in w.routines.items()}
    if obs_states != ref.states():
        dis.append((f'state-after-{tag}', ref.states(), obs_states,
                    'Routine.state differs from the reference'))
    if not rr.log_matches(ref.log, w.log):
        dis.append((f'inbody-call-result-{_logtag(ref.log, w.log)}', ref.log,
                    w.log, 'result of a call made inside a routine body: '
                    '[routine, action index, outcome]'))
    for p in w.problems:
        dis.append(p)


def _logtag(exp, obs):
    for e, o in zip(exp, obs):
        if e[:2] != o[:2] or not rr.outcome_matches(e[2], o[2]):
            return 'refusal' if e[2] == ['exc', 'RoutineException'] else \
                ('reentrant-next' if e[2] == ['exc', '*'] else 'other')
    return 'length'


class _OneTask:
    """Stands in for the scheduler's queue while ClockScheduler.run() runs:
    reports empty after one pop, forwards everything else."""

    def __init__(self, q):
        self._q = q
        self.popped = []

    def empty(self):
        return bool(self.popped) or self._q.empty()

    def pop(self):
        item = self._q.pop()
        self.popped.append(item)
        return item

    def __getattr__(self, name):
        return getattr(self._q, name)

    def __iter__(self):
        return iter(self._q)


_POISON = [False]


def _step(w, ref, dis, compare_pending):
    """Run the NRT clock scheduler for one task, as ClockScheduler.run does."""
    sched = w.main._clock_scheduler
    real = sched.queue
    if real.empty():
        # the same history had a pending task when it was explored: the
        # library's behaviour depends on something outside the history
        _POISON[0] = True
        dis.append(('history-not-a-function-of-its-operations',
                    'a pending task, as when this history was explored',
                    'empty queue',
                    'replaying the same operations on fresh objects in '
                    'another process gave another scheduler state'))
        return '<none>', None
    time, ct = real.peek()
    who = w.names.get(id(ct.task))
    if who is None:
        # a task that does not belong to this history is queued: something
        # the library keeps outside the objects of the history (e.g. waiters
        # of another Condition) made it schedule a foreign routine.  Reported
        # as an observation, never as a harness error; the foreign entry is
        # dropped so that the history can go on.
        real.pop()
        _POISON[0] = True       # the process keeps leaking: stop exploring
        dis.append(('foreign-task-scheduled', 'only routines of this history',
                    repr(ct.task)[:120],
                    'a routine that is not part of the history was handed '
                    'to the clock: a waiting routine resumes only when ITS '
                    'condition is signalled'))
        return '<foreign>', None
    before = ref.r[who].state
    spurious = compare_pending and not ref.owed(who) and ref.advances(who)
    n0 = len(w.awake)
    # the library's own ClockScheduler.run(), limited to one task
    one = _OneTask(real)
    sched.queue = one
    try:
        sched.run()
    except _Abort:
        pass        # ClockTask._wakeup only absorbs Exception; the spy saw it
    finally:
        sched.queue = real
    if one.popped != [(time, ct)]:
        raise core.HarnessError(f'scheduler step popped {one.popped}')
    got = w.awake[n0:]
    if spurious:
        # nothing (play, resume, numeric yield, signal, unhang, value) owes
        # this routine a wake-up, yet the clock runs its body
        k = 'resumed-by-stale-registration' if who in ref.stale else \
            'resumed-without-signal-or-twice'
        dis.append((k, f'no wake-up owed to {who} ({before})',
                    {'awake': got, 'stale_registration': who in ref.stale},
                    'a waiting routine resumes exactly once after the '
                    'condition holds and is signalled, never before'))
        dis += w.check_main(time, f'scheduler step of {who} at {time}')
        return who, None
    exp = ref.wake(who)
    if len(got) != 1 or got[0][0] != who:
        dis.append(('step-wakes-wrong-task', [who, exp], got,
                    'one scheduler step awakes exactly the popped routine'))
    elif not rr.outcome_matches(exp, got[0][1]):
        dis.append((f'awake-in-{before}-result', exp, got[0][1],
                    f'{who}.__awake__(clock) = next((routine, clock))'))
    dis += w.check_main(time, f'scheduler step of {who} at {time}')
    return who, got


# ---------------------------------------------------------------------------
# life: one routine (plus an optional inner one) under external operations
# ---------------------------------------------------------------------------

class LifeSys:
    def __init__(self, params):
        self.params = params
        self.w = None
        self.ref = None
        self.body = None
        self.changes = 0
        self.last = None
        self.tainted = False

    def ops(self):
        if _POISON[0]:
            return []
        if self.w is None:
            return [['body', b] for b in life_bodies(self.params['set'])]
        o = [['next']]
        if self.body.get('send'):
            o += [['send', 3], ['send', 0]]
        o += [['pause'], ['resume'], ['stop'], ['reset'], ['play']]
        if 'inner' in self.body:
            o.append(['inext'])
            if self.params['set'] not in ('quick', 'audit-quick'):
                o += [['istop'], ['ireset'], ['ipause'], ['iresume']]
        if not self.w.main._clock_scheduler.queue.empty():
            o.append(['step'])
        return o

    def apply(self, op):
        if _POISON[0]:
            return []
        name = op[0]
        if name == 'body':
            self.body = op[1]
            specs = {'outer': op[1]['outer']}
            for n in ('inner', 'third'):
                if n in op[1]:
                    specs[n] = op[1][n]
            self.w = RealWorld(specs, opts=op[1])
            self.ref = rr.RefWorld(specs)
            dis = []
            for n in self.w.played_at_creation:     # Routine.run(f)
                self.ref.r[n].call('play')
            if self.w.played_at_creation:
                _cmp_common(self.w, self.ref, 'run', dis)
                dis += self._owed()
            return dis
        w, ref = self.w, self.ref
        del w.log[:], w.problems[:], ref.log[:]
        dis = []
        st0 = w.routines['outer'].state
        if name == 'step':
            who, got = _step(w, ref, dis, False)
            obs = got
            tag = 'step'
        else:
            tgt, meth, args = {
                'next': ('outer', 'next', ()),
                'send': ('outer', 'next', tuple(op[1:])),
                'inext': ('inner', 'next', ()),
                'istop': ('inner', 'stop', ()),
                'ireset': ('inner', 'reset', ()),
                'ipause': ('inner', 'pause', ()),
                'iresume': ('inner', 'resume', ()),
            }.get(name, ('outer', name, ()))
            before = ref.r[tgt].state
            t0 = w.main.main_tt._m_seconds
            if name == 'next' and self.body.get('iter'):
                obs, _, _ = w.invoke(tgt, '__next__')
            elif name in ('play', 'resume'):
                obs, _, _ = w.invoke(tgt, meth, *w.xclock)
            else:
                obs, _, _ = w.invoke(tgt, meth, *args)
            if meth == 'play':
                exp = ref.r[tgt].call('play',
                                      observed=w.routines[tgt].state.name)
            else:
                exp = ref.r[tgt].call(meth, *args)
            tag = meth
            if not rr.outcome_matches(exp, obs):
                dis.append((f'{meth}-in-{before}-result', exp, obs,
                            f'{tgt}.{meth}{args} with the reference in '
                            f'state {before}'))
            dis += w.check_main(t0, f'{tgt}.{meth}{args}')
        _cmp_common(w, ref, tag, dis)
        if not dis:
            dis += self._owed()
        if ref.reentered:
            # everything the library does after it let a running routine be
            # re-entered is one disagreement class (the current-thread kinds
            # keep their own names)
            dis = [d if d[0].startswith('current-thread') else
                   ('behaviour-after-reentrant-next',) + tuple(d[1:]) + (d[0],)
                   for d in dis]
            dis = [d[:4] if len(d) == 4 else
                   (d[0], d[1], d[2], f'{d[4]}: {d[3]}') for d in dis]
        if w.routines['outer'].state is not st0:
            self.changes += 1
        self.last = [obs, {n: r.state.name for n, r in w.routines.items()}]
        self.tainted = bool(dis)
        return dis

    def _owed(self):
        """A routine made playable by play() / resume() / Routine.run() (from
        outside or from a body) or by a numeric yield on the clock is queued
        on the NRT scheduler until that wake-up is delivered (a routine that
        is played and never woken up does not play)."""
        queued = {n for _, n in self.w.queue()}
        miss = [n for n, v in self.ref.pending.items()
                if v and n not in queued and self.ref.advances(n)]
        if miss:
            return [('wakeup-missing-after-play', sorted(miss),
                     sorted(queued), 'routines with a wake-up owed by play / '
                     'resume that are not in the NRT scheduler queue')]
        return []

    def key(self):
        if _POISON[0]:
            return ['poisoned']
        if self.w is None:
            return ['root']
        # the non-trivial flag and "the last step disagreed" are part of the
        # key so that both are functions of the state (deterministic counts)
        return [core.digest(self.body), self.ref.snapshot()[0],
                self.w.implkey(), min(self.changes, 2), self.tainted]

    def nontrivial(self):
        return self.changes >= 2

    def outcome(self):
        return self.last


# ---------------------------------------------------------------------------
# cond: waiters on Condition / FlowVar under main-thread events
# ---------------------------------------------------------------------------

def G(*runs, **kw):
    return dict({'kind': 'gen', 'runs': [list(r) for r in runs]}, **kw)


W1 = [['wait', 'c0'], YX]
COND_CONFIGS = {
    # two waiters on one condition; w1 reaches it later and waits twice
    'two': {'routines': {'w0': G([['wait', 'c0'], YX, ['wait', 'c0'], YX]),
                         'w1': G([Y5, ['wait', 'c0'], ['wait', 'c0'], YX])},
            'conds': ['c0'],
            'ops': [['play', 'w0'], ['play', 'w1'], ['set', 'c0', True],
                    ['set', 'c0', False], ['signal', 'c0'], ['unhang', 'c0']]},
    # one waiter, two conditions
    'chain': {'routines': {'w0': G([['wait', 'c0'], ['wait', 'c1'], YX])},
              'conds': ['c0', 'c1'],
              'ops': [['play', 'w0'], ['set', 'c0', True],
                      ['set', 'c1', True], ['set', 'c0', False],
                      ['signal', 'c0'], ['signal', 'c1'], ['unhang', 'c1']]},
    # flow variable with two readers
    'flow': {'routines': {'w0': G([['fvget', 'f0'], EC, ['fvget', 'f0'], EC]),
                          'w1': G([Y5, ['fvget', 'f0'], EC])},
             'fvs': ['f0'],
             'ops': [['play', 'w0'], ['play', 'w1'], ['fvset', 'f0', 7],
                     ['fvset', 'f0', 8]]},
    # signalling from inside a routine (as test_condition_different_clocks)
    'inside': {'routines': {'w0': G([['wait', 'c0'], YX]),
                            's0': G([['set', 'c0', True], ['signal', 'c0'],
                                     Y5, ['set', 'c0', False], ['unhang', 'c0'],
                                     ['signal', 'c0']]),
                            'w1': G([['wait', 'c0'], ['wait', 'c0'], YX])},
               'conds': ['c0'],
               'ops': [['play', 'w0'], ['play', 's0'], ['play', 'w1'],
                       ['set', 'c0', False]]},
    # flow variable assigned from inside routines, twice
    'flowin': {'routines': {'w0': G([['fvget', 'f0'], EC]),
                            's0': G([['fvset', 'f0', 7, 'c'], YX,
                                     ['fvset', 'f0', 8, 'p'], YX]),
                            's1': G([Y5, ['fvset', 'f0', 9, 'c']])},
               'fvs': ['f0'],
               'ops': [['play', 'w0'], ['play', 's0'], ['play', 's1'],
                       ['fvset', 'f0', 6]]},
    # a waiter that is stopped / reset / played again while parked; its
    # second run waits on the other condition only
    'relife': {'routines': {'w0': G([['wait', 'c0'], ['wait', 'c1'], YX],
                                    [['wait', 'c1'], YX])},
               'conds': ['c0', 'c1'],
               'ops': [['play', 'w0'], ['stop', 'w0'], ['reset', 'w0'],
                       ['set', 'c0', True], ['set', 'c1', True],
                       ['signal', 'c0'], ['signal', 'c1']]},
    # Condition created with a CALLABLE test reading a flag: signal() must
    # evaluate it (a callable is always truthy as an object)
    'callinit': {'routines': {'w0': G([['wait', 'c0'], YX, ['wait', 'c0'],
                                       YX]),
                              'w1': G([Y5, ['wait', 'c0'], YX])},
                 'conds': ['c0'], 'flags': ['g0'],
                 'cond_init': {'c0': ['flag', 'g0']},
                 'ops': [['play', 'w0'], ['play', 'w1'],
                         ['flag', 'g0', True], ['flag', 'g0', False],
                         ['signal', 'c0'], ['unhang', 'c0']]},
    # a callable assigned later with cond.test = ..., mixed with bools
    'callset': {'routines': {'w0': G([['wait', 'c0'], YX, ['wait', 'c0'],
                                      YX])},
                'conds': ['c0'], 'flags': ['g0'],
                'ops': [['play', 'w0'], ['set', 'c0', ['flag', 'g0']],
                        ['set', 'c0', False], ['set', 'c0', True],
                        ['flag', 'g0', True], ['flag', 'g0', False],
                        ['signal', 'c0']]},
    # signalling the internal condition of a flow variable (its test is the
    # callable "value is bound")
    'flowsig': {'routines': {'w0': G([['fvget', 'f0'], EC]),
                             'w1': G([Y5, ['fvget', 'f0'], EC])},
                'fvs': ['f0'],
                'ops': [['play', 'w0'], ['play', 'w1'], ['fvsignal', 'f0'],
                        ['fvset', 'f0', 7]]},
    # audit: the waiting happens in a routine EMBEDDED in the playing one
    # (yield from inner.__embed__(inval) / embed(inner, inval)): the playing
    # routine is the one that is parked and resumed (TimeThread.thread_player)
    'nestwait': {'routines': {'w0': G([['embed', 'i0'], YX]),
                              'i0': G([['wait', 'c0'], Y5, ['wait', 'c0']]),
                              'w1': G([Y5, ['embed', 'i1', 'func'], YX]),
                              'i1': G([['wait', 'c0'], ['yield', 0]])},
                 'conds': ['c0'],
                 'ops': [['play', 'w0'], ['play', 'w1'], ['set', 'c0', True],
                         ['set', 'c0', False], ['signal', 'c0'],
                         ['unhang', 'c0']]},
    # two levels of embedding, flow variable read in the innermost routine
    'nestflow': {'routines': {'w0': G([['embed', 'i0'], EC]),
                              'i0': G([['embed', 'j0'], EC]),
                              'j0': G([['fvget', 'f0'], EC, ['fvget', 'f0'],
                                       EC])},
                 'fvs': ['f0'],
                 'ops': [['play', 'w0'], ['fvset', 'f0', 0.5],
                         ['fvsignal', 'f0'], ['fvset', 'f0', 8]]},
    # audit: falsy values bound to flow variables (0, None, False, '')
    'flowfalsy': {'routines': {'w0': G([['fvget', 'f0'], ['fvget', 'f1'],
                                        ['fvget', 'f2'], EC]),
                               'w1': G([Y5, ['fvget', 'f1'], EC,
                                        ['fvget', 'f3'], EC])},
                  'fvs': ['f0', 'f1', 'f2', 'f3'],
                  'ops': [['play', 'w0'], ['play', 'w1'], ['fvset', 'f0', 0],
                          ['fvset', 'f1', None], ['fvset', 'f2', False],
                          ['fvset', 'f3', ''], ['fvset', 'f1', 0]]},
    # audit: a parked waiter is paused / resumed
    'pausing': {'routines': {'w0': G([['wait', 'c0'], YX, ['wait', 'c0'],
                                      YX]),
                             'w1': G([Y5, ['wait', 'c0'], YX])},
                'conds': ['c0'],
                'ops': [['play', 'w0'], ['play', 'w1'], ['pause', 'w0'],
                        ['resume', 'w0'], ['next', 'w0'], ['set', 'c0', True],
                        ['set', 'c0', False], ['signal', 'c0']]},
    # a condition and a flow variable together
    'mixed': {'routines': {'w0': G([['wait', 'c0'], ['fvget', 'f0'], EC]),
                           'w1': G([['fvget', 'f0'], ['wait', 'c0'], EC])},
              'conds': ['c0'], 'fvs': ['f0'],
              'ops': [['play', 'w0'], ['play', 'w1'], ['set', 'c0', True],
                      ['signal', 'c0'], ['unhang', 'c0'],
                      ['fvset', 'f0', 7]]},
}


class CondSys:
    def __init__(self, params):
        cfg = COND_CONFIGS[params['config']]
        self.cfg = cfg
        self.resumed = 0
        self.last = None
        self.tainted = False
        if _POISON[0]:      # a foreign task was met in this process: see _step
            return
        self.w = RealWorld(cfg['routines'], cfg.get('conds', ()),
                           cfg.get('fvs', ()), cfg.get('flags', ()),
                           cfg.get('cond_init'))
        self.ref = rr.RefWorld(cfg['routines'], cfg.get('conds', ()),
                               cfg.get('fvs', ()), cfg.get('flags', ()),
                               cfg.get('cond_init'))
        self.resumed = 0
        self.last = None
        self.tainted = False

    def ops(self):
        if _POISON[0]:
            return []
        o = [list(x) for x in self.cfg['ops']]
        if not self.w.main._clock_scheduler.queue.empty():
            o.append(['step'])
        return o

    def apply(self, op):
        if _POISON[0]:
            return []
        w, ref = self.w, self.ref
        del w.log[:], w.problems[:], ref.log[:]
        dis = []
        name = op[0]
        obs = None
        parked = self._parked()
        if name == 'step':
            who, obs = _step(w, ref, dis, True)
            if obs is None:         # spurious resumption: reference stops
                self.last = ['spurious', who]
                self.tainted = True
                return dis
        else:
            t0 = w.main.main_tt._m_seconds
            try:
                if name == 'play':
                    w.routines[op[1]].play()
                    ref.r[op[1]].call(
                        'play', observed=w.routines[op[1]].state.name)
                    exp = rr.ret(None)
                elif name in ('stop', 'reset', 'pause', 'resume'):
                    getattr(w.routines[op[1]], name)()
                    ref.r[op[1]].call(name)
                    exp = rr.ret(None)
                elif name == 'next':
                    exp = ref.r[op[1]].call('next')
                    xobs, _, _ = w.invoke(op[1], 'next')
                elif name == 'set':
                    w.conds[op[1]].test = w.testval(op[2])
                    ref.set(op[1], op[2])
                    exp = rr.ret(None)
                elif name == 'flag':
                    w.flags[op[1]][0] = op[2]
                    ref.set_flag(op[1], op[2])
                    exp = rr.ret(None)
                elif name == 'fvsignal':
                    w.fvs[op[1]].condition.signal()
                    ref.fvsignal(op[1])
                    exp = rr.ret(None)
                elif name == 'signal':
                    w.conds[op[1]].signal()
                    ref.signal(op[1])
                    exp = rr.ret(None)
                elif name == 'unhang':
                    w.conds[op[1]].unhang()
                    ref.unhang(op[1])
                    exp = rr.ret(None)
                elif name == 'fvset':
                    exp = ref.fvset(op[1], op[2])
                    w.fvs[op[1]].value = op[2]
                else:
                    raise core.HarnessError(f'bad op {op}')
                obs = xobs if name == 'next' else rr.ret(None)
            except core.HarnessError:
                raise
            except Exception as e:
                obs = rr.exc(type(e).__name__)
                if name not in ('fvset', 'next'):
                    exp = rr.ret(None)
            if not rr.outcome_matches(exp, obs):
                dis.append((f'{name}-result', exp, obs, str(op)))
            dis += w.check_main(t0, str(op))
        if parked - self._parked():
            self.resumed += 1
        _cmp_common(w, ref, name, dis)
        # exactly once, never before: the wake-ups queued for every routine
        owed = {n: 0 for n in ref.pending}
        for _, n in w.queue():
            owed[n] = owed.get(n, 0) + 1
        if any(owed.get(n, 0) < v for n, v in ref.pending.items()):
            dis.append((f'wakeup-missing-after-{name}', ref.pending, owed,
                        'wake-ups queued per routine on the NRT scheduler: '
                        'a released (or playing) routine is never resumed'))
        self.last = [obs, owed]
        self.tainted = bool(dis)
        return dis

    def _parked(self):
        ref = self.ref
        return {n for c in ref.conds.values() for n in c.waiting} | \
            {n for f in ref.fvs.values() for n in f.cond.waiting}

    def key(self):
        if _POISON[0]:
            return ['poisoned']
        return [self.ref.snapshot(), self.w.implkey(), min(self.resumed, 1),
                self.tainted]

    def nontrivial(self):
        # at least one parked routine was released by signal / unhang /
        # value assignment (from the main thread or from a routine)
        return self.resumed >= 1

    def outcome(self):
        return self.last


SYSTEMS = {'life': LifeSys, 'cond': CondSys}


def stopped_or_reset_while_parked(v):
    """Known finding C11-condition-stale-registration: the resumed routine was
    stopped or reset (operation in the history) while it was parked, and the
    reference says the wake-up comes from that stale registration."""
    case = v.get('case', {})
    if case.get('system') != 'cond':
        return False
    obs = v.get('observed')
    if not (isinstance(obs, dict) and obs.get('stale_registration') is True):
        return False
    return any(op[0] in ('stop', 'reset') for op in case.get('history', []))


PREDICATES = {'stopped_or_reset_while_parked': stopped_or_reset_while_parked}


# ---------------------------------------------------------------------------
# RT: two waiters on different clocks, signal from a third thread
# ---------------------------------------------------------------------------

CLOCKS = {'s': ['system'], 't': ['tempo', 2.0], 'a': ['app'],
          'u': ['tempo', 1.0]}
WAITER = [['wait', 'c0'], ['yieldv', 'x'], ['yieldv', 'y']]
LATE_WAITER = [['yield', 0.25], ['wait', 'c0'], ['yieldv', 'x'],
               ['yieldv', 'y']]


def rt_programs():
    out = []

    def prog(c0, c1, w1, actors, routines=None, third=None):
        cl = {'s': CLOCKS['s'], c0: CLOCKS[c0], c1: CLOCKS[c1]}
        if third:
            cl[third] = CLOCKS[third]
        rts = {'w0': WAITER, 'w1': w1}
        rts.update(routines or {})
        main = [['play', 'w0', c0, 0], ['play', 'w1', c1, 0]]
        a = dict(actors)
        a['main'] = main + a.get('main', [])
        return {'clocks': cl, 'conds': ['c0'], 'routines': rts,
                'actors': a, 'horizon': 3.0}

    SIG = [['set', 'c0', True], ['mark'], ['signal', 'c0'], ['mark']]
    for c0, c1 in (('s', 't'), ('s', 'a'), ('t', 'a'), ('t', 'u')):
        # signal racing with the start of the waiters
        out.append(('sig-now', 'signal', prog(c0, c1, WAITER, {'X': SIG})))
        # signal when both are parked
        out.append(('sig-parked', 'signal', prog(
            c0, c1, WAITER, {'X': [['sleep', 0.5]] + SIG})))
        # the second waiter reaches the condition at the signalling instant
        out.append(('sig-same-instant', 'signal', prog(
            c0, c1, LATE_WAITER, {'X': [['sleep', 0.25]] + SIG})))
        # signalled twice
        out.append(('sig-twice', 'signal', prog(
            c0, c1, WAITER, {'X': [['sleep', 0.5], ['set', 'c0', True],
                                   ['mark'], ['signal', 'c0'],
                                   ['signal', 'c0'], ['mark']]})))
        # unhang, parked and at the same instant
        out.append(('unhang-parked', 'unhang', prog(
            c0, c1, WAITER, {'X': [['sleep', 0.5], ['mark'],
                                   ['unhang', 'c0'], ['mark']]})))
        out.append(('unhang-same-instant', 'unhang', prog(
            c0, c1, LATE_WAITER, {'X': [['sleep', 0.25], ['mark'],
                                        ['unhang', 'c0'], ['mark']]})))
    # two signalling threads
    out.append(('sig-two-threads', 'signal', prog(
        's', 't', WAITER, {'X': [['sleep', 0.5]] + SIG,
                           'Y': [['sleep', 0.5], ['signal', 'c0'],
                                 ['signal', 'c0']]})))
    # signal from a routine on a third clock
    for c0, c1, c2 in (('s', 't', 'a'), ('t', 'a', 's'), ('t', 'u', 's')):
        out.append(('sig-routine', 'signal', prog(
            c0, c1, WAITER, {'main': [['play', 'X', c2, 0]]},
            routines={'X': [['yield', 0.5]] + SIG}, third=c2)))
        out.append(('sig-routine-now', 'signal', prog(
            c0, c1, LATE_WAITER, {'main': [['play', 'X', c2, 0]]},
            routines={'X': [['yield', 0.25]] + SIG}, third=c2)))
    return out


def check_rt(prog, how, res):
    dis = []

    def bad(kind, exp, obs, detail=''):
        dis.append((kind, exp, obs, detail))

    if res['status'] != 'ok':
        bad('rt-' + res['status'], 'the execution completes', res['detail'])
        return dis
    for name, e in res['dead']:
        bad('rt-thread-died', 'no uncaught exception', [name, e])
    for kind, d in res['finish_problems']:
        bad('rt-' + kind, 'clocks stop', d)
    trace = res['trace']
    for e in trace:
        if e[0] == 'raises':
            bad('rt-api-call-raises', 'no exception', e[1:])
    marks = [i for i, e in enumerate(trace) if e[0] == 'mark']
    if len(marks) != 2:
        bad('rt-signaller-did-not-run', 2, len(marks),
            'the signalling thread / routine marks before and after')
        return dis
    before_sig, after_sig = marks
    for w in ('w0', 'w1'):
        r = [(i, e[2]) for i, e in enumerate(trace)
             if e[0] == 'res' and e[1] == w]
        ks = [k for _, k in r]
        # the resumption that starts the body and performs wait()
        wait_at = None
        nwait = 2 if prog['routines'][w][0][0] == 'yield' else 1
        if len(r) >= nwait:
            wait_at = r[nwait - 1][0]
        if wait_at is None:
            bad('rt-waiter-never-started', 'started', ks, w)
            continue
        passed = [i for i, k in r if k >= nwait]
        for i in passed[:1]:
            if i < before_sig:
                bad('rt-resumed-before-signal', f'after trace index '
                    f'{before_sig}', i, f'{w} passed wait() before the '
                    'condition was set / unhung')
        if how == 'signal' or wait_at < before_sig:
            want = [1]
        elif wait_at > after_sig:
            want = [0]
        else:
            want = [0, 1]       # unhang concurrent with wait(): undecided
        if len(passed) not in want:
            bad('rt-resumed-not-once' if len(passed) > 1 else
                'rt-waiter-not-resumed', want, len(passed),
                f'{w}: resumptions after wait(): {ks}')
    for q, lst in res['pending'].items():
        names = [n for _, n in lst if n in ('w0', 'w1')]
        if names:
            bad('rt-waiter-left-in-queue', [], names, q)
    return dis


def run_rt(prog, prefix):
    """rtprog.run_rt with one more statement, ['mark']: a trace event written
    without any synchronisation operation, so that it is atomic with the
    statement before it (rtprog's 'log' reads the logical time, which takes
    the main lock in RT).  Implemented here (not in the shared rtprog) by
    running rtprog.run_rt with a subclass of its interpreter."""
    from mc import rtprog
    base = rtprog.Run

    class MarkRun(base):
        def do(self, st, who, clock=None):
            if st[0] == 'mark':
                self.ev('mark', who)
                return
            return base.do(self, st, who, clock)
    rtprog.Run = MarkRun
    try:
        return rtprog.run_rt(prog, prefix, lateness_menu=[0.0])
    finally:
        rtprog.Run = base


def work_rt(job):
    from mc.engines import schedx
    acc = progenum.Acc(max_samples=1)
    name, how, prog = job['name'], job['how'], job['prog']

    def run(prefix):
        return run_rt(prog, prefix)

    def on_result(choices, points, res):
        pre, late = schedx.cost_of(points, choices)
        case = {'name': name, 'how': how, 'prog': prog,
                'choices': list(choices)}
        found = check_rt(prog, how, res)
        bad[0] += bool(found)
        for kind, exp, obs, detail in found:
            acc.violation(kind, case, exp, obs, detail,
                          size=(pre + late) * 100000 + len(choices) * 100 +
                          len(core.canon(prog)) // 10)
        order = [e[:3] for e in res['trace'] if e[0] in ('res', 'mark')]
        acc.case(case, (pre + late) > 0 or 'same-instant' in name
                 or name.endswith('-now'), order, steps=res['steps'])
        if bad[0] >= 25:
            # enough violating schedules of this program: a library that
            # leaks state from one execution into the next can make the
            # schedule tree grow without bound (reported as capped)
            return 'stop'
    bad = [0]
    r = schedx.explore(run, job['max_pre'], job['max_late'], on_result,
                       max_exec=job.get('max_exec'))
    acc.count('rt_executions', r['executions'])
    if r['capped']:
        acc.extra['rt_capped'] = [name]
    return acc.result()


# ---------------------------------------------------------------------------

def replay(job):
    case = job['case']
    if 'prog' in case:
        _, ch, res = run_rt(case['prog'], case['choices'])
        dis = check_rt(case['prog'], case['how'], res)
        return {'violates': any(d[0] == job['kind'] for d in dis),
                'disagreements': [[d[0], repr(d[1])[:300], repr(d[2])[:300]]
                                  for d in dis],
                'choices': ch, 'trace': res['trace']}
    return histbfs.replay(job)


STANDALONE = '''\
# Reproduces one C11 history with sc3 only: prints result / exception class of
# every operation, Routine.state and main.current_tt afterwards.
import json
import sc3
sc3.init('nrt', verbosity='CRITICAL')
from sc3.base.main import main
from sc3.base import stream as stm
from sc3.base.stream import Routine, routine, YieldAndReset, AlwaysYield
from sc3.base.clock import TempoClock, AppClock

HISTORY = json.loads(%r)
body = HISTORY[0][1]
R, runs = {}, {}
XCLOCK = {'tempo': lambda: (TempoClock(2.0), 1),
          'app': lambda: (AppClock, None)}.get(body.get('clk'), tuple)()


class Abort(BaseException):
    pass


def call(tgt, meth, *a):
    try:
        if meth == '__next__':
            return ['ret', next(iter(R[tgt]))]
        return ['ret', getattr(R[tgt], meth)(*a)]
    except (Exception, Abort) as e:
        return ['exc', type(e).__name__, e]


def act(name, a, last):
    if a[0] == 'raise':
        if a[1] in ('StopStream', 'PausedStream'):
            raise getattr(stm, a[1])
        raise {'ValueError': ValueError, 'KeyError': KeyError,
               'Abort': Abort}[a[1]]('body')
    if a[0] == 'yar':
        raise YieldAndReset(a[1])
    if a[0] == 'ay':
        raise AlwaysYield(a[1])
    tgt = name if a[1] == 'self' else a[1]
    out = call(tgt, a[2])
    print('   in', name, ':', tgt + '.' + a[2] + '()', out[:2],
          '| current_tt is', main.current_tt)
    if out[0] == 'exc' and a[3] == 'p':
        raise out[2]
    return out[1] if out[0] == 'ret' and a[2] == 'next' else last


def script(name, spec):
    k = runs.get(name, 0)
    runs[name] = k + 1
    return spec['runs'][min(k, len(spec['runs']) - 1)]


def make(name, spec):
    def gen(inval=None):
        last = inval
        for a in script(name, spec):
            if a[0] == 'yield':
                last = yield a[1]
            elif a[0] == 'echo':
                last = yield last
            elif a[0] == 'return':
                return
            elif a[0] == 'embed':
                if len(a) > 2:
                    last = yield from stm.embed(R[a[1]], last)
                else:
                    last = yield from R[a[1]].__embed__(last)
            else:
                last = act(name, a, last)

    def fn(inval=None):
        last = inval
        for a in script(name, spec):
            last = act(name, a, last)
    if spec['kind'] == 'gen':
        return (lambda inval: (yield from gen(inval))) if spec.get('param') \\
            else (lambda: (yield from gen()))
    return (lambda inval: fn(inval)) if spec.get('param') else (lambda: fn())


for name in ('outer', 'inner', 'third'):
    if name in body:
        f = make(name, body[name])
        ctor = body.get('ctor') if name == 'outer' else None
        R[name] = {'decorator': routine,
                   'run': lambda f: Routine.run(f, *XCLOCK),
                   'drun': lambda f: routine.run(*XCLOCK)(f)}.get(
                       ctor, Routine)(f)
for op in HISTORY[1:]:
    if op[0] == 'step':
        q = main._clock_scheduler.queue
        t, ct = q.pop()
        try:
            ct._wakeup(t)
        except Abort:
            pass
        out = 'one scheduler task run'
    else:
        tgt, meth, a = {'next': ('outer', 'next', ()),
                        'send': ('outer', 'next', tuple(op[1:])),
                        'play': ('outer', 'play', XCLOCK),
                        'resume': ('outer', 'resume', XCLOCK),
                        'inext': ('inner', 'next', ()),
                        'istop': ('inner', 'stop', ()),
                        'ireset': ('inner', 'reset', ()),
                        'ipause': ('inner', 'pause', ()),
                        'iresume': ('inner', 'resume', ())}.get(
                            op[0], ('outer', op[0], ()))
        if op[0] == 'next' and body.get('iter'):
            meth = '__next__'
        out = call(tgt, meth, *a)[:2]
    print(op, '->', out, {n: r.state.name for n, r in R.items()},
          'current_tt is main_tt:', main.current_tt is main.main_tt)
    main.current_tt = main.main_tt
'''


def _standalone(v):
    case = v['case']
    if case.get('system') != 'life':
        return None
    import json
    return STANDALONE % json.dumps(case['history'])


def bfs(ctx, system, params, depth, label, batch=24):
    """histbfs.run with a deterministic representative per state: among the
    histories of one level that reach the same key the canonically smallest
    one is kept (the shared engine keeps the first to arrive, which depends
    on worker timing; counts and replay files would vary between runs).
    Workers still execute mc.engines.histbfs.expand."""
    seen = {'<root>'}
    frontier = [[]]
    states = 1
    per_level = []
    completed = 0
    for level in range(1, depth + 1):
        if not frontier:
            completed = depth
            break
        order = core.shard_order(len(frontier), ctx.seed + level)
        fr = [frontier[i] for i in order]
        jobs = [{'module': MODNAME, 'system': system, 'params': params,
                 'hists': fr[i:i + batch]} for i in range(0, len(fr), batch)]
        best = {}
        ntr = 0
        for res in ctx.map('nrt', 'mc.engines.histbfs', 'expand', jobs):
            ntr += res['tr']
            ctx.violation_count += res['nviol'] - len(res['viol'])
            for v in res['viol']:
                v['case']['module'] = MODNAME
                v['standalone'] = _standalone(v)
                ctx.violation(v)
            for o in res['out']:
                ctx.outcomes.add(o)
            for h2, k, nt, ok in res['children']:
                if k in seen:
                    continue
                c = core.canon(h2)
                b = best.get(k)
                if b is None or c < b[0]:
                    best[k] = (c, h2, nt, ok)
        nxt = []
        for k in best:
            seen.add(k)
        for c, h2, nt, ok in sorted(best.values(), key=lambda x: x[0]):
            states += 1
            if nt:
                ctx.nontrivial += 1
                if len(ctx.samples) < 4 and level >= min(depth, 4):
                    ctx.samples.append({'system': system, 'params': params,
                                        'history': h2})
            if ok:
                nxt.append(h2)
        ctx.transitions += ntr
        ctx.evaluations += ntr
        ctx.traces += ntr
        per_level.append({'depth': level, 'frontier_in': len(frontier),
                          'transitions': ntr, 'new_states': len(best)})
        frontier = nxt
        completed = level
    ctx.states += states
    ctx.bounds[label] = {'depth_completed': completed, 'states': states,
                         'levels': per_level,
                         'space_closed': not frontier}
    return states


def main(ctx):
    ctx.rule = (
        'life: E2 BFS over histories [choose body, then <= D operations of '
        'next / next(3) / pause / resume / stop / reset / play / inner.next '
        '(thorough: inner.stop, inner.reset) / one NRT scheduler step] on a '
        'real Routine whose body interprets a data script (<= 3 actions of '
        'yield 0.5 / yield "x" / echo / return / raise / YieldAndReset / '
        'AlwaysYield / self.stop|pause|reset|next / inner.next with 3-8 '
        'inner bodies, some calling back outer.stop|next|pause|reset; bodies '
        'scripted per run; plain function bodies); after every call (also '
        'the failing ones and those made inside bodies) result or exception '
        'class, Routine.state of every routine, main.current_tt and the '
        'caller\'s logical time are compared with '
        'mc/oracles/routine_ref.py. life/audit sets (same operations, own '
        'BFS): bodies over falsy / None values (yield 0|None|False, '
        'AlwaysYield(0|None), YieldAndReset(0|None), next(0)), failures that '
        'are not Exceptions, hand-raised StopStream / PausedStream / '
        'KeyError, self.play|resume and inner.stop|pause|resume|reset|play '
        'from bodies, yield from inner.__embed__(v) / embed(inner, v) of 11 '
        'inner bodies, three levels of nesting with call-backs, routines '
        'made by routine(f) / Routine.run(f) / routine.run()(f), builtin '
        'next(r), play / resume with an explicit TempoClock + quant or '
        'AppClock; additionally every wake-up owed by play / resume / a '
        'numeric yield on the clock must be queued on the NRT scheduler. '
        'cond: E2 BFS over play / test=True|False '
        '/ test=callable reading a flag / flag flips / signal / unhang / '
        'value=v / value=w / flowvar.condition.signal() / stop / reset / '
        'scheduler step with 1-3 routines waiting on Condition (bool or '
        'callable test) / FlowVar (also signalling from inside routines; '
        'waiting inside routines embedded 1-2 levels deep in the playing '
        'one; flow variables bound to 0 / None / False / ""; parked waiters '
        'paused, resumed and stepped with next() from outside): '
        'every wake-up result equals the '
        'reference, a wake-up that nobody owes must not run a body, an owed '
        'wake-up must be queued. rt: 31 programs with two waiters '
        'on different clocks and a signalling thread / routine on a third, '
        'every schedule with <= 1 (quick) / <= 2 (thorough) preemptions. '
        'States deduplicated on '
        '(reference state, Routine attributes, generator position, '
        'scheduler queue relative to now). Non-trivial = the routine changed '
        'life-cycle state at least twice (life), a parked routine was '
        'released (cond), >= 1 preemption or a same-instant race (rt).')
    ctx.assumptions += [
        'reference state machine mc/oracles/routine_ref.py written from the '
        'docstrings of sc3/base/stream.py, docs/guides/routine.rst and the '
        'statement; PEP 479 (StopIteration subclasses escaping a generator '
        'body become RuntimeError) is part of it',
        'don\'t-cares: play() on a paused routine (either stays paused or '
        'resumes), exception class of a re-entrant next() (an exception is '
        'required), which queued task the NRT scheduler pops next (the '
        'implementation\'s queue is followed), extra queue entries that '
        'cannot run a body (routine Done / Paused), the logical time at '
        'which a released waiter resumes, which clock object a routine is '
        'scheduled on / receives as (routine, clock)',
        'a body failure that is not an Exception is the private class '
        'mc.checks.c11._Abort(BaseException); the scheduler step absorbs it '
        '(ClockTask._wakeup only absorbs Exception)',
        'one scheduler step = the library\'s ClockScheduler.run() with its '
        'queue wrapped so that it reports empty after one pop; '
        '__awake__ results are observed by an instance-level wrapper that '
        'delegates to Routine.__awake__',
        'rt: interleavings at synchronisation operations only '
        '(mc/vthreading.py), no lateness deviations']
    quick = ctx.tier == 'quick'
    ctx.extra['life_bodies_quick_set'] = len(life_bodies('quick'))
    ctx.extra['life_bodies_audit_quick_set'] = len(life_bodies('audit-quick'))
    if quick:
        bfs(ctx, 'life', {'set': 'quick'}, 1 + 8,
            'life: quick body set + <= 8 operations')
        bfs(ctx, 'life', {'set': 'audit-quick'}, 1 + 6,
            'life: audit body set (quick) + <= 6 operations')
    else:
        ctx.extra['life_bodies_audit_thorough_set'] = \
            len(life_bodies('audit-thorough'))
        bfs(ctx, 'life', {'set': 'audit-quick'}, 1 + 8,
            'life: audit body set (quick) + <= 8 operations')
        bfs(ctx, 'life', {'set': 'audit-thorough'}, 1 + 5,
            'life: audit body set (thorough) + <= 5 operations')
        ctx.extra['life_bodies_thorough_set'] = len(life_bodies('thorough'))
        bfs(ctx, 'life', {'set': 'quick'}, 1 + 10,
            'life: quick body set + <= 10 operations')
        bfs(ctx, 'life', {'set': 'thorough'}, 1 + 5,
            'life: thorough body set + <= 5 operations')
    for cfg in sorted(COND_CONFIGS):
        bfs(ctx, 'cond', {'config': cfg}, 12 if quick else 24,
            f'cond:{cfg}', batch=8)
    progs = rt_programs()
    ctx.extra['rt_programs'] = len(progs)
    if quick:
        # audit: the RT half also runs in the quick tier, one preemption
        jobs = [{'name': n, 'how': h, 'prog': p, 'max_pre': 1, 'max_late': 0}
                for n, h, p in progs]
        progenum.run(ctx, MODNAME, 'work_rt', jobs, mode='rt',
                     bound='rt: <= 1 preemption')
    else:
        # the program with two signalling threads waking at the same instant
        # has ~30 times more schedules: one preemption there
        jobs = [{'name': n, 'how': h, 'prog': p,
                 'max_pre': 1 if n == 'sig-two-threads' else 2, 'max_late': 0}
                for n, h, p in progs]
        progenum.run(ctx, MODNAME, 'work_rt', jobs, mode='rt',
                     bound='rt: <= 2 preemptions (two signalling threads: <= 1)')
