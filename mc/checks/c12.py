"""C12 - TempoClock time arithmetic and quantisation are consistent.

E1 (grid): every (tempo, meter change, reference beat, quant, phase, number
type) of a small grid is driven through a real TempoClock from a routine
running on that clock in NRT mode; next_time_on_grid / play(quant) / the
beat<->second and bar<->beat conversions are compared with exact rational
reference semantics (mc/oracles/tempo_ref.py).  A second, small grid uses
values off the quarter grid (tolerance rules only).

E1b (offref): explicit reference beats queried while the clock stands at
another beat.

E1c (forms): every public route to a quantised play (Routine.play / run /
resume, TempoClock.play of functions and routines, event patterns,
play_next_bar, sched, sched_abs) x every form of the quant argument, asked
by the routine on the clock, by the main thread, by a routine on SystemClock
or on another TempoClock, on clocks constructed with beats / seconds
arguments.

E2 (histories): breadth-first search over all histories of {tempo=, etempo(),
beats=, beats_per_bar=, yield d} executed by one routine on the clock; after
every operation the (beats, seconds) pair, the conversions, the bar lines and
the quantisation grid are compared with the reference.  A second history
system adds quantised play() / sched() of probes that are still pending while
the map is changed, a third one a second routine or function ("player") that
resumes every delta beats on the clock while the first routine changes the
map.

Every family also runs in RT-virtual mode (mc/seams.py: the real clock
threads under a cooperative scheduler and virtual time, default schedule)
with all timers on time and with all timed wake-ups 2**-10 s late.

A case is plain JSON; the whole program is re-executed from `main.reset()`
(NRT) or a fresh seams.Execution (RT) and a fresh TempoClock for every
evaluation (clocks live only inside `execute`; TempoClock._all is a WeakSet
and is asserted empty afterwards)."""

import gc
import re
from fractions import Fraction as F

from mc import core
from mc.engines import progenum, histbfs
from mc.oracles import tempo_ref as ref

MODE = 'nrt'
MODNAME = 'mc.checks.c12'
TOL = F(1, 10 ** 9)
WAKE_LIMIT = 400       # scheduler wake-ups allowed per program


# ---------------------------------------------------------------------------
# Worker side: run one program on the real library

def _g(f, *a):
    try:
        return f(*a)
    except Exception as e:          # observable as such
        return ['!', type(e).__name__, str(e)[:80]]


RT_HORIZON = 4096.0    # virtual seconds an RT execution is given to finish
QUANT_FORMS = ('auto', 'num', 'quant', 'quant1', 'kw', 'tuple', 'list',
               'list1', 'none')
QUANT_ENTRIES = ('rplay', 'rplaykw', 'cplayf', 'cplayr', 'inherit', 'run',
                 'deco', 'resume', 'pattern')
OTHER_ENTRIES = ('next_bar', 'sched', 'sched_abs')


def mk_quant(q, ph, form, Quant):
    """The `quant` argument for (quant q, phase ph) in one of the forms
    Quant.as_quant accepts."""
    if form == 'auto':
        return q if ph == 0 else Quant(q, ph)
    if form == 'quant':
        return Quant(q, ph)
    if form == 'kw':
        return Quant(quant=q, phase=ph)
    if form == 'tuple':
        return (q, ph)
    if form == 'list':
        return [q, ph]
    if ph != 0:
        raise core.HarnessError(f'form {form} needs phase 0')
    if form == 'num':
        return q
    if form == 'quant1':
        return Quant(q)
    if form == 'list1':
        return [q]
    if form == 'none':
        return None
    raise core.HarnessError(f'bad quant form {form}')


def _late_chooser():
    """Every timed wake-up of the run is late by the first non-zero entry of
    the lateness menu; all other choices are the default."""
    from mc import vthreading as vt

    class Late(vt.Chooser):
        def choose(self, kind, n, preemptive):
            c = 1 if kind == 'late' and n > 1 else 0
            self.points.append((kind, n, preemptive))
            self.choices.append(c)
            return c
    return Late(())


def execute(prog):
    """Run `prog` on a fresh TempoClock and return the observation log
    (plain data).  NRT mode unless prog['rt'] is 'rt' (RT-virtual mode,
    every timer on time) or 'late' (RT-virtual, every timed wake-up late by
    2**-10 s).

    prog = {'tempo': T0, 'ops': [op...], 'final': {...},
            'ctor': [beats|None, seconds|None] | absent,
            'host': {'kind': 'main'|'system'|'tempo', 'at': seconds} | absent,
            'player': {'delta': d, 'count': n, 'kind': 'routine'|'func'}
                      | absent,
            'rt': 'rt' | 'late' | absent}
    op   = ['yield', d] | ['tempo', v] | ['etempo', v] | ['beats', v] |
           ['bpb', v] | ['spawn', q, ph] | ['spawn', q, ph, entry, form]
    final = {'conv_beats': [...], 'conv_secs': [...], 'bar_beats': [...],
             'bars': [...], 'ntog': [[q, ph, ref|None(, form)]...],
             'play': [[q, ph(, entry, form)]...]}
    The ops are performed by a routine on the clock.  The final queries and
    plays are made by that routine after its last operation or, with a
    host, at second `at` by the main thread / a routine on SystemClock / a
    routine on another TempoClock (tempo 2).
    """
    from sc3.base.main import main
    from sc3.base.clock import TempoClock, Quant, SystemClock
    from sc3.base.stream import Routine, routine

    rt = prog.get('rt')
    if (core._worker_mode == 'rt') != bool(rt):
        raise core.HarnessError(
            f'program mode {rt!r} in a worker of mode {core._worker_mode!r}')
    log = {'steps': [], 'spawned': {}, 'final': None, 'wakes': {},
           'wakes2': {}, 'budget': False, 'events': []}
    player = prog.get('player')
    host = prog.get('host')
    ops = prog['ops']
    fin = prog.get('final') or {}
    cargs = [prog['tempo']] + list(prog.get('ctor') or ())
    other = None
    if rt:
        from mc import seams, vthreading as vt
        ex = seams.Execution(prefix=[])
        clock = ex.new_tempo_clock(*cargs)
        clock._thread.name = 'TempoClock-t'
        seams._settle()
        if host and host['kind'] == 'tempo':
            other = ex.new_tempo_clock(2.0)
            other._thread.name = 'TempoClock-o'
            seams._settle()
        if rt == 'late':
            ex.chooser = vt.SCHED.chooser = _late_chooser()
    else:
        main.reset()
        clock = TempoClock(*cargs)
        if host and host['kind'] == 'tempo':
            other = TempoClock(2.0)
    wake_count = [0]

    def rd(c):
        return [_g(lambda: c.beats), _g(lambda: c.seconds)]

    def as_q(q, ph, form='auto'):
        return mk_quant(q, ph, form, Quant)

    def mk_probe(tag, c, redelta=None):
        def probe():
            wake_count[0] += 1
            if wake_count[0] > WAKE_LIMIT:      # deterministic step budget
                log['budget'] = True
                raise RuntimeError('wake budget exceeded')
            if tag not in log['wakes']:
                log['wakes'][tag] = rd(c)
                return redelta
            if tag not in log['wakes2']:
                log['wakes2'][tag] = rd(c)
        return probe

    def do_play(tag, c, q, ph, entry='rplay', form='auto'):
        if entry in OTHER_ENTRIES:
            if entry == 'next_bar':
                c.play_next_bar(mk_probe(tag, c))
            elif entry == 'sched':
                # a plain function scheduled `q` beats from now; it returns
                # `ph` once (ph > 0), so it is called again ph beats later
                c.sched(q, mk_probe(tag, c, ph if ph > 0 else None))
            else:
                c.sched_abs(c.beats + q, mk_probe(tag, c))
            return
        f = mk_probe(tag, c)
        Q = as_q(q, ph, form)
        if entry == 'rplay':
            Routine(f).play(c, Q)
        elif entry == 'rplaykw':
            Routine(f).play(clock=c, quant=Q)
        elif entry == 'cplayf':
            c.play(f, Q)
        elif entry == 'cplayr':
            c.play(Routine(f), Q)
        elif entry == 'inherit':
            Routine(f).play(None, Q)
        elif entry == 'run':
            Routine.run(f, c, Q)
        elif entry == 'deco':
            routine.run(c, Q)(f)
        elif entry == 'resume':
            r = Routine(f)
            r.pause()
            r.resume(c, Q)
        elif entry == 'pattern':
            # an event pattern (one rest event) played with the quant: its
            # first event is evaluated at the quantised beat
            from sc3.seq.patterns.eventpatterns import Pbind
            from sc3.seq.patterns.funcpatterns import Pfuncn

            def dur():
                f()
                return 1
            Pbind({'type': 'rest', 'dur': Pfuncn(dur, 1)}).play(c, Q)
        else:
            raise core.HarnessError(f'bad play entry {entry}')

    def player_step(c, k):
        wake_count[0] += 1
        if wake_count[0] > WAKE_LIMIT:
            log['budget'] = True
            return False
        log['events'].append(['p', k] + rd(c))
        return k < player['count']

    def player_fn(inval):
        # second routine on the same clock: resumes every `delta` beats
        # while the first routine performs the history
        _, c = inval
        k = 0
        while player_step(c, k):
            k += 1
            yield player['delta']

    def mk_player_func(c):
        # the same as a plain function that returns its delta
        k = [0]

        def fplayer():
            if player_step(c, k[0]):
                k[0] += 1
                return player['delta']
        return fplayer

    def snapshot(c):
        s = {}
        s['pair'] = rd(c)
        s['tempo'] = _g(lambda: c.tempo)
        s['beat_dur'] = _g(lambda: c.beat_dur)
        s['elapsed_beats'] = _g(c.elapsed_beats)
        s['bpb'] = _g(lambda: c.beats_per_bar)
        s['bbb'] = _g(lambda: c.base_bar_beat)
        s['base_bar'] = _g(lambda: c.base_bar)
        s['b2s_now'] = _g(lambda: c.beats2secs(c.beats))
        s['s2b_now'] = _g(lambda: c.secs2beats(c.seconds))
        s['conv_beats'] = [
            [x, _g(c.beats2secs, x),
             _g(lambda: c.secs2beats(c.beats2secs(x)))]
            for x in fin.get('conv_beats', ())]
        s['conv_secs'] = [
            [x, _g(c.secs2beats, x),
             _g(lambda: c.beats2secs(c.secs2beats(x)))]
            for x in fin.get('conv_secs', ())]
        s['bar_beats'] = [
            [x, _g(c.beats2bars, x),
             _g(lambda: c.bars2beats(c.beats2bars(x))), _g(c.next_bar, x)]
            for x in fin.get('bar_beats', ())]
        s['bars'] = [
            [k, _g(c.bars2beats, k),
             _g(lambda: c.beats2bars(c.bars2beats(k)))]
            for k in fin.get('bars', ())]
        s['next_bar'] = _g(c.next_bar)
        s['bar'] = _g(c.bar)
        s['beat_in_bar'] = _g(c.beat_in_bar)
        s['bar_start'] = _g(lambda: c.bars2beats(c.bar()))
        s['ntog'] = []
        for item in fin.get('ntog', ()):
            q, ph, rb = item[:3]
            form = item[3] if len(item) > 3 else 'auto'
            if rb is None:
                r = _g(c.next_time_on_grid, q, ph)
                t = _g(lambda: c.time_to_next_beat(as_q(q, ph, form)))
            else:
                r = _g(c.next_time_on_grid, q, ph, rb)
                t = None
            s['ntog'].append([q, ph, rb, r, t])
        s['pair_after'] = rd(c)     # queries must not move the clock
        s['impl'] = [repr(getattr(c, a, '?')) for a in (
            '_tempo', '_beat_dur', '_base_seconds', '_base_beats',
            '_beats_per_bar', '_bars_per_beat', '_base_bar',
            '_base_bar_beat')]
        return s

    def tail(c):
        log['final'] = snapshot(c)
        for j, item in enumerate(fin.get('play', ())):
            try:
                do_play(f'p{j}', c, *item)
            except core.HarnessError:
                raise
            except Exception as e:
                log['wakes'][f'p{j}'] = ['!', type(e).__name__, str(e)[:80]]

    def body(inval):
        rout, c = inval
        log['start'] = rd(c)
        if player:
            if player.get('kind') == 'func':
                c.sched(0, mk_player_func(c))
            else:
                Routine(player_fn).play(c, 0)
        for i, op in enumerate(ops):
            wake_count[0] += 1
            if wake_count[0] > WAKE_LIMIT:
                log['budget'] = True
                return
            k = op[0]
            pre = rd(c)
            err = None
            try:
                if k == 'yield':
                    yield op[1]
                elif k == 'tempo':
                    c.tempo = op[1]
                elif k == 'etempo':
                    c.etempo(op[1])
                elif k == 'beats':
                    c.beats = op[1]
                elif k == 'bpb':
                    c.beats_per_bar = op[1]
                elif k == 'spawn':
                    tag = f's{i}'
                    log['spawned'][tag] = [
                        i, _g(c.next_time_on_grid, op[1], op[2])]
                    do_play(tag, c, *op[1:])
                else:
                    raise core.HarnessError(f'bad op {op}')
            except core.HarnessError:
                raise
            except Exception as e:
                err = [type(e).__name__, str(e)[:80]]
            log['steps'].append([i, pre, rd(c), err])
            log['events'].append(['c', i])
        log['body_done'] = True
        if not host:
            tail(c)

    def host_fn():
        if host['kind'] == 'tempo':
            yield host['at'] * 2.0
        else:
            yield host['at']
        log['host_pair'] = rd(clock)
        tail(clock)

    r = Routine(body)
    hr = None
    herr = []
    try:
        if prog.get('ctor') is not None:
            log['ctor_pair'] = rd(clock)
        r.play(clock, 0)
        if host and host['kind'] != 'main':
            hr = Routine(host_fn)
            hr.play(SystemClock if host['kind'] == 'system' else other, 0)
        if rt:
            S = vt.SCHED
            try:
                if host and host['kind'] == 'main':
                    S.sleep(host['at'], exact=True)
                    log['host_pair'] = rd(clock)
                    tail(clock)
                S.sleep(RT_HORIZON, exact=True)
            except (vt.Deadlock, vt.Livelock) as e:
                log['process_error'] = [type(e).__name__, str(e)[:120]]
                S.deadlock = S.livelock = None
        else:
            if host and host['kind'] == 'main':
                # NRT: the main thread stands at the time of the last event
                # that was processed
                SystemClock.sched(host['at'], lambda: None)
                main.process()
                log['host_pair'] = rd(clock)
                tail(clock)
            main.process()
    except core.HarnessError:
        herr.append(True)
        raise
    except Exception as e:
        log['process_error'] = [type(e).__name__, str(e)[:120]]
    finally:
        if rt:
            dead = [list(map(str, d)) for d in vt.SCHED.dead]
            try:
                problems = ex.finish()
            except Exception as e:
                if not herr:
                    raise core.HarnessError(f'RT teardown failed: {e!r}')
                problems = []
            if dead or problems:
                log['rt_problems'] = [dead, [list(map(str, p))
                                             for p in problems]]
        else:
            main.reset()
    del r, hr, clock, other, body, snapshot, mk_probe, player_fn, tail, \
        host_fn, do_play, mk_player_func
    log['leaked_clocks'] = len(TempoClock.all)
    if log['leaked_clocks']:
        gc.collect()
        log['leaked_clocks'] = len(TempoClock.all)
    return log


# ---------------------------------------------------------------------------
# The oracle: walk the same program over the exact reference

def _num(x):
    return isinstance(x, (int, float)) and not isinstance(x, bool) \
        and x == x and x not in (float('inf'), float('-inf'))


def _short(x):
    """A dyadic rational with few bits (every float is dyadic): sums,
    differences and products by powers of two of a handful of such values
    are exact in double precision."""
    x = ref.frac(x)
    return ref.is_dyadic(x) and x.denominator <= 2 ** 12 and abs(x) < 2 ** 12


class Judge:
    def __init__(self, prog):
        self.prog = prog
        self.dis = []         # (kind, expected, observed, detail, step)
        nums = [prog['tempo']]
        for op in prog['ops']:
            nums += [x for x in op[1:] if not isinstance(x, str)]
        if prog.get('player'):
            nums.append(prog['player']['delta'])
        nums += [x for x in (prog.get('ctor') or ()) if x is not None]
        if prog.get('host'):
            nums.append(prog['host']['at'])
        self.rt = prog.get('rt')
        self.tempos = [prog['tempo']] + [op[1] for op in prog['ops']
                                         if op[0] in ('tempo', 'etempo')]
        self.exact = all(ref.is_pow2(t) for t in self.tempos) and \
            all(_short(n) for n in nums)

    # -- comparison helpers
    def close(self, obs, exp, exact=None):
        if not (isinstance(obs, F) or _num(obs)):
            return False
        if self.exact if exact is None else exact:
            return F(obs) == exp
        return abs(F(obs) - exp) <= TOL

    def add(self, kind, exp, obs, detail, step):
        self.dis.append((kind, _show(exp), _show(obs), detail, step))

    def pair(self, kind, obs, B, S, detail, step):
        if not (isinstance(obs, list) and len(obs) == 2 and
                self.close(obs[0], B) and self.close(obs[1], S)):
            self.add(kind, [B, S], obs, detail, step)
            return False
        return True

    # -- quantisation
    def ntog_ok(self, obs, q, ph, rb, b0):
        if not _num(obs):
            return False, 'error'
        exp = ref.next_time_on_grid(q, ph, rb, b0)
        o = F(obs)
        if self.exact and _short(q) and _short(ph) and _short(rb):
            if o == exp:
                return True, None
            cands = [exp]
            tol = 0
        else:
            cands = [ref.next_time_on_grid(q, ph, F(rb) + e, b0)
                     for e in (-TOL, 0, TOL)]
            tol = TOL
            if any(abs(o - c) <= tol for c in cands):
                return True, None
        if o < F(rb) - tol:
            return False, 'before-ref'
        if F(q) > 0:
            # distance to the nearest grid point
            off = F(b0) + ref.grid_phase(q, ph)
            k = round((o - off) / F(q))
            if abs(o - (off + k * F(q))) > tol:
                return False, 'off-grid'
        elif abs(o - cands[0]) > tol:
            return False, 'off-grid'
        return False, 'not-earliest'

    @staticmethod
    def play_target(item, B, m):
        """Beat at which a probe played with `item` = [q, ph(, entry, form)]
        at beat B has to wake first."""
        entry = item[2] if len(item) > 2 else 'rplay'
        if entry in ('sched', 'sched_abs'):
            return F(B) + ref.frac(item[0])
        if entry == 'next_bar':
            return ref.next_bar(B, m.b0, m.bpb)
        return ref.next_time_on_grid(item[0], item[1], B, m.b0)

    def run(self, log):
        prog = self.prog
        a = ref.Affine(prog['tempo'])
        m = ref.Meter()
        n = len(prog['ops'])
        if prog.get('ctor') is not None:
            # the statement does not say where a clock constructed with a
            # beats / seconds reference starts: the pair read right after
            # construction is adopted, everything after it has to follow
            cp = log.get('ctor_pair')
            if not (isinstance(cp, list) and len(cp) == 2 and _num(cp[0])
                    and _num(cp[1])):
                self.add('pair-unreadable-after-construction', None, cp,
                         f'TempoClock{tuple([prog["tempo"]] + prog["ctor"])}',
                         0)
                return self.dis
            a = ref.Affine(prog['tempo'], cp[0], cp[1])
            if not _short(a.B) or not _short(a.S):
                self.exact = False
        if log.get('rt_problems'):
            self.add('rt-thread-died', None, log['rt_problems'],
                     'uncaught exception in a clock thread / problem while '
                     'stopping the clocks', n)
        if log.get('budget'):
            self.add('wake-budget-exceeded', None, WAKE_LIMIT, '', n)
        if log.get('process_error'):
            self.add('process-raises', None, log['process_error'], '', n)
        if log.get('leaked_clocks'):
            # hygiene of the harness, not part of the property
            raise core.HarnessError(
                f'{log["leaked_clocks"]} TempoClock(s) survived the case')
        if 'start' not in log:
            self.add('routine-never-ran', 'first wake at beat 0', None,
                     'routine played on the clock with quant 0', 0)
            return self.dis
        self.pair('start-pair', log['start'], a.B, a.S,
                  'first wake-up of a routine played with quant 0 on a new '
                  'clock', 0)
        beats_set = False     # beats= since the last wake-up
        wake_beat = a.B       # beat at which the routine last woke up
        pend = {}             # spawned probes: tag -> [expected beat, open]
        steps = {s[0]: s for s in log['steps']}
        # player resumptions, grouped by the operation of the first routine
        # they precede in execution order (n = after the last one)
        pl = {'k': 0, 'dc': False}
        pev = {}
        nxt = 0
        for ev in log.get('events', ()):
            if ev[0] == 'c':
                nxt = ev[1] + 1
            else:
                pev.setdefault(nxt, []).append(ev)
        for i, op in enumerate(prog['ops']):
            self.player(pev.get(i, ()), a, pl, i)
            s = steps.get(i)
            if s is None:
                self.add('step-missing', op, None,
                         'routine did not reach this operation', i)
                return self.dis
            _, pre, post, err = s
            k = op[0]
            b_before = a.B
            if err is not None:
                self.add(f'{k}-raises', None, err, str(op), i)
                return self.dis
            self.pair(f'{k}-pre-pair', pre, a.B, a.S, 'pair read before '
                      'the operation', i)
            if k == 'yield':
                if beats_set:
                    # the statement leaves the wake-up point after beats=
                    # open; the pair must lie on the one affine map
                    ok = isinstance(post, list) and _num(post[0]) and \
                        _num(post[1])
                    if ok:
                        res = a.map_residual(post[0], post[1])
                        ok = res == 0 if self.exact else abs(res) <= TOL
                    if not ok:
                        self.add('wake-off-map-after-beats-set',
                                 f'on beats = {a.aB} + {a.T}*(s - {a.aS})',
                                 post, str(op), i)
                        return self.dis
                    a.jump(post[0], post[1])
                else:
                    B, S = a.advance(op[1])
                    if not self.pair('yield-advance', post, B, S,
                                     f'wake-up after a delta of {op[1]} '
                                     f'beats at tempo {a.T}', i):
                        return self.dis
                beats_set = False
                wake_beat = a.B
            elif k in ('tempo', 'etempo'):
                a.set_tempo(op[1])
                if not self.pair(f'{k}-discontinuity', post, a.B, a.S,
                                 'pair read right after the tempo change',
                                 i):
                    return self.dis
            elif k == 'beats':
                a.set_beats(op[1])
                beats_set = True
                pl['dc'] = True
                if not self.pair('beats-set-pair', post, a.B, a.S,
                                 'after beats = v the current beat is v '
                                 'and the second is unchanged', i):
                    return self.dis
            elif k == 'bpb':
                m.set(a.B, op[1])
                if not self.pair('meter-discontinuity', post, a.B, a.S,
                                 'pair read right after beats_per_bar = v',
                                 i):
                    return self.dis
            elif k == 'spawn':
                self.pair('spawn-moves-clock', post, a.B, a.S, '', i)
                tag = f's{i}'
                r = self.play_target(op[1:], a.B, m)
                pend[tag] = {'beat': r, 'op': i, 'at': a.B,
                             'entry': op[3] if len(op) > 3 else 'rplay',
                             'tempo_changed': False, 'beats_changed': False}
            # pending probes: what happened to the map while they waited
            # (a probe is still waiting while the beat is before its target)
            for p in pend.values():
                if p['op'] == i or p['beats_changed']:
                    continue
                if k in ('tempo', 'etempo') and b_before < p['beat']:
                    p['tempo_changed'] = True
                elif k == 'beats' and b_before <= p['beat']:
                    # (a probe due at this very beat may still be queued
                    # behind the running routine)
                    p['beats_changed'] = True
        host = prog.get('host')
        if host:
            if not log.get('body_done'):
                self.add('routine-did-not-finish', None, None, '', n)
                return self.dis
            at = ref.frac(host['at'])
            if not at > a.S:
                raise core.HarnessError(
                    f'host instant {at} is not after the history ({a.S})')
            # the instant of the outside caller, on the map in force
            a.jump(a.beats_at(at), at)
            hp = log.get('host_pair')
            if hp is None:
                self.add('host-never-ran', [a.B, a.S], None, str(host), n)
                return self.dis
            self.pair('pair-seen-from-outside', hp, a.B, a.S,
                      f'clock.beats / clock.seconds read by {host["kind"]} '
                      f'(not a routine of this clock) at second {host["at"]}',
                      n)
        self.final(log, a, m, n)
        self.pending(log, a, m, pend, n)
        self.player(pev.get(n, ()), a, pl, n)
        pp = prog.get('player')
        if pp and not pl['dc'] and pl['k'] != pp['count'] + 1:
            self.add('player-resumptions-missing', pp['count'] + 1, pl['k'],
                     'number of wake-ups of the second routine', n)
        # the reference state (part of the history engine's state key)
        self.model = [str(x) for x in (a.T, a.B, a.S, a.aB, a.aS, m.b0,
                                       m.bpb)] + [
            beats_set, str(wake_beat) if beats_set else None,
            pl['dc']] + [
            [t, str(p['beat']), p['tempo_changed'], p['beats_changed']]
            for t, p in sorted(pend.items())]
        return self.dis

    def player(self, evs, a, pl, step):
        """The second routine was played at beat 0 with quant 0 and yields
        `delta` each time: its k-th resumption is at beat k*delta and at the
        second the map in force at that moment gives for that beat.  After
        a `beats =` of the first routine the statement does not decide where
        pending tasks go: accepted from then on."""
        pp = self.prog.get('player')
        for ev in evs:
            if pl['dc']:
                continue
            _, k, b, sec = ev
            if k != pl['k']:
                self.add('player-resumption-order', pl['k'], k, '', step)
                pl['dc'] = True
                continue
            pl['k'] += 1
            eb = ref.frac(pp['delta']) * k
            if not self.close(b, eb):
                self.add('player-resume-beat', [eb, a.secs_at(eb)], [b, sec],
                         f'resumption {k} of a routine yielding '
                         f'{pp["delta"]} beats on the clock while another '
                         f'routine changes the tempo (tempo now {a.T})',
                         step)
                pl['dc'] = True
            elif not self.close(sec, a.secs_at(eb)):
                self.add('player-resume-seconds', [eb, a.secs_at(eb)],
                         [b, sec], f'resumption {k}; map in force: beats = '
                         f'{a.aB} + {a.T}*(s - {a.aS})', step)
                pl['dc'] = True

    def pending(self, log, a, m, pend, n):
        """Probes spawned by a ['spawn', q, ph] operation wake at the beat
        next_time_on_grid gave when they were played.  After `beats =` the
        statement does not decide where pending tasks go: accepted."""
        for tag in sorted(pend):
            p = pend[tag]
            w = log['wakes'].get(tag)
            if p['beats_changed']:
                continue
            kind = 'pending-play-wake'
            if p['entry'] in OTHER_ENTRIES:
                kind = 'pending-sched-wake'
            if p['tempo_changed']:
                kind = 'pending-play-wake-after-tempo-change'
            if not (isinstance(w, list) and len(w) == 2 and _num(w[0])):
                self.add(kind + '-missing', [p['beat'], None], w,
                         f'probe played at step {p["op"]}', n)
                continue
            if not self.close(w[0], p['beat']):
                self.add(kind, p['beat'], w,
                         f'probe played with a quant at step {p["op"]} '
                         f'(beat {p["at"]}) first woke at another beat', n)

    def final(self, log, a, m, n):
        s = log.get('final')
        fin = self.prog.get('final') or {}
        if s is None:
            self.add('routine-did-not-finish', None, None, '', n)
            return
        B, S, T = a.B, a.S, a.T
        self.pair('final-pair', s['pair'], B, S, '', n)
        self.pair('queries-move-clock', s['pair_after'], B, S,
                  'pair read after the read-only queries', n)
        if not self.close(s['tempo'], T, exact=True):
            self.add('tempo-readback', T, s['tempo'], '', n)
        if not self.close(s['beat_dur'], 1 / T):
            self.add('beat-dur-readback', 1 / T, s['beat_dur'], '', n)
        # NRT: elapsed time is logical time.  RT: only while every timer is
        # on time and no beats= has moved logical time away from it
        if (not self.rt or (self.rt == 'rt' and not any(
                op[0] == 'beats' for op in self.prog['ops']))) and \
                not self.close(s['elapsed_beats'], B):
            self.add('elapsed-beats-nrt', B, s['elapsed_beats'],
                     'elapsed time is logical time here', n)
        if not self.close(s['b2s_now'], S):
            self.add('beats2secs-of-now', S, s['b2s_now'],
                     'beats2secs(clock.beats) is clock.seconds', n)
        if not self.close(s['s2b_now'], B):
            self.add('secs2beats-of-now', B, s['s2b_now'],
                     'secs2beats(clock.seconds) is clock.beats', n)
        for x, y, back in s['conv_beats']:
            if not self.close(y, a.secs_at(x)):
                self.add('beats2secs-off-map', a.secs_at(x), y,
                         f'beats2secs({x})', n)
            elif not self.close(back, F(x)):
                self.add('secs2beats-beats2secs-not-identity', x, back,
                         f'x={x}', n)
        for x, y, back in s['conv_secs']:
            if not self.close(y, a.beats_at(x)):
                self.add('secs2beats-off-map', a.beats_at(x), y,
                         f'secs2beats({x})', n)
            elif not self.close(back, F(x)):
                self.add('beats2secs-secs2beats-not-identity', x, back,
                         f'x={x}', n)
        # ---- meter
        bex = self.exact and ref.is_pow2(m.bpb)      # bars exact?
        if not self.close(s['bpb'], m.bpb, exact=True):
            self.add('beats-per-bar-readback', m.bpb, s['bpb'], '', n)
        if not self.close(s['bbb'], m.b0):
            self.add('base-bar-beat', m.b0, s['bbb'],
                     'beat of the last meter change', n)
        for x, bars, back, nb in s['bar_beats']:
            if not _num(bars) or not self.close(back, F(x), exact=bex):
                self.add('bars2beats-beats2bars-not-identity', x,
                         [bars, back], f'x={x} bpb={m.bpb} b0={m.b0}', n)
            self.next_bar(nb, x, m, f'next_bar({x})', n)
        prev = None
        for k, beats, back in s['bars']:
            if not _num(beats) or not self.close(back, F(k), exact=bex):
                self.add('beats2bars-bars2beats-not-identity', k,
                         [beats, back], f'k={k} bpb={m.bpb} b0={m.b0}', n)
                continue
            if F(k).denominator == 1:
                j = round((F(beats) - m.b0) / m.bpb)
                if not self.close(beats, m.b0 + j * m.bpb):
                    self.add('bars2beats-of-whole-bar-not-a-bar-line',
                             f'{m.b0} + j*{m.bpb}', beats,
                             f'bars2beats({k})', n)
            if prev is not None and not self.close(
                    F(beats) - F(prev[1]), (F(k) - F(prev[0])) * m.bpb,
                    exact=False):
                self.add('bar-length-not-beats-per-bar',
                         (F(k) - F(prev[0])) * m.bpb,
                         F(beats) - F(prev[1]),
                         f'bars2beats({k}) - bars2beats({prev[0]})', n)
            prev = [k, beats]
        self.next_bar(s['next_bar'], B, m, 'next_bar() of the current beat',
                      n, cur=True)
        self.beat_in_bar(s, B, m, bex, n)
        # ---- quantisation
        for q, ph, rb, r, t in s['ntog']:
            cur = rb is None
            rbx = B if cur else rb
            ok, why = self.ntog_ok(r, q, ph, rbx, m.b0)
            if not ok:
                self.add(f'ntog-{why}' + ('-curbeat' if cur else ''),
                         ref.next_time_on_grid(q, ph, rbx, m.b0), r,
                         f'next_time_on_grid({q}, {ph}'
                         + ('' if cur else f', {rb}') + f') meter change at '
                         f'{m.b0}, current beat {B}', n)
            elif cur and not (_num(t) and self.close(F(t), F(r) - B,
                                                      exact=False)):
                self.add('time-to-next-beat-inconsistent', F(r) - B, t,
                         f'time_to_next_beat(({q}, {ph})) vs '
                         f'next_time_on_grid - beats', n)
        base_ok = {}
        for j, item in enumerate(fin.get('play', ())):
            q, ph = item[0], item[1]
            entry = item[2] if len(item) > 2 else 'rplay'
            form = item[3] if len(item) > 3 else 'auto'
            plain = entry == 'rplay' and form == 'auto'
            w = log['wakes'].get(f'p{j}')
            exp = self.play_target(item, B, m)
            what = f'[play {j}] {entry}/{form} (quant {q}, phase {ph}) ' \
                f'at beat {B}'
            if not plain and base_ok.get((q, ph)) is False:
                # the plain Routine.play(clock, Quant(q, ph)) of the same
                # program already disagrees: reported there
                continue
            if entry != 'rplay' and base_ok.get((q, ph, form)) is False:
                # Routine.play(clock, <this form>) already disagrees: the
                # form is at fault, not the entry point
                continue
            if entry in OTHER_ENTRIES:
                sfx = {'next_bar': 'play-next-bar', 'sched': 'sched',
                       'sched_abs': 'sched-abs'}[entry]
            elif plain:
                sfx = 'play-quant'
            elif entry != 'rplay':
                sfx = f'play-via-{entry}'
            else:
                sfx = f'play-quant-form-{form}'
            if not (isinstance(w, list) and len(w) == 2 and _num(w[0])
                    and _num(w[1])):
                self.add(f'{sfx}-no-wake', [exp, a.secs_at(exp)], w, what, n)
                if plain:
                    base_ok[(q, ph)] = False
                continue
            if entry == 'next_bar':
                ok = self.next_bar(w[0], B, m, what, n, cur=True,
                                   prefix='play-next-bar-wake')
            elif entry in ('sched', 'sched_abs'):
                ok = self.close(w[0], exp)
                if not ok:
                    self.add(f'{sfx}-wake-beat', exp, w, what, n)
                elif entry == 'sched' and ph > 0:
                    w2 = log['wakes2'].get(f'p{j}')
                    e2 = exp + ref.frac(ph)
                    if not (isinstance(w2, list) and _num(w2[0]) and
                            self.close(w2[0], e2)):
                        ok = False
                        self.add('sched-returned-delta-wake-beat', e2, w2,
                                 what + f'; the function returns {ph} once',
                                 n)
            else:
                ok, why = self.ntog_ok(w[0], q, ph, B, m.b0)
                if not ok and form == 'none':
                    # quant=None: the documented default Quant() is
                    # (1, 0); "no quantisation" is accepted as well
                    ok, why = self.ntog_ok(w[0], 0, 0, B, m.b0)
                if not ok:
                    self.add(f'{sfx}-wake-{why}', exp, w,
                             what + f', meter change at {m.b0}', n)
            if plain:
                base_ok[(q, ph)] = ok
            if entry == 'rplay':
                base_ok[(q, ph, form)] = ok
            if ok and not self.close(w[1], a.secs_at(F(w[0])), exact=False):
                self.add(f'{sfx}-wake-seconds', a.secs_at(exp), w, what, n)

    def beat_in_bar(self, s, B, m, bex, n):
        """bar() / beat_in_bar() split the current beat into the start of
        the bar it lies in and the offset into that bar."""
        start, bib = s.get('bar_start'), s.get('beat_in_bar')
        what = f'beat {B}: bars start at {m.b0} + k*{m.bpb}'
        if not (_num(start) and _num(bib) and _num(s.get('bar'))):
            self.add('beat-in-bar-error', None,
                     [s.get('bar'), start, bib], what, n)
            return
        tol = 0 if bex else TOL
        if not self.close(F(start) + F(bib), B, exact=bex):
            self.add('bar-start-plus-beat-in-bar-not-current-beat', B,
                     [start, bib], 'bars2beats(bar()) + beat_in_bar() vs '
                     'beats; ' + what, n)
            return
        k = round((F(start) - m.b0) / m.bpb)
        if abs(F(start) - (m.b0 + k * m.bpb)) > tol:
            self.add('bar-start-not-a-bar-line', f'{m.b0} + k*{m.bpb}',
                     start, 'bars2beats(bar()); ' + what, n)
        elif not -tol <= F(bib) <= m.bpb + tol or (bex and F(bib) == m.bpb):
            self.add('beat-in-bar-out-of-range', f'0 <= x < {m.bpb}', bib,
                     'beat_in_bar(); ' + what, n)

    def next_bar(self, nb, x, m, what, n, cur=False, prefix='next-bar'):
        sfx = '-curbeat' if cur else ''
        if not _num(nb):
            self.add(f'{prefix}-error' + sfx, None, nb, what, n)
            return False
        exact = self.exact and ref.is_dyadic(m.bpb)
        o = F(nb)
        x = F(x)
        if exact:
            cands = [ref.next_bar(x, m.b0, m.bpb)]
            tol = 0
        else:
            cands = [ref.next_bar(x + e, m.b0, m.bpb)
                     for e in (-TOL, 0, TOL)]
            tol = TOL
        if any(abs(o - c) <= tol for c in cands):
            return True
        if o < x - tol:
            why = 'before-beat'
        else:
            k = round((o - m.b0) / m.bpb)
            if abs(o - (m.b0 + k * m.bpb)) > tol:
                why = 'not-a-bar-line'
            else:
                why = 'not-earliest'
        self.add(f'{prefix}-{why}{sfx}', cands[len(cands) // 2], nb,
                 f'{what}: bars start at {m.b0} + k*{m.bpb}', n)
        return False


def _show(x):
    if isinstance(x, F):
        return float(x) if ref.is_dyadic(x) else str(x)
    if isinstance(x, (list, tuple)):
        return [_show(y) for y in x]
    return x


_MEMO = {}


def check_prog(prog, last_only=False, memo=False):
    """-> (disagreements [(kind, exp, obs, detail)], log).  `memo`: the
    result is a pure function of the program, so the history engine (which
    rebuilds every prefix for every child) may reuse it inside one worker."""
    if prog.get('rt') and not Judge(prog).exact:
        raise core.HarnessError(
            'RT-virtual programs must use power-of-two tempos and short '
            f'dyadic values: {core.canon(prog)[:300]}')
    if memo:
        mk = core.canon(prog)
        hit = _MEMO.get(mk)
        if hit is None:
            if len(_MEMO) > 20000:
                _MEMO.clear()
            log = execute(prog)
            j = Judge(prog)
            hit = _MEMO[mk] = (j.run(log), log)
            log['model'] = getattr(j, 'model', None)
        dis, log = hit
    else:
        log = execute(prog)
        j = Judge(prog)
        dis = j.run(log)
        log['model'] = getattr(j, 'model', None)
    if last_only:
        n = len(prog['ops'])
        dis = [d for d in dis if d[4] >= n - 1]
    return [d[:4] for d in dis], log


# ---------------------------------------------------------------------------
# E1: the grid

def _ints(x, on):
    """Integral values become Python ints in the 'ints' variant."""
    if on and isinstance(x, float) and x == int(x):
        return int(x)
    return x


def grid_cases(g):
    """All cases of grid `g` in canonical order (simplest first)."""
    for tempo in g['tempos']:
        for b0, bpb in g['meters']:
            for rb in g['refs']:
                for q in g['quants']:
                    if q == 0:
                        phases = [0.0]
                    else:
                        phases = [p for p in g['phases'] if -q < p < q]
                    for ph in phases:
                        for ints in (False, True):
                            if ints and not any(
                                    isinstance(v, float) and v == int(v)
                                    for v in (tempo, q, ph, rb, bpb, b0)):
                                continue
                            yield {'tempo': tempo, 'b0': b0, 'bpb': bpb,
                                   'ref': rb, 'q': q, 'ph': ph, 'ints': ints}


def grid_prog(case):
    i = case['ints']
    ops = []
    cur = 0.0
    b0, bpb, rb = case['b0'], case['bpb'], case['ref']
    if b0 > 0:
        ops.append(['yield', _ints(b0, i)])
        cur = b0
    if bpb is not None:
        ops.append(['bpb', _ints(bpb, i)])
    if rb > cur:
        ops.append(['yield', _ints(rb - cur, i)])
    elif rb < cur:
        ops.append(['beats', _ints(rb, i)])
    q, ph = _ints(case['q'], i), _ints(case['ph'], i)
    eff_bpb = bpb if bpb is not None else 4.0
    return _with_rt(case, {'tempo': _ints(case['tempo'], i), 'ops': ops, 'final': {
        'conv_beats': [_ints(rb, i), -1.25, 3],
        'conv_secs': [0.75, _ints(2.0, i)],
        'bar_beats': [_ints(rb, i), b0 + eff_bpb, 2.5],
        'bars': [_ints(1.0, i), -0.5],
        'ntog': [[q, ph, _ints(rb, i)], [q, ph, None]],
        'play': [[q, ph]]}})


def _with_rt(case, prog):
    if case.get('rt'):
        prog['rt'] = case['rt']
    return prog


def grid_nontrivial(case):
    """Boundary of the domain: the reference beat is itself a grid point or
    a bar line, lies before the meter change, the phase is negative (wraps),
    quant is 0, or ints and floats are mixed."""
    b0 = case['b0']
    bpb = case['bpb'] if case['bpb'] is not None else 4.0
    r = ref.next_time_on_grid(case['q'], case['ph'], case['ref'], b0)
    return bool(r == F(case['ref']) or case['ph'] < 0 or case['q'] == 0
                or case['ref'] < b0 or case['ints']
                or ref.on_bar_line(case['ref'], b0, bpb))


def grid_standalone(case):
    prog = grid_prog(case)
    lines = [
        'import sc3; sc3.init("nrt")',
        'from sc3.base.main import main',
        'from sc3.base.clock import TempoClock, Quant',
        'from sc3.base.stream import Routine',
        f'clock = TempoClock({prog["tempo"]!r})',
        'def probe():',
        '    print("probe woke at beat", clock.beats, "second", '
        'clock.seconds)',
        'def body(inval):',
        '    _, c = inval']
    for op in prog['ops']:
        if op[0] == 'yield':
            lines.append(f'    yield {op[1]!r}')
        elif op[0] == 'beats':
            lines.append(f'    c.beats = {op[1]!r}')
        elif op[0] == 'bpb':
            lines.append(f'    c.beats_per_bar = {op[1]!r}')
    q, ph, rb = prog['final']['ntog'][0]
    lines += [
        '    print("beats", c.beats, "seconds", c.seconds)',
        f'    print("next_time_on_grid", c.next_time_on_grid({q!r}, {ph!r}, '
        f'{rb!r}), c.next_time_on_grid({q!r}, {ph!r}))',
        '    print("next_bar", c.next_bar())',
        f'    Routine(probe).play(c, Quant({q!r}, {ph!r}))',
        'Routine(body).play(clock, 0)',
        'main.process()']
    return '\n'.join(lines)


def work(job):
    """job['slice'] = [k, n]: only every n-th case of the shard (the k-th
    residue); job['rt']: run the cases in RT-virtual mode."""
    acc = progenum.Acc()
    sl = job.get('slice')
    for idx, case in enumerate(grid_cases(job['grid'])):
        if idx % job['of'] != job['shard']:
            continue
        if sl and (idx // job['of']) % sl[1] != sl[0]:
            continue
        if job.get('rt'):
            case = dict(case, rt=job['rt'])
        prog = grid_prog(case)
        dis, log = check_prog(prog)
        for kind, exp, obs, detail in dis:
            acc.violation(kind, {'grid': case}, exp, obs, detail,
                          standalone=None if case.get('rt') else
                          grid_standalone(case))
        f = log.get('final') or {}
        acc.case({'grid': case}, nontrivial=grid_nontrivial(case),
                 outcome=[f.get('ntog'), log.get('wakes'),
                          f.get('next_bar'), f.get('pair')],
                 steps=len(prog['ops']) + 1)
    return acc.result()


# ---------------------------------------------------------------------------
# E1b: explicit reference beats queried while the clock is somewhere else

ROUTES = [[['yield', 1.25]], [['yield', 5.5]],
          [['yield', 0.5], ['beats', -0.75]],
          [['yield', 0.5], ['beats', 7.75]]]


def ref_forms(refs):
    """Every reference beat as a float and, where integral, as an int too
    (0 and 0.0 are both in the set)."""
    out = []
    for r in refs:
        out.append(r)
        if r == int(r):
            out.append(int(r))
    return out


def offref_cases(g):
    for tempo in g['tempos']:
        for b0, bpb in g['meters']:
            for route in range(len(ROUTES)):
                for q in g['quants']:
                    phases = [0.0] if q == 0 else \
                        [p for p in g['phases'] if -q < p < q]
                    for ph in phases:
                        for ints in (False, True):
                            if ints and not any(
                                    isinstance(v, float) and v == int(v)
                                    for v in (tempo, q, ph, bpb)):
                                continue
                            yield {'tempo': tempo, 'b0': b0, 'bpb': bpb,
                                   'route': route, 'q': q, 'ph': ph,
                                   'ints': ints, 'refs': 'all'}


def offref_prog(case, g_refs):
    i = case['ints']
    ops = []
    if case['b0'] > 0:
        ops.append(['yield', _ints(case['b0'], i)])
    if case['bpb'] is not None:
        ops.append(['bpb', _ints(case['bpb'], i)])
    ops += ROUTES[case['route']]
    refs = ref_forms(g_refs) if case['refs'] == 'all' else case['refs']
    q, ph = _ints(case['q'], i), _ints(case['ph'], i)
    return {'tempo': _ints(case['tempo'], i), 'ops': ops, 'final': {
        'conv_beats': [], 'conv_secs': [], 'bars': [],
        'bar_beats': refs, 'ntog': [[q, ph, r] for r in refs], 'play': []}}


def work_offref(job):
    acc = progenum.Acc()
    g = job['grid']
    narrowed = {}
    for idx, case in enumerate(offref_cases(g)):
        if idx % job['of'] != job['shard']:
            continue
        prog = offref_prog(case, g['refs'])
        dis, log = check_prog(prog)
        full = dict(case, refs=ref_forms(g['refs']))
        for kind, exp, obs, detail in dis:
            acc.violation(kind, {'offref': full}, exp, obs, detail)
            # report the single failing reference beat (queries are
            # read-only and independent); bounded work per shard
            if narrowed.get(kind, 0) < 2:
                narrowed[kind] = narrowed.get(kind, 0) + 1
                for r in full['refs']:
                    one = dict(case, refs=[r])
                    for k2, e2, o2, d2 in check_prog(
                            offref_prog(one, g['refs']))[0]:
                        if k2 == kind:
                            acc.violation(k2, {'offref': one}, e2, o2, d2)
        f = log.get('final') or {}
        # non-trivial: every case asks for references that differ from the
        # current beat and include grid points, bar lines, beats before the
        # meter change and both an int and a float zero
        acc.case({'offref': case}, nontrivial=True,
                 outcome=[f.get('ntog'), f.get('bar_beats'), f.get('pair')],
                 steps=len(prog['ops']) + 1)
    return acc.result()


# ---------------------------------------------------------------------------
# E1c: every way to play with a quant, from inside and outside the clock

# [who makes the final queries and plays, at which second, constructor
#  (beats, seconds) arguments of the clock]
CONTEXTS = [
    [None, None, None],
    ['main', 40.0, None], ['system', 40.75, None], ['tempo', 40.75, None],
    [None, None, [5.0, None]], [None, None, [2.5, -2.0]],
    [None, None, [0, 0.0]],
    ['main', 40.75, [None, 1.5]], ['system', 40.0, [-3, None]],
    ['tempo', 40.0, [2.5, -2.0]],
]

# how the routine on the clock gets away from the meter change before the
# plays: the offref routes plus two that re-base the map (tempo change after
# a yield; tempo, beats and tempo again in one instant)
FORM_ROUTES = ROUTES + [
    [['yield', 0.75], ['tempo', 4.0], ['yield', 1.5]],
    [['yield', 0.5], ['tempo', 0.5], ['beats', 3.0], ['tempo', 4.0]]]

FORM_QP_Q = [[0.0, 0.0], [1.0, 0.0], [4.0, 0.0], [1.5, 0.5], [4.0, -1.0],
             [2.0, -0.5], [0.5, 0.25], [3.0, 2.0]]
FORM_QP_T = FORM_QP_Q + [[2.0, 0.0], [1.5, 0.0], [1.0, 0.75], [1.0, -0.25],
                         [4.0, 3.5], [0.25, 0.0]]


def forms_plays(q, ph, host):
    """Every (entry point, quant form) for (q, ph); the plain
    Routine.play(clock, number | Quant) comes first."""
    forms = ['quant', 'kw', 'tuple', 'list']
    if ph == 0:
        forms += ['num', 'quant1', 'list1']
        if q == 1:
            forms.append('none')
    out = [[q, ph, 'rplay', 'auto']]
    for entry in QUANT_ENTRIES:
        if entry == 'inherit' and host:
            continue        # would play on the caller's clock
        for form in forms:
            out.append([q, ph, entry, form])
    out += [[0, 0, 'next_bar', 'auto'],
            [q, ph if ph > 0 else 0, 'sched', 'auto'],
            [q, 0, 'sched_abs', 'auto'], [0, 0.75, 'sched', 'auto']]
    return out, forms


def forms_cases(g):
    for tempo in g['tempos']:
        for b0, bpb in g['meters']:
            for route in range(len(FORM_ROUTES)):
                for q, ph in g['qp']:
                    for ints in g.get('ints', (False, True)):
                        if ints and not any(
                                isinstance(v, float) and v == int(v)
                                for v in (tempo, q, ph, bpb)):
                            continue
                        for ctx in range(len(CONTEXTS)):
                            for rt in g.get('rt', [None]):
                                yield {'tempo': tempo, 'b0': b0, 'bpb': bpb,
                                       'route': route, 'q': q, 'ph': ph,
                                       'ints': ints, 'ctx': ctx, 'rt': rt,
                                       'plays': 'all'}


def forms_prog(case):
    i = case['ints']
    ops = []
    if case['b0'] > 0:
        ops.append(['yield', _ints(case['b0'], i)])
    if case['bpb'] is not None:
        ops.append(['bpb', _ints(case['bpb'], i)])
    ops += FORM_ROUTES[case['route']]
    hk, at, ctor = CONTEXTS[case['ctx']]
    q, ph = _ints(case['q'], i), _ints(case['ph'], i)
    plays, forms = forms_plays(q, ph, hk)
    if case['plays'] != 'all':
        plays = case['plays']
    prog = {'tempo': _ints(case['tempo'], i), 'ops': ops, 'final': {
        'conv_beats': [0, -1.25, 7.5], 'conv_secs': [0, 0.75],
        'bars': [1, -0.5], 'bar_beats': [0, 2.25, -1.5],
        'ntog': [[q, ph, None, f] for f in ['auto'] + forms
                 if f != 'none'] + [[q, ph, r] for r in (0, 0.0, -1.5, 2.25)],
        'play': plays}}
    if hk:
        prog['host'] = {'kind': hk, 'at': at}
    if ctor:
        prog['ctor'] = ctor
    return _with_rt(case, prog)


def work_forms(job):
    acc = progenum.Acc()
    narrowed = {}
    for idx, case in enumerate(forms_cases(job['grid'])):
        if idx % job['of'] != job['shard']:
            continue
        prog = forms_prog(case)
        dis, log = check_prog(prog)
        for kind, exp, obs, detail in dis:
            acc.violation(kind, {'forms': dict(case, plays=prog['final'][
                'play'])}, exp, obs, detail)
            # report the single failing play (bounded work per shard)
            if narrowed.get(kind, 0) < 2:
                narrowed[kind] = narrowed.get(kind, 0) + 1
                plays = prog['final']['play']
                hit = re.match(r'\[play (\d+)\]', str(detail))
                one = dict(case, plays=plays[:1] if not hit or hit.group(
                    1) == '0' else [plays[0], plays[int(hit.group(1))]])
                for k2, e2, o2, d2 in check_prog(forms_prog(one))[0]:
                    if k2 == kind:
                        acc.violation(k2, {'forms': one}, e2, o2, d2)
        f = log.get('final') or {}
        # non-trivial: every case plays through every entry point and quant
        # form and at least one of: caller outside the clock, constructor
        # offset, clock away from the meter change (always: the routes)
        acc.case({'forms': case}, nontrivial=True,
                 outcome=[f.get('ntog'), log.get('wakes'),
                          log.get('wakes2'), f.get('pair')],
                 steps=len(prog['ops']) + 1 + len(prog['final']['play']))
    return acc.result()


# ---------------------------------------------------------------------------
# E2: histories

FINAL_E2 = {
    'conv_beats': [-1.25, 0, 7.5],
    'conv_secs': [0, 0.75],
    'bar_beats': [-0.5, 0, 0.0, 2.0, 6.25],
    'bars': [0, 1, 2.5],
    'ntog': [[1, 0, None], [4, 0, None], [1.5, 0.5, None], [2, -0.5, None],
             [0, 0, None], [1, 0.25, 3], [4.0, -1.0, -2.5], [0.5, 0, 6.25],
             [4, 0, 0], [1.5, 0.5, 0.0], [0, 0, 0]],
    'play': [[1, 0], [4, -1], [1.5, 0.5]]}


class AffineSys:
    """One routine on the clock performing the history.  The whole program
    is re-executed for every step, so no library object survives a case.

    State key = the eight map/meter fields of the real clock, the current
    (beats, seconds), the reference state (map, meter, and - while a beats=
    is outstanding - the beat at which the routine last woke, because the
    library reschedules from that beat), the verdict of the last step and
    the inputs of the non-trivial rule.  A TempoClock has no other state in
    NRT mode apart from tasks waiting in the scheduler; the pending system
    adds the played probes and all their observed wake-ups to the key.  So
    histories that are merged have the same futures and the same counts."""

    spawn = False
    final = FINAL_E2

    def __init__(self, params):
        self.params = params
        self.hist = []
        self.log = None
        self.last_kinds = []

    def ops(self):
        p = self.params
        o = [['yield', d] for d in p['deltas']]
        o += [['tempo', v] for v in p['tempos']]
        if not p.get('rt') or not any(h[0] == 'beats' for h in self.hist):
            # RT: etempo re-bases at the *physical* instant, which is the
            # logical one only until a beats= has moved logical time
            o += [['etempo', v] for v in p.get('etempos', ())]
        o += [['beats', v] for v in p['beats']]
        o += [['bpb', v] for v in p['bpbs']]
        if self.spawn:
            n = sum(1 for h in self.hist if h[0] == 'spawn')
            if n < p.get('max_spawn', 2):
                o += [['spawn'] + list(x) for x in p['quants']]
        return o

    def apply(self, op):
        self.hist.append(op)
        prog = {'tempo': self.params['tempo'], 'ops': list(self.hist),
                'final': self.final}
        if self.params.get('player'):
            prog['player'] = self.params['player']
        if self.params.get('rt'):
            prog['rt'] = self.params['rt']
        dis, self.log = check_prog(prog, last_only=True, memo=True)
        self.last_kinds = sorted(set(d[0] for d in dis))
        return dis

    def key(self):
        f = (self.log or {}).get('final') or {}
        # everything the clock's future behaviour depends on: the map and
        # meter fields, the current instant, and (pending system) the
        # outstanding probes
        k = [f.get('impl'), f.get('pair')]
        if self.spawn:
            k.append([h for h in self.hist if h[0] == 'spawn'])
            k.append(self.log.get('spawned') if self.log else None)
            k.append(sorted((self.log or {}).get('wakes', {}).items()))
        if self.params.get('player'):
            k.append([e for e in (self.log or {}).get('events', ())
                      if e[0] == 'p'])
        k.append(self._beats_set_since_wake())
        # reference state, verdict of the last step and the non-trivial
        # flag: merged histories must agree on them, so that the counts do
        # not depend on which history reaches a state first
        k.append((self.log or {}).get('model'))
        k.append(self.last_kinds)
        k.append(self._nt_state())
        return k

    def _beats_set_since_wake(self):
        for h in reversed(self.hist):
            if h[0] == 'yield':
                return False
            if h[0] == 'beats':
                return True
        return False

    def _nt_state(self):
        """(non-trivial, a yield was seen, re-basing operations since the
        last yield capped at 2): non-trivial = a re-basing operation
        (tempo/etempo/beats/meter) happens away from the origin (after a
        yield), or two of them happen at one instant."""
        seen_yield = False
        streak = 0
        nt = False
        for h in self.hist:
            if h[0] == 'yield':
                seen_yield = True
                streak = 0
            elif h[0] in ('tempo', 'etempo', 'beats', 'bpb'):
                streak = min(streak + 1, 2)
                if seen_yield or streak >= 2:
                    nt = True
        return [nt, seen_yield, streak]

    def nontrivial(self):
        return self._nt_state()[0]

    def outcome(self):
        f = (self.log or {}).get('final') or {}
        return [f.get('pair'), f.get('ntog'), f.get('next_bar'),
                (self.log or {}).get('wakes')]


class PendingSys(AffineSys):
    """Adds ['spawn', q, ph]: a probe routine is played with a quant and is
    still pending while the history goes on."""
    spawn = True


class PlayerSys(AffineSys):
    """A second routine (params['player']) is played on the clock at beat 0
    and resumes every `delta` beats while the first routine performs the
    history; all its resumptions (during and after the history) are part of
    the state key."""
    final = {'conv_beats': [0], 'conv_secs': [0.75], 'bar_beats': [2.0],
             'bars': [1], 'ntog': [[1, 0, None]], 'play': [[1, 0]]}


SYSTEMS = {'affine': AffineSys, 'pending': PendingSys, 'player': PlayerSys}


def REPLAY_MODE(v):
    """Worker mode a violation has to be replayed in."""
    c = v['case']
    for fam in ('grid', 'offref', 'forms'):
        if fam in c:
            return 'rt' if c[fam].get('rt') else 'nrt'
    return 'rt' if (c.get('params') or {}).get('rt') else 'nrt'


def replay(job):
    case = job['case']
    if 'grid' in case:
        dis, log = check_prog(grid_prog(case['grid']))
        return {'violates': any(d[0] == job['kind'] for d in dis),
                'disagreements': [[d[0], repr(d[1]), repr(d[2])]
                                  for d in dis]}
    if 'forms' in case:
        dis, log = check_prog(forms_prog(case['forms']))
        return {'violates': any(d[0] == job['kind'] for d in dis),
                'disagreements': [[d[0], repr(d[1]), repr(d[2])]
                                  for d in dis][:40]}
    if 'offref' in case:
        c = case['offref']
        dis, log = check_prog(offref_prog(c, c['refs']))
        return {'violates': any(d[0] == job['kind'] for d in dis),
                'disagreements': [[d[0], repr(d[1]), repr(d[2])]
                                  for d in dis][:40]}
    return histbfs.replay(job)


# ---------------------------------------------------------------------------

def _quarter(lo, hi):
    n = int((hi - lo) * 4)
    return [lo + k * 0.25 for k in range(n + 1)]


GRID_Q = {
    'tempos': [1.0, 2.0, 0.5, 3.0],
    'meters': [[0.0, None], [0.0, 3.0], [1.5, 3.0], [1.5, 4.0], [3.0, 2.0]],
    'refs': _quarter(-2.0, 6.0),
    'quants': [0.0, 1.0, 0.5, 1.5, 2.0, 4.0],
    'phases': _quarter(-4.0, 4.0)}

GRID_T = {
    'tempos': [1.0, 2.0, 0.5, 4.0, 3.0, 1.5],
    'meters': [[0.0, None], [0.0, 3.0], [0.0, 1.5], [1.5, 3.0], [1.5, 4.0],
               [1.5, 2.0], [3.0, 3.0], [3.0, 2.0], [3.0, 0.5]],
    'refs': _quarter(-2.0, 10.0),
    'quants': [0.0, 1.0, 0.5, 1.5, 2.0, 4.0, 3.0],
    'phases': _quarter(-4.0, 4.0)}

# values off the quarter grid (72 bpm, triplets, tenths, 7/8-like bars):
# nothing is exact here, the 1e-9 tolerance rules apply
GRID_ODD = {
    'tempos': [1.2, 1.0],
    'meters': [[0.0, None], [0.7, 3.5], [0.0, 0.75]],
    'refs': [-0.9, 0.0, 0.1, 0.3, 1 / 3, 2 / 3, 0.7, 1.0, 2.1, 3.3],
    'quants': [0.0, 1 / 3, 0.1, 0.7, 1.0, 2.5],
    'phases': [-0.6, -0.2, -0.05, 0.0, 0.05, 0.1, 1 / 6, 0.5]}

AFF_Q = {'tempo': 1.0, 'deltas': [0.25, 1.0, 1.5], 'tempos': [2.0, 0.5],
         'etempos': [4.0], 'beats': [0.0, 2.5], 'bpbs': [3.0, 2.0]}
AFF_3 = {'tempo': 2.0, 'deltas': [0.25, 1], 'tempos': [3.0, 1],
         'etempos': [], 'beats': [-1.0], 'bpbs': [3, 1.5]}
AFF_T = {'tempo': 1.0, 'deltas': [0.25, 1.0, 1.5], 'tempos': [2.0, 0.5, 3.0],
         'etempos': [4.0], 'beats': [0.0, 2.5, -1.0], 'bpbs': [3.0, 2.0]}
# values that are not dyadic: 72 bpm, triplets, tenths, 7/8-like bars
AFF_N = {'tempo': 1.2, 'deltas': [0.1, 1 / 3], 'tempos': [2.5, 0.7],
         'etempos': [1.1], 'beats': [0.3], 'bpbs': [3.5, 0.75]}
PEND_Q = {'tempo': 1.0, 'deltas': [0.5, 1.0], 'tempos': [2.0],
          'etempos': [], 'beats': [0.0], 'bpbs': [3.0],
          'quants': [[4, 0], [1.5, 0.5], [2.25, 0, 'sched', 'auto']],
          'max_spawn': 1}
PEND_T = {'tempo': 1.0, 'deltas': [0.5, 1.0, 2.25], 'tempos': [2.0, 0.5],
          'etempos': [4.0], 'beats': [0.0, 5.0], 'bpbs': [3.0],
          'quants': [[4, 0], [1.5, 0.5], [1, -0.25],
                     [2.25, 0, 'sched', 'auto'], [4, -1, 'cplayf', 'tuple']],
          'max_spawn': 2}


PLAY_Q = {'tempo': 1.0, 'deltas': [0.5, 1.0], 'tempos': [2.0, 0.5],
          'etempos': [4.0], 'beats': [2.5], 'bpbs': [],
          'player': {'delta': 1.0, 'count': 8}}
PLAY_F = {'tempo': 1.0, 'deltas': [0.5, 1.0], 'tempos': [2.0, 0.5],
          'etempos': [4.0], 'beats': [2.5], 'bpbs': [],
          'player': {'delta': 0.75, 'count': 8, 'kind': 'func'}}
PLAY_T = {'tempo': 1.0, 'deltas': [0.5, 1.0, 2.25], 'tempos': [2.0, 0.5, 3.0],
          'etempos': [4.0], 'beats': [2.5, 0.0], 'bpbs': [3.0],
          'player': {'delta': 0.75, 'count': 20}}

# RT-virtual mode.  'rt': every timer on time; 'late': every timed wake-up
# 2**-10 s late (logical time must not notice; etempo, which re-bases at
# the physical instant, is left out there).  Only power-of-two tempos and
# short dyadic values: the clock thread compares elapsed beats computed in
# floating point with the scheduled beat and waits again for the remainder;
# with inexact values that remainder can be 0 while the comparison still
# fails, which real time resolves within a tick of time.time() but frozen
# virtual time never does (check_prog refuses such programs)
RT_AFF = {'tempo': 1.0, 'deltas': [0.25, 1.0], 'tempos': [2.0, 0.5],
          'etempos': [4.0], 'beats': [2.5], 'bpbs': [3.0], 'rt': 'rt'}
RT_AFF_L = {'tempo': 2.0, 'deltas': [0.25, 1.5], 'tempos': [0.5, 1],
            'etempos': [], 'beats': [-1.0], 'bpbs': [3, 1.5], 'rt': 'late'}
RT_PEND = {'tempo': 1.0, 'deltas': [0.5, 1.0], 'tempos': [2.0],
           'etempos': [], 'beats': [0.0], 'bpbs': [3.0],
           'quants': [[4, 0], [1.5, 0.5], [2.25, 0, 'sched', 'auto']],
           'max_spawn': 1, 'rt': 'late'}
RT_PLAY = {'tempo': 1.0, 'deltas': [0.5, 1.0], 'tempos': [2.0, 0.5],
           'etempos': [], 'beats': [2.5], 'bpbs': [],
           'player': {'delta': 0.75, 'count': 6}, 'rt': 'late'}
RT_PLAY_F = {'tempo': 1.0, 'deltas': [0.5, 1.0], 'tempos': [2.0, 0.5],
             'etempos': [4.0], 'beats': [], 'bpbs': [],
             'player': {'delta': 1.0, 'count': 6, 'kind': 'func'},
             'rt': 'rt'}

FORMS_Q = {'tempos': [2.0, 0.5, 3.0],
           'meters': [[0.0, None], [1.5, 3.0], [3.0, 2.0]],
           'qp': FORM_QP_Q}
FORMS_T = {'tempos': [1.0, 2.0, 0.5, 4.0, 3.0, 1.5],
           'meters': GRID_T['meters'], 'qp': FORM_QP_T}
FORMS_RT_Q = {'tempos': [2.0, 0.5], 'meters': [[0.0, None], [1.5, 3.0]],
              'qp': FORM_QP_Q, 'ints': [False], 'rt': ['rt', 'late']}
FORMS_RT_T = {'tempos': [1.0, 2.0, 0.5],
              'meters': [[0.0, None], [1.5, 3.0], [3.0, 2.0]],
              'qp': FORM_QP_T, 'rt': ['rt', 'late']}
RT_GRID_SLICES = 32    # quick: 1/32 of the grid is also run in RT-virtual


def main(ctx):
    ctx.rule = (
        'E1: full product grid (tempo x meter change (beat, beats_per_bar) '
        'x reference beat x quant x every phase in (-quant, quant) on the '
        'quarter grid x {floats, ints where integral}); each case is a '
        'routine on a fresh TempoClock that reaches the reference beat by '
        'yields (or beats= when it lies in the past) and then queries '
        'next_time_on_grid (explicit and current reference), '
        'time_to_next_beat, play(quant) of a probe, both conversions, '
        'next_bar and bar()/beat_in_bar().  Non-trivial = reference beat is '
        'itself a grid point or '
        'bar line, lies before the meter change, phase negative, quant 0, '
        'or ints and floats mixed.  E1b (offref): for every (tempo, meter, '
        'route to a current beat b0+1.25 / b0+5.5 / beats=-0.75 / '
        'beats=7.75, quant, phase, number type) next_time_on_grid(q, ph, x) '
        'and next_bar(x) are queried for the whole reference-beat set '
        '(float and int forms, 0 and 0.0) while the clock is at another '
        'beat; all of these cases are non-trivial.  E1c (forms): for every '
        '(tempo, meter, route, (quant, phase), number type, context) one '
        'program plays a probe through every entry point (Routine.play '
        'positional / keyword / inherited clock, TempoClock.play of a '
        'function and of a routine, Routine.run, routine.run decorator, '
        'pause+resume(clock, quant)) x every form Quant.as_quant accepts '
        '(number, Quant positional / keyword / one argument, tuple, list, '
        'one-element list, None), plus play_next_bar, sched(delta) of a '
        'function that returns a delta once and sched_abs, and asks '
        'time_to_next_beat with every form; context = who asks (the routine '
        'on the clock, the main thread, a routine on SystemClock or on '
        'another TempoClock at second 40 / 40.75 / 48) x constructor '
        '(beats, seconds) arguments; all forms cases are non-trivial.  The '
        'forms family (sub-grid) and a slice of E1 are run in RT-virtual '
        'mode as well, with every timer on time and with every timed '
        'wake-up 2**-10 s late.  E2: BFS over all histories of '
        '{yield d, tempo=, etempo(), beats=, beats_per_bar=[, play(probe, '
        'quant) / sched(d, probe)]} executed by one routine on the clock '
        '(NRT, and RT-virtual on time / late), states merged on '
        'the eight map/meter fields of the clock plus the current '
        '(beats, seconds); non-trivial = a re-basing operation happens '
        'after a yield or two happen at one instant.  The player system '
        'runs a second routine (or a plain function returning its delta) '
        'on the same clock that resumes every delta beats '
        'while the first performs the history; every resumption must be at '
        'beat k*delta and at the second the map in force gives for it.')
    ctx.assumptions += [
        'reference mc/oracles/tempo_ref.py: affine map, quantisation grid '
        'and bar lines over Fractions, written from the property statement',
        'exact comparison when every tempo is a power of two and all values '
        'are dyadic (bars: beats_per_bar a power of two as well); otherwise '
        'tolerance 1e-9 and, for the step functions next_time_on_grid / '
        'next_bar / play(quant), either value of the step within 1e-9 of '
        'the reference beat is accepted',
        'don\'t-cares: where a routine wakes after it has set beats= itself '
        '(only required to lie on the affine map); where probes that were '
        'or a second routine that were pending during a beats= change '
        'wake; bar *numbers* (only bar lines, the inverse laws and '
        'bars2beats(bar()) + beat_in_bar() = beats with 0 <= beat_in_bar < '
        'beats_per_bar are checked); the pair a clock constructed with '
        'beats/seconds arguments starts from (the pair read right after '
        'construction is adopted); quant=None (documented default Quant() '
        '= (1, 0); no quantisation is accepted too); negative tempo via '
        'etempo; quant < 0; RT: etempo() after a beats= or with late '
        'timers (it re-bases at the physical instant)',
        'RT-virtual mode (mc/seams.py + mc/vthreading.py): default '
        'schedule only (no preemption), timers on time or uniformly late; '
        'interleavings are the business of C05/C08']
    ctx.bounds['mode'] = 'nrt + rt-virtual (default schedule; on time / late)'
    if ctx.tier == 'quick':
        grid, nsh = GRID_Q, 64
        forms, forms_rt = FORMS_Q, FORMS_RT_Q
        e2 = [('affine', AFF_Q, 5), ('affine', AFF_3, 5),
              ('affine', AFF_N, 4),
              ('pending', PEND_Q, 5), ('player', PLAY_Q, 5),
              ('player', PLAY_F, 4),
              ('affine', RT_AFF, 4), ('affine', RT_AFF_L, 4),
              ('pending', RT_PEND, 3), ('player', RT_PLAY, 3),
              ('player', RT_PLAY_F, 3)]
    else:
        grid, nsh = GRID_T, 256
        forms, forms_rt = FORMS_T, FORMS_RT_T
        e2 = [('affine', AFF_T, 6), ('affine', AFF_3, 7),
              ('affine', AFF_N, 6),
              ('pending', PEND_T, 5), ('player', PLAY_Q, 6),
              ('player', PLAY_F, 6), ('player', PLAY_T, 5),
              ('affine', RT_AFF, 5), ('affine', RT_AFF_L, 5),
              ('pending', RT_PEND, 5), ('player', RT_PLAY, 4),
              ('player', RT_PLAY_F, 4)]
    ctx.bounds['grid_alphabet'] = {k: (v if len(v) < 12 else
                              f'{v[0]}..{v[-1]} step 0.25 ({len(v)})')
                          for k, v in grid.items()}
    jobs = [{'grid': grid, 'shard': i, 'of': nsh} for i in range(nsh)]
    progenum.run(ctx, MODNAME, 'work', jobs, mode='nrt', bound='grid')
    ctx.bounds['grid_odd_alphabet'] = GRID_ODD
    jobs = [{'grid': GRID_ODD, 'shard': i, 'of': 16} for i in range(16)]
    progenum.run(ctx, MODNAME, 'work', jobs, mode='nrt', bound='grid-odd')
    ctx.bounds['offref_routes'] = ROUTES
    jobs = [{'grid': grid, 'shard': i, 'of': nsh} for i in range(nsh)]
    progenum.run(ctx, MODNAME, 'work_offref', jobs, mode='nrt',
                 bound='offref')
    ctx.bounds['forms_alphabet'] = {
        'nrt': forms, 'rt': forms_rt, 'contexts': CONTEXTS,
        'routes': FORM_ROUTES,
        'entries': list(QUANT_ENTRIES + OTHER_ENTRIES),
        'quant_forms': list(QUANT_FORMS)}
    jobs = [{'grid': forms, 'shard': i, 'of': nsh} for i in range(nsh)]
    progenum.run(ctx, MODNAME, 'work_forms', jobs, mode='nrt', bound='forms')
    jobs = [{'grid': forms_rt, 'shard': i, 'of': nsh} for i in range(nsh)]
    progenum.run(ctx, MODNAME, 'work_forms', jobs, mode='rt',
                 bound='forms-rt')
    # E1 in RT-virtual mode: quick = the seed-selected 1/32 of the grid
    # (label says slice), thorough = every 16th case per timer variant
    if ctx.tier == 'quick':
        k = core.pick_slice(ctx.seed, RT_GRID_SLICES)
        plan = [('rt' if k % 2 == 0 else 'late', [k, RT_GRID_SLICES],
                 f'grid-rt slice {k}/{RT_GRID_SLICES} (seed-selected, not '
                 f'exhaustive)')]
    else:
        plan = [('rt', [0, 16], 'grid-rt on time: cases 0 mod 16 of every '
                 'shard (slice, not exhaustive)'),
                ('late', [8, 16], 'grid-rt late: cases 8 mod 16 of every '
                 'shard (slice, not exhaustive)')]
    rgrid = dict(grid, tempos=[t for t in grid['tempos'] if ref.is_pow2(t)])
    ctx.bounds['grid_rt_tempos'] = rgrid['tempos']
    for rt, sl, label in plan:
        jobs = [{'grid': rgrid, 'shard': i, 'of': nsh, 'slice': sl, 'rt': rt}
                for i in range(nsh)]
        progenum.run(ctx, MODNAME, 'work', jobs, mode='rt', bound=label)
    for name, params, depth in e2:
        histbfs.run(ctx, MODNAME, name, params, depth,
                    mode='rt' if params.get('rt') else 'nrt', batch=32)


# ---------------------------------------------------------------------------
# Known-finding predicates

def _pending_tempo_only(v):
    h = v['case'].get('history', [])
    return any(op[0] == 'spawn' for op in h) and \
        not any(op[0] == 'beats' for op in h)


PREDICATES = {'pending_probe_tempo_change_no_beats_set': _pending_tempo_only}
