"""C12 - TempoClock time arithmetic and quantisation are consistent.

E1 (grid): every (tempo, meter change, reference beat, quant, phase, number
type) of a small grid is driven through a real TempoClock from a routine
running on that clock in NRT mode; next_time_on_grid / play(quant) / the
beat<->second and bar<->beat conversions are compared with exact rational
reference semantics (mc/oracles/tempo_ref.py).

E2 (histories): breadth-first search over all histories of {tempo=, etempo(),
beats=, beats_per_bar=, yield d} executed by one routine on the clock; after
every operation the (beats, seconds) pair, the conversions, the bar lines and
the quantisation grid are compared with the reference.  A second history
system adds quantised play() of probe routines that are still pending while
the map is changed, a third one a second routine ("player") that resumes
every delta beats on the clock while the first routine changes the map.

A case is plain JSON; the whole program is re-executed from `main.reset()`
and a fresh TempoClock for every evaluation (clocks live only inside
`execute`; TempoClock._all is a WeakSet and is asserted empty afterwards)."""

import gc
from fractions import Fraction as F

from mc import core
from mc.engines import progenum, histbfs
from mc.oracles import tempo_ref as ref

MODE = 'nrt'
MODNAME = 'mc.checks.c12'
TOL = F(1, 10 ** 9)
WAKE_LIMIT = 400       # scheduler wake-ups allowed per program


# ---------------------------------------------------------------------------
# Worker side: run one program on the real library

def _g(f, *a):
    try:
        return f(*a)
    except Exception as e:          # observable as such
        return ['!', type(e).__name__, str(e)[:80]]


def execute(prog):
    """Run `prog` on a fresh TempoClock in NRT mode and return the
    observation log (plain data).

    prog = {'tempo': T0, 'ops': [op...], 'final': {...},
            'player': {'delta': d, 'count': n} | absent}
    op   = ['yield', d] | ['tempo', v] | ['etempo', v] | ['beats', v] |
           ['bpb', v] | ['spawn', q, ph]
    final = {'conv_beats': [...], 'conv_secs': [...], 'bar_beats': [...],
             'bars': [...], 'ntog': [[q, ph, ref|None]...],
             'play': [[q, ph]...]}
    """
    from sc3.base.main import main
    from sc3.base.clock import TempoClock, Quant
    from sc3.base.stream import Routine

    main.reset()
    log = {'steps': [], 'spawned': {}, 'final': None, 'wakes': {},
           'budget': False, 'events': []}
    player = prog.get('player')
    ops = prog['ops']
    fin = prog.get('final') or {}
    clock = TempoClock(prog['tempo'])
    wake_count = [0]

    def rd(c):
        return [_g(lambda: c.beats), _g(lambda: c.seconds)]

    def as_q(q, ph):
        return q if ph == 0 else Quant(q, ph)

    def mk_probe(tag, c):
        def probe():
            wake_count[0] += 1
            if wake_count[0] > WAKE_LIMIT:      # deterministic step budget
                log['budget'] = True
                raise RuntimeError('wake budget exceeded')
            if tag not in log['wakes']:
                log['wakes'][tag] = rd(c)
        return probe

    def player_fn(inval):
        # second routine on the same clock: resumes every `delta` beats
        # while the first routine performs the history
        _, c = inval
        k = 0
        while True:
            wake_count[0] += 1
            if wake_count[0] > WAKE_LIMIT:
                log['budget'] = True
                return
            log['events'].append(['p', k] + rd(c))
            if k >= player['count']:
                return
            k += 1
            yield player['delta']

    def snapshot(c):
        s = {}
        s['pair'] = rd(c)
        s['tempo'] = _g(lambda: c.tempo)
        s['beat_dur'] = _g(lambda: c.beat_dur)
        s['elapsed_beats'] = _g(c.elapsed_beats)
        s['bpb'] = _g(lambda: c.beats_per_bar)
        s['bbb'] = _g(lambda: c.base_bar_beat)
        s['base_bar'] = _g(lambda: c.base_bar)
        s['b2s_now'] = _g(lambda: c.beats2secs(c.beats))
        s['s2b_now'] = _g(lambda: c.secs2beats(c.seconds))
        s['conv_beats'] = [
            [x, _g(c.beats2secs, x),
             _g(lambda: c.secs2beats(c.beats2secs(x)))]
            for x in fin.get('conv_beats', ())]
        s['conv_secs'] = [
            [x, _g(c.secs2beats, x),
             _g(lambda: c.beats2secs(c.secs2beats(x)))]
            for x in fin.get('conv_secs', ())]
        s['bar_beats'] = [
            [x, _g(c.beats2bars, x),
             _g(lambda: c.bars2beats(c.beats2bars(x))), _g(c.next_bar, x)]
            for x in fin.get('bar_beats', ())]
        s['bars'] = [
            [k, _g(c.bars2beats, k),
             _g(lambda: c.beats2bars(c.bars2beats(k)))]
            for k in fin.get('bars', ())]
        s['next_bar'] = _g(c.next_bar)
        s['bar'] = _g(c.bar)
        s['beat_in_bar'] = _g(c.beat_in_bar)
        s['ntog'] = []
        for q, ph, rb in fin.get('ntog', ()):
            if rb is None:
                r = _g(c.next_time_on_grid, q, ph)
                t = _g(c.time_to_next_beat, as_q(q, ph))
            else:
                r = _g(c.next_time_on_grid, q, ph, rb)
                t = None
            s['ntog'].append([q, ph, rb, r, t])
        s['pair_after'] = rd(c)     # queries must not move the clock
        s['impl'] = [repr(getattr(c, a, '?')) for a in (
            '_tempo', '_beat_dur', '_base_seconds', '_base_beats',
            '_beats_per_bar', '_bars_per_beat', '_base_bar',
            '_base_bar_beat')]
        return s

    def body(inval):
        rout, c = inval
        log['start'] = rd(c)
        if player:
            Routine(player_fn).play(c, 0)
        for i, op in enumerate(ops):
            wake_count[0] += 1
            if wake_count[0] > WAKE_LIMIT:
                log['budget'] = True
                return
            k = op[0]
            pre = rd(c)
            err = None
            try:
                if k == 'yield':
                    yield op[1]
                elif k == 'tempo':
                    c.tempo = op[1]
                elif k == 'etempo':
                    c.etempo(op[1])
                elif k == 'beats':
                    c.beats = op[1]
                elif k == 'bpb':
                    c.beats_per_bar = op[1]
                elif k == 'spawn':
                    tag = f's{i}'
                    log['spawned'][tag] = [
                        i, _g(c.next_time_on_grid, op[1], op[2])]
                    Routine(mk_probe(tag, c)).play(c, as_q(op[1], op[2]))
                else:
                    raise core.HarnessError(f'bad op {op}')
            except core.HarnessError:
                raise
            except Exception as e:
                err = [type(e).__name__, str(e)[:80]]
            log['steps'].append([i, pre, rd(c), err])
            log['events'].append(['c', i])
        log['final'] = snapshot(c)
        for j, (q, ph) in enumerate(fin.get('play', ())):
            try:
                Routine(mk_probe(f'p{j}', c)).play(c, as_q(q, ph))
            except Exception as e:
                log['wakes'][f'p{j}'] = ['!', type(e).__name__, str(e)[:80]]

    r = Routine(body)
    try:
        r.play(clock, 0)
        main.process()
    except core.HarnessError:
        raise
    except Exception as e:
        log['process_error'] = [type(e).__name__, str(e)[:120]]
    main.reset()
    del r, clock, body, snapshot, mk_probe, player_fn
    log['leaked_clocks'] = len(TempoClock.all)
    if log['leaked_clocks']:
        gc.collect()
        log['leaked_clocks'] = len(TempoClock.all)
    return log


# ---------------------------------------------------------------------------
# The oracle: walk the same program over the exact reference

def _num(x):
    return isinstance(x, (int, float)) and not isinstance(x, bool) \
        and x == x and x not in (float('inf'), float('-inf'))


class Judge:
    def __init__(self, prog):
        self.prog = prog
        self.dis = []         # (kind, expected, observed, detail, step)
        nums = [prog['tempo']]
        for op in prog['ops']:
            nums += op[1:]
        if prog.get('player'):
            nums.append(prog['player']['delta'])
        self.tempos = [prog['tempo']] + [op[1] for op in prog['ops']
                                         if op[0] in ('tempo', 'etempo')]
        self.exact = all(ref.is_pow2(t) for t in self.tempos) and \
            all(ref.is_dyadic(n) for n in nums)

    # -- comparison helpers
    def close(self, obs, exp, exact=None):
        if not (isinstance(obs, F) or _num(obs)):
            return False
        if self.exact if exact is None else exact:
            return F(obs) == exp
        return abs(F(obs) - exp) <= TOL

    def add(self, kind, exp, obs, detail, step):
        self.dis.append((kind, _show(exp), _show(obs), detail, step))

    def pair(self, kind, obs, B, S, detail, step):
        if not (isinstance(obs, list) and len(obs) == 2 and
                self.close(obs[0], B) and self.close(obs[1], S)):
            self.add(kind, [B, S], obs, detail, step)
            return False
        return True

    # -- quantisation
    def ntog_ok(self, obs, q, ph, rb, b0):
        if not _num(obs):
            return False, 'error'
        exp = ref.next_time_on_grid(q, ph, rb, b0)
        o = F(obs)
        if self.exact:
            if o == exp:
                return True, None
            cands = [exp]
            tol = 0
        else:
            cands = [ref.next_time_on_grid(q, ph, F(rb) + e, b0)
                     for e in (-TOL, 0, TOL)]
            tol = TOL
            if any(abs(o - c) <= tol for c in cands):
                return True, None
        if o < F(rb) - tol:
            return False, 'before-ref'
        if F(q) > 0:
            # distance to the nearest grid point
            off = F(b0) + ref.grid_phase(q, ph)
            k = round((o - off) / F(q))
            if abs(o - (off + k * F(q))) > tol:
                return False, 'off-grid'
        elif abs(o - cands[0]) > tol:
            return False, 'off-grid'
        return False, 'not-earliest'

    def run(self, log):
        prog = self.prog
        a = ref.Affine(prog['tempo'])
        m = ref.Meter()
        n = len(prog['ops'])
        if log.get('budget'):
            self.add('wake-budget-exceeded', None, WAKE_LIMIT, '', n)
        if log.get('process_error'):
            self.add('process-raises', None, log['process_error'], '', n)
        if log.get('leaked_clocks'):
            # hygiene of the harness, not part of the property
            raise core.HarnessError(
                f'{log["leaked_clocks"]} TempoClock(s) survived the case')
        if 'start' not in log:
            self.add('routine-never-ran', 'first wake at beat 0', None,
                     'routine played on the clock with quant 0', 0)
            return self.dis
        self.pair('start-pair', log['start'], a.B, a.S,
                  'first wake-up of a routine played with quant 0 on a new '
                  'clock', 0)
        beats_set = False     # beats= since the last wake-up
        wake_beat = a.B       # beat at which the routine last woke up
        pend = {}             # spawned probes: tag -> [expected beat, open]
        steps = {s[0]: s for s in log['steps']}
        # player resumptions, grouped by the operation of the first routine
        # they precede in execution order (n = after the last one)
        pl = {'k': 0, 'dc': False}
        pev = {}
        nxt = 0
        for ev in log.get('events', ()):
            if ev[0] == 'c':
                nxt = ev[1] + 1
            else:
                pev.setdefault(nxt, []).append(ev)
        for i, op in enumerate(prog['ops']):
            self.player(pev.get(i, ()), a, pl, i)
            s = steps.get(i)
            if s is None:
                self.add('step-missing', op, None,
                         'routine did not reach this operation', i)
                return self.dis
            _, pre, post, err = s
            k = op[0]
            b_before = a.B
            if err is not None:
                self.add(f'{k}-raises', None, err, str(op), i)
                return self.dis
            self.pair(f'{k}-pre-pair', pre, a.B, a.S, 'pair read before '
                      'the operation', i)
            if k == 'yield':
                if beats_set:
                    # the statement leaves the wake-up point after beats=
                    # open; the pair must lie on the one affine map
                    ok = isinstance(post, list) and _num(post[0]) and \
                        _num(post[1])
                    if ok:
                        res = a.map_residual(post[0], post[1])
                        ok = res == 0 if self.exact else abs(res) <= TOL
                    if not ok:
                        self.add('wake-off-map-after-beats-set',
                                 f'on beats = {a.aB} + {a.T}*(s - {a.aS})',
                                 post, str(op), i)
                        return self.dis
                    a.jump(post[0], post[1])
                else:
                    B, S = a.advance(op[1])
                    if not self.pair('yield-advance', post, B, S,
                                     f'wake-up after a delta of {op[1]} '
                                     f'beats at tempo {a.T}', i):
                        return self.dis
                beats_set = False
                wake_beat = a.B
            elif k in ('tempo', 'etempo'):
                a.set_tempo(op[1])
                if not self.pair(f'{k}-discontinuity', post, a.B, a.S,
                                 'pair read right after the tempo change',
                                 i):
                    return self.dis
            elif k == 'beats':
                a.set_beats(op[1])
                beats_set = True
                pl['dc'] = True
                if not self.pair('beats-set-pair', post, a.B, a.S,
                                 'after beats = v the current beat is v '
                                 'and the second is unchanged', i):
                    return self.dis
            elif k == 'bpb':
                m.set(a.B, op[1])
                if not self.pair('meter-discontinuity', post, a.B, a.S,
                                 'pair read right after beats_per_bar = v',
                                 i):
                    return self.dis
            elif k == 'spawn':
                self.pair('spawn-moves-clock', post, a.B, a.S, '', i)
                tag = f's{i}'
                r = ref.next_time_on_grid(op[1], op[2], a.B, m.b0)
                pend[tag] = {'beat': r, 'op': i, 'at': a.B,
                             'tempo_changed': False, 'beats_changed': False}
            # pending probes: what happened to the map while they waited
            # (a probe is still waiting while the beat is before its target)
            for p in pend.values():
                if p['op'] == i or p['beats_changed']:
                    continue
                if k in ('tempo', 'etempo') and b_before < p['beat']:
                    p['tempo_changed'] = True
                elif k == 'beats' and b_before <= p['beat']:
                    # (a probe due at this very beat may still be queued
                    # behind the running routine)
                    p['beats_changed'] = True
        self.final(log, a, m, n)
        self.pending(log, a, m, pend, n)
        self.player(pev.get(n, ()), a, pl, n)
        pp = prog.get('player')
        if pp and not pl['dc'] and pl['k'] != pp['count'] + 1:
            self.add('player-resumptions-missing', pp['count'] + 1, pl['k'],
                     'number of wake-ups of the second routine', n)
        # the reference state (part of the history engine's state key)
        self.model = [str(x) for x in (a.T, a.B, a.S, a.aB, a.aS, m.b0,
                                       m.bpb)] + [
            beats_set, str(wake_beat) if beats_set else None,
            pl['dc']] + [
            [t, str(p['beat']), p['tempo_changed'], p['beats_changed']]
            for t, p in sorted(pend.items())]
        return self.dis

    def player(self, evs, a, pl, step):
        """The second routine was played at beat 0 with quant 0 and yields
        `delta` each time: its k-th resumption is at beat k*delta and at the
        second the map in force at that moment gives for that beat.  After
        a `beats =` of the first routine the statement does not decide where
        pending tasks go: accepted from then on."""
        pp = self.prog.get('player')
        for ev in evs:
            if pl['dc']:
                continue
            _, k, b, sec = ev
            if k != pl['k']:
                self.add('player-resumption-order', pl['k'], k, '', step)
                pl['dc'] = True
                continue
            pl['k'] += 1
            eb = ref.frac(pp['delta']) * k
            if not self.close(b, eb):
                self.add('player-resume-beat', [eb, a.secs_at(eb)], [b, sec],
                         f'resumption {k} of a routine yielding '
                         f'{pp["delta"]} beats on the clock while another '
                         f'routine changes the tempo (tempo now {a.T})',
                         step)
                pl['dc'] = True
            elif not self.close(sec, a.secs_at(eb)):
                self.add('player-resume-seconds', [eb, a.secs_at(eb)],
                         [b, sec], f'resumption {k}; map in force: beats = '
                         f'{a.aB} + {a.T}*(s - {a.aS})', step)
                pl['dc'] = True

    def pending(self, log, a, m, pend, n):
        """Probes spawned by a ['spawn', q, ph] operation wake at the beat
        next_time_on_grid gave when they were played.  After `beats =` the
        statement does not decide where pending tasks go: accepted."""
        for tag in sorted(pend):
            p = pend[tag]
            w = log['wakes'].get(tag)
            if p['beats_changed']:
                continue
            kind = 'pending-play-wake'
            if p['tempo_changed']:
                kind = 'pending-play-wake-after-tempo-change'
            if not (isinstance(w, list) and len(w) == 2 and _num(w[0])):
                self.add(kind + '-missing', [p['beat'], None], w,
                         f'probe played at step {p["op"]}', n)
                continue
            if not self.close(w[0], p['beat']):
                self.add(kind, p['beat'], w,
                         f'probe played with a quant at step {p["op"]} '
                         f'(beat {p["at"]}) first woke at another beat', n)

    def final(self, log, a, m, n):
        s = log.get('final')
        fin = self.prog.get('final') or {}
        if s is None:
            self.add('routine-did-not-finish', None, None, '', n)
            return
        B, S, T = a.B, a.S, a.T
        self.pair('final-pair', s['pair'], B, S, '', n)
        self.pair('queries-move-clock', s['pair_after'], B, S,
                  'pair read after the read-only queries', n)
        if not self.close(s['tempo'], T, exact=True):
            self.add('tempo-readback', T, s['tempo'], '', n)
        if not self.close(s['beat_dur'], 1 / T):
            self.add('beat-dur-readback', 1 / T, s['beat_dur'], '', n)
        if not self.close(s['elapsed_beats'], B):
            self.add('elapsed-beats-nrt', B, s['elapsed_beats'],
                     'NRT: elapsed time is logical time', n)
        if not self.close(s['b2s_now'], S):
            self.add('beats2secs-of-now', S, s['b2s_now'],
                     'beats2secs(clock.beats) is clock.seconds', n)
        if not self.close(s['s2b_now'], B):
            self.add('secs2beats-of-now', B, s['s2b_now'],
                     'secs2beats(clock.seconds) is clock.beats', n)
        for x, y, back in s['conv_beats']:
            if not self.close(y, a.secs_at(x)):
                self.add('beats2secs-off-map', a.secs_at(x), y,
                         f'beats2secs({x})', n)
            elif not self.close(back, F(x)):
                self.add('secs2beats-beats2secs-not-identity', x, back,
                         f'x={x}', n)
        for x, y, back in s['conv_secs']:
            if not self.close(y, a.beats_at(x)):
                self.add('secs2beats-off-map', a.beats_at(x), y,
                         f'secs2beats({x})', n)
            elif not self.close(back, F(x)):
                self.add('beats2secs-secs2beats-not-identity', x, back,
                         f'x={x}', n)
        # ---- meter
        bex = self.exact and ref.is_pow2(m.bpb)      # bars exact?
        if not self.close(s['bpb'], m.bpb, exact=True):
            self.add('beats-per-bar-readback', m.bpb, s['bpb'], '', n)
        if not self.close(s['bbb'], m.b0):
            self.add('base-bar-beat', m.b0, s['bbb'],
                     'beat of the last meter change', n)
        for x, bars, back, nb in s['bar_beats']:
            if not _num(bars) or not self.close(back, F(x), exact=bex):
                self.add('bars2beats-beats2bars-not-identity', x,
                         [bars, back], f'x={x} bpb={m.bpb} b0={m.b0}', n)
            self.next_bar(nb, x, m, f'next_bar({x})', n)
        prev = None
        for k, beats, back in s['bars']:
            if not _num(beats) or not self.close(back, F(k), exact=bex):
                self.add('beats2bars-bars2beats-not-identity', k,
                         [beats, back], f'k={k} bpb={m.bpb} b0={m.b0}', n)
                continue
            if F(k).denominator == 1:
                j = round((F(beats) - m.b0) / m.bpb)
                if not self.close(beats, m.b0 + j * m.bpb):
                    self.add('bars2beats-of-whole-bar-not-a-bar-line',
                             f'{m.b0} + j*{m.bpb}', beats,
                             f'bars2beats({k})', n)
            if prev is not None and not self.close(
                    F(beats) - F(prev[1]), (F(k) - F(prev[0])) * m.bpb,
                    exact=False):
                self.add('bar-length-not-beats-per-bar',
                         (F(k) - F(prev[0])) * m.bpb,
                         F(beats) - F(prev[1]),
                         f'bars2beats({k}) - bars2beats({prev[0]})', n)
            prev = [k, beats]
        self.next_bar(s['next_bar'], B, m, 'next_bar() of the current beat',
                      n, cur=True)
        # ---- quantisation
        for q, ph, rb, r, t in s['ntog']:
            cur = rb is None
            rbx = B if cur else rb
            ok, why = self.ntog_ok(r, q, ph, rbx, m.b0)
            if not ok:
                self.add(f'ntog-{why}' + ('-curbeat' if cur else ''),
                         ref.next_time_on_grid(q, ph, rbx, m.b0), r,
                         f'next_time_on_grid({q}, {ph}'
                         + ('' if cur else f', {rb}') + f') meter change at '
                         f'{m.b0}, current beat {B}', n)
            elif cur and not (_num(t) and self.close(F(t), F(r) - B,
                                                      exact=False)):
                self.add('time-to-next-beat-inconsistent', F(r) - B, t,
                         f'time_to_next_beat(({q}, {ph})) vs '
                         f'next_time_on_grid - beats', n)
        for j, (q, ph) in enumerate(fin.get('play', ())):
            w = log['wakes'].get(f'p{j}')
            exp = ref.next_time_on_grid(q, ph, B, m.b0)
            if not (isinstance(w, list) and len(w) == 2 and _num(w[0])
                    and _num(w[1])):
                self.add('play-quant-no-wake', [exp, a.secs_at(exp)], w,
                         f'play(quant=({q}, {ph})) at beat {B}', n)
                continue
            ok, why = self.ntog_ok(w[0], q, ph, B, m.b0)
            if not ok:
                self.add(f'play-quant-wake-{why}', exp, w,
                         f'play(quant=({q}, {ph})) at beat {B}, meter '
                         f'change at {m.b0}', n)
            elif not self.close(w[1], a.secs_at(F(w[0])), exact=False):
                self.add('play-quant-wake-seconds', a.secs_at(exp), w,
                         f'play(quant=({q}, {ph})) at beat {B}', n)

    def next_bar(self, nb, x, m, what, n, cur=False):
        sfx = '-curbeat' if cur else ''
        if not _num(nb):
            self.add('next-bar-error' + sfx, None, nb, what, n)
            return
        exact = self.exact and ref.is_dyadic(m.bpb)
        o = F(nb)
        x = F(x)
        if exact:
            cands = [ref.next_bar(x, m.b0, m.bpb)]
            tol = 0
        else:
            cands = [ref.next_bar(x + e, m.b0, m.bpb)
                     for e in (-TOL, 0, TOL)]
            tol = TOL
        if any(abs(o - c) <= tol for c in cands):
            return
        if o < x - tol:
            why = 'before-beat'
        else:
            k = round((o - m.b0) / m.bpb)
            if abs(o - (m.b0 + k * m.bpb)) > tol:
                why = 'not-a-bar-line'
            else:
                why = 'not-earliest'
        self.add(f'next-bar-{why}{sfx}', cands[len(cands) // 2], nb,
                 f'{what}: bars start at {m.b0} + k*{m.bpb}', n)


def _show(x):
    if isinstance(x, F):
        return float(x) if ref.is_dyadic(x) else str(x)
    if isinstance(x, (list, tuple)):
        return [_show(y) for y in x]
    return x


_MEMO = {}


def check_prog(prog, last_only=False, memo=False):
    """-> (disagreements [(kind, exp, obs, detail)], log).  `memo`: the
    result is a pure function of the program, so the history engine (which
    rebuilds every prefix for every child) may reuse it inside one worker."""
    if memo:
        mk = core.canon(prog)
        hit = _MEMO.get(mk)
        if hit is None:
            if len(_MEMO) > 20000:
                _MEMO.clear()
            log = execute(prog)
            j = Judge(prog)
            hit = _MEMO[mk] = (j.run(log), log)
            log['model'] = getattr(j, 'model', None)
        dis, log = hit
    else:
        log = execute(prog)
        j = Judge(prog)
        dis = j.run(log)
        log['model'] = getattr(j, 'model', None)
    if last_only:
        n = len(prog['ops'])
        dis = [d for d in dis if d[4] >= n - 1]
    return [d[:4] for d in dis], log


# ---------------------------------------------------------------------------
# E1: the grid

def _ints(x, on):
    """Integral values become Python ints in the 'ints' variant."""
    if on and isinstance(x, float) and x == int(x):
        return int(x)
    return x


def grid_cases(g):
    """All cases of grid `g` in canonical order (simplest first)."""
    for tempo in g['tempos']:
        for b0, bpb in g['meters']:
            for rb in g['refs']:
                for q in g['quants']:
                    if q == 0:
                        phases = [0.0]
                    else:
                        phases = [p for p in g['phases'] if -q < p < q]
                    for ph in phases:
                        for ints in (False, True):
                            if ints and not any(
                                    isinstance(v, float) and v == int(v)
                                    for v in (tempo, q, ph, rb, bpb, b0)):
                                continue
                            yield {'tempo': tempo, 'b0': b0, 'bpb': bpb,
                                   'ref': rb, 'q': q, 'ph': ph, 'ints': ints}


def grid_prog(case):
    i = case['ints']
    ops = []
    cur = 0.0
    b0, bpb, rb = case['b0'], case['bpb'], case['ref']
    if b0 > 0:
        ops.append(['yield', _ints(b0, i)])
        cur = b0
    if bpb is not None:
        ops.append(['bpb', _ints(bpb, i)])
    if rb > cur:
        ops.append(['yield', _ints(rb - cur, i)])
    elif rb < cur:
        ops.append(['beats', _ints(rb, i)])
    q, ph = _ints(case['q'], i), _ints(case['ph'], i)
    eff_bpb = bpb if bpb is not None else 4.0
    return {'tempo': _ints(case['tempo'], i), 'ops': ops, 'final': {
        'conv_beats': [_ints(rb, i), -1.25, 3],
        'conv_secs': [0.75, _ints(2.0, i)],
        'bar_beats': [_ints(rb, i), b0 + eff_bpb, 2.5],
        'bars': [_ints(1.0, i), -0.5],
        'ntog': [[q, ph, _ints(rb, i)], [q, ph, None]],
        'play': [[q, ph]]}}


def grid_nontrivial(case):
    """Boundary of the domain: the reference beat is itself a grid point or
    a bar line, lies before the meter change, the phase is negative (wraps),
    quant is 0, or ints and floats are mixed."""
    b0 = case['b0']
    bpb = case['bpb'] if case['bpb'] is not None else 4.0
    r = ref.next_time_on_grid(case['q'], case['ph'], case['ref'], b0)
    return bool(r == F(case['ref']) or case['ph'] < 0 or case['q'] == 0
                or case['ref'] < b0 or case['ints']
                or ref.on_bar_line(case['ref'], b0, bpb))


def grid_standalone(case):
    prog = grid_prog(case)
    lines = [
        'import sc3; sc3.init("nrt")',
        'from sc3.base.main import main',
        'from sc3.base.clock import TempoClock, Quant',
        'from sc3.base.stream import Routine',
        f'clock = TempoClock({prog["tempo"]!r})',
        'def probe():',
        '    print("probe woke at beat", clock.beats, "second", '
        'clock.seconds)',
        'def body(inval):',
        '    _, c = inval']
    for op in prog['ops']:
        if op[0] == 'yield':
            lines.append(f'    yield {op[1]!r}')
        elif op[0] == 'beats':
            lines.append(f'    c.beats = {op[1]!r}')
        elif op[0] == 'bpb':
            lines.append(f'    c.beats_per_bar = {op[1]!r}')
    q, ph, rb = prog['final']['ntog'][0]
    lines += [
        '    print("beats", c.beats, "seconds", c.seconds)',
        f'    print("next_time_on_grid", c.next_time_on_grid({q!r}, {ph!r}, '
        f'{rb!r}), c.next_time_on_grid({q!r}, {ph!r}))',
        '    print("next_bar", c.next_bar())',
        f'    Routine(probe).play(c, Quant({q!r}, {ph!r}))',
        'Routine(body).play(clock, 0)',
        'main.process()']
    return '\n'.join(lines)


def work(job):
    acc = progenum.Acc()
    for idx, case in enumerate(grid_cases(job['grid'])):
        if idx % job['of'] != job['shard']:
            continue
        prog = grid_prog(case)
        dis, log = check_prog(prog)
        for kind, exp, obs, detail in dis:
            acc.violation(kind, {'grid': case}, exp, obs, detail,
                          standalone=grid_standalone(case))
        f = log.get('final') or {}
        acc.case({'grid': case}, nontrivial=grid_nontrivial(case),
                 outcome=[f.get('ntog'), log.get('wakes'),
                          f.get('next_bar'), f.get('pair')],
                 steps=len(prog['ops']) + 1)
    return acc.result()


# ---------------------------------------------------------------------------
# E1b: explicit reference beats queried while the clock is somewhere else

ROUTES = [[['yield', 1.25]], [['yield', 5.5]],
          [['yield', 0.5], ['beats', -0.75]],
          [['yield', 0.5], ['beats', 7.75]]]


def ref_forms(refs):
    """Every reference beat as a float and, where integral, as an int too
    (0 and 0.0 are both in the set)."""
    out = []
    for r in refs:
        out.append(r)
        if r == int(r):
            out.append(int(r))
    return out


def offref_cases(g):
    for tempo in g['tempos']:
        for b0, bpb in g['meters']:
            for route in range(len(ROUTES)):
                for q in g['quants']:
                    phases = [0.0] if q == 0 else \
                        [p for p in g['phases'] if -q < p < q]
                    for ph in phases:
                        for ints in (False, True):
                            if ints and not any(
                                    isinstance(v, float) and v == int(v)
                                    for v in (tempo, q, ph, bpb)):
                                continue
                            yield {'tempo': tempo, 'b0': b0, 'bpb': bpb,
                                   'route': route, 'q': q, 'ph': ph,
                                   'ints': ints, 'refs': 'all'}


def offref_prog(case, g_refs):
    i = case['ints']
    ops = []
    if case['b0'] > 0:
        ops.append(['yield', _ints(case['b0'], i)])
    if case['bpb'] is not None:
        ops.append(['bpb', _ints(case['bpb'], i)])
    ops += ROUTES[case['route']]
    refs = ref_forms(g_refs) if case['refs'] == 'all' else case['refs']
    q, ph = _ints(case['q'], i), _ints(case['ph'], i)
    return {'tempo': _ints(case['tempo'], i), 'ops': ops, 'final': {
        'conv_beats': [], 'conv_secs': [], 'bars': [],
        'bar_beats': refs, 'ntog': [[q, ph, r] for r in refs], 'play': []}}


def work_offref(job):
    acc = progenum.Acc()
    g = job['grid']
    narrowed = {}
    for idx, case in enumerate(offref_cases(g)):
        if idx % job['of'] != job['shard']:
            continue
        prog = offref_prog(case, g['refs'])
        dis, log = check_prog(prog)
        full = dict(case, refs=ref_forms(g['refs']))
        for kind, exp, obs, detail in dis:
            acc.violation(kind, {'offref': full}, exp, obs, detail)
            # report the single failing reference beat (queries are
            # read-only and independent); bounded work per shard
            if narrowed.get(kind, 0) < 2:
                narrowed[kind] = narrowed.get(kind, 0) + 1
                for r in full['refs']:
                    one = dict(case, refs=[r])
                    for k2, e2, o2, d2 in check_prog(
                            offref_prog(one, g['refs']))[0]:
                        if k2 == kind:
                            acc.violation(k2, {'offref': one}, e2, o2, d2)
        f = log.get('final') or {}
        # non-trivial: every case asks for references that differ from the
        # current beat and include grid points, bar lines, beats before the
        # meter change and both an int and a float zero
        acc.case({'offref': case}, nontrivial=True,
                 outcome=[f.get('ntog'), f.get('bar_beats'), f.get('pair')],
                 steps=len(prog['ops']) + 1)
    return acc.result()


# ---------------------------------------------------------------------------
# E2: histories

FINAL_E2 = {
    'conv_beats': [-1.25, 0, 7.5],
    'conv_secs': [0, 0.75],
    'bar_beats': [-0.5, 0, 0.0, 2.0, 6.25],
    'bars': [0, 1, 2.5],
    'ntog': [[1, 0, None], [4, 0, None], [1.5, 0.5, None], [2, -0.5, None],
             [0, 0, None], [1, 0.25, 3], [4.0, -1.0, -2.5], [0.5, 0, 6.25],
             [4, 0, 0], [1.5, 0.5, 0.0], [0, 0, 0]],
    'play': [[1, 0], [4, -1], [1.5, 0.5]]}


class AffineSys:
    """One routine on the clock performing the history.  The whole program
    is re-executed for every step, so no library object survives a case.

    State key = the eight map/meter fields of the real clock, the current
    (beats, seconds), the reference state (map, meter, and - while a beats=
    is outstanding - the beat at which the routine last woke, because the
    library reschedules from that beat), the verdict of the last step and
    the inputs of the non-trivial rule.  A TempoClock has no other state in
    NRT mode apart from tasks waiting in the scheduler; the pending system
    adds the played probes and all their observed wake-ups to the key.  So
    histories that are merged have the same futures and the same counts."""

    spawn = False
    final = FINAL_E2

    def __init__(self, params):
        self.params = params
        self.hist = []
        self.log = None
        self.last_kinds = []

    def ops(self):
        p = self.params
        o = [['yield', d] for d in p['deltas']]
        o += [['tempo', v] for v in p['tempos']]
        o += [['etempo', v] for v in p.get('etempos', ())]
        o += [['beats', v] for v in p['beats']]
        o += [['bpb', v] for v in p['bpbs']]
        if self.spawn:
            n = sum(1 for h in self.hist if h[0] == 'spawn')
            if n < p.get('max_spawn', 2):
                o += [['spawn', q, ph] for q, ph in p['quants']]
        return o

    def apply(self, op):
        self.hist.append(op)
        prog = {'tempo': self.params['tempo'], 'ops': list(self.hist),
                'final': self.final}
        if self.params.get('player'):
            prog['player'] = self.params['player']
        dis, self.log = check_prog(prog, last_only=True, memo=True)
        self.last_kinds = sorted(set(d[0] for d in dis))
        return dis

    def key(self):
        f = (self.log or {}).get('final') or {}
        # everything the clock's future behaviour depends on: the map and
        # meter fields, the current instant, and (pending system) the
        # outstanding probes
        k = [f.get('impl'), f.get('pair')]
        if self.spawn:
            k.append([h for h in self.hist if h[0] == 'spawn'])
            k.append(self.log.get('spawned') if self.log else None)
            k.append(sorted((self.log or {}).get('wakes', {}).items()))
        if self.params.get('player'):
            k.append([e for e in (self.log or {}).get('events', ())
                      if e[0] == 'p'])
        k.append(self._beats_set_since_wake())
        # reference state, verdict of the last step and the non-trivial
        # flag: merged histories must agree on them, so that the counts do
        # not depend on which history reaches a state first
        k.append((self.log or {}).get('model'))
        k.append(self.last_kinds)
        k.append(self._nt_state())
        return k

    def _beats_set_since_wake(self):
        for h in reversed(self.hist):
            if h[0] == 'yield':
                return False
            if h[0] == 'beats':
                return True
        return False

    def _nt_state(self):
        """(non-trivial, a yield was seen, re-basing operations since the
        last yield capped at 2): non-trivial = a re-basing operation
        (tempo/etempo/beats/meter) happens away from the origin (after a
        yield), or two of them happen at one instant."""
        seen_yield = False
        streak = 0
        nt = False
        for h in self.hist:
            if h[0] == 'yield':
                seen_yield = True
                streak = 0
            elif h[0] in ('tempo', 'etempo', 'beats', 'bpb'):
                streak = min(streak + 1, 2)
                if seen_yield or streak >= 2:
                    nt = True
        return [nt, seen_yield, streak]

    def nontrivial(self):
        return self._nt_state()[0]

    def outcome(self):
        f = (self.log or {}).get('final') or {}
        return [f.get('pair'), f.get('ntog'), f.get('next_bar'),
                (self.log or {}).get('wakes')]


class PendingSys(AffineSys):
    """Adds ['spawn', q, ph]: a probe routine is played with a quant and is
    still pending while the history goes on."""
    spawn = True


class PlayerSys(AffineSys):
    """A second routine (params['player']) is played on the clock at beat 0
    and resumes every `delta` beats while the first routine performs the
    history; all its resumptions (during and after the history) are part of
    the state key."""
    final = {'conv_beats': [0], 'conv_secs': [0.75], 'bar_beats': [2.0],
             'bars': [1], 'ntog': [[1, 0, None]], 'play': [[1, 0]]}


SYSTEMS = {'affine': AffineSys, 'pending': PendingSys, 'player': PlayerSys}


def replay(job):
    case = job['case']
    if 'grid' in case:
        dis, log = check_prog(grid_prog(case['grid']))
        return {'violates': any(d[0] == job['kind'] for d in dis),
                'disagreements': [[d[0], repr(d[1]), repr(d[2])]
                                  for d in dis]}
    if 'offref' in case:
        c = case['offref']
        dis, log = check_prog(offref_prog(c, c['refs']))
        return {'violates': any(d[0] == job['kind'] for d in dis),
                'disagreements': [[d[0], repr(d[1]), repr(d[2])]
                                  for d in dis][:40]}
    return histbfs.replay(job)


# ---------------------------------------------------------------------------

def _quarter(lo, hi):
    n = int((hi - lo) * 4)
    return [lo + k * 0.25 for k in range(n + 1)]


GRID_Q = {
    'tempos': [1.0, 2.0, 0.5, 3.0],
    'meters': [[0.0, None], [0.0, 3.0], [1.5, 3.0], [1.5, 4.0], [3.0, 2.0]],
    'refs': _quarter(-2.0, 6.0),
    'quants': [0.0, 1.0, 0.5, 1.5, 2.0, 4.0],
    'phases': _quarter(-4.0, 4.0)}

GRID_T = {
    'tempos': [1.0, 2.0, 0.5, 4.0, 3.0, 1.5],
    'meters': [[0.0, None], [0.0, 3.0], [0.0, 1.5], [1.5, 3.0], [1.5, 4.0],
               [1.5, 2.0], [3.0, 3.0], [3.0, 2.0], [3.0, 0.5]],
    'refs': _quarter(-2.0, 10.0),
    'quants': [0.0, 1.0, 0.5, 1.5, 2.0, 4.0, 3.0],
    'phases': _quarter(-4.0, 4.0)}

AFF_Q = {'tempo': 1.0, 'deltas': [0.25, 1.0, 1.5], 'tempos': [2.0, 0.5],
         'etempos': [4.0], 'beats': [0.0, 2.5], 'bpbs': [3.0, 2.0]}
AFF_3 = {'tempo': 2.0, 'deltas': [0.25, 1], 'tempos': [3.0, 1],
         'etempos': [], 'beats': [-1.0], 'bpbs': [3, 1.5]}
AFF_T = {'tempo': 1.0, 'deltas': [0.25, 1.0, 1.5], 'tempos': [2.0, 0.5, 3.0],
         'etempos': [4.0], 'beats': [0.0, 2.5, -1.0], 'bpbs': [3.0, 2.0]}
PEND_Q = {'tempo': 1.0, 'deltas': [0.5, 1.0], 'tempos': [2.0],
          'etempos': [], 'beats': [0.0], 'bpbs': [3.0],
          'quants': [[4, 0], [1.5, 0.5]], 'max_spawn': 1}
PEND_T = {'tempo': 1.0, 'deltas': [0.5, 1.0, 2.25], 'tempos': [2.0, 0.5],
          'etempos': [4.0], 'beats': [0.0, 5.0], 'bpbs': [3.0],
          'quants': [[4, 0], [1.5, 0.5], [1, -0.25]], 'max_spawn': 2}


PLAY_Q = {'tempo': 1.0, 'deltas': [0.5, 1.0], 'tempos': [2.0, 0.5],
          'etempos': [4.0], 'beats': [2.5], 'bpbs': [],
          'player': {'delta': 1.0, 'count': 8}}
PLAY_T = {'tempo': 1.0, 'deltas': [0.5, 1.0, 2.25], 'tempos': [2.0, 0.5, 3.0],
          'etempos': [4.0], 'beats': [2.5, 0.0], 'bpbs': [3.0],
          'player': {'delta': 0.75, 'count': 20}}


def main(ctx):
    ctx.rule = (
        'E1: full product grid (tempo x meter change (beat, beats_per_bar) '
        'x reference beat x quant x every phase in (-quant, quant) on the '
        'quarter grid x {floats, ints where integral}); each case is a '
        'routine on a fresh TempoClock that reaches the reference beat by '
        'yields (or beats= when it lies in the past) and then queries '
        'next_time_on_grid (explicit and current reference), '
        'time_to_next_beat, play(quant) of a probe, both conversions and '
        'next_bar.  Non-trivial = reference beat is itself a grid point or '
        'bar line, lies before the meter change, phase negative, quant 0, '
        'or ints and floats mixed.  E1b (offref): for every (tempo, meter, '
        'route to a current beat b0+1.25 / b0+5.5 / beats=-0.75 / '
        'beats=7.75, quant, phase, number type) next_time_on_grid(q, ph, x) '
        'and next_bar(x) are queried for the whole reference-beat set '
        '(float and int forms, 0 and 0.0) while the clock is at another '
        'beat; all of these cases are non-trivial.  E2: BFS over all histories of '
        '{yield d, tempo=, etempo(), beats=, beats_per_bar=[, play(probe, '
        'quant)]} executed by one routine on the clock, states merged on '
        'the eight map/meter fields of the clock plus the current '
        '(beats, seconds); non-trivial = a re-basing operation happens '
        'after a yield or two happen at one instant.  The player system '
        'runs a second routine on the same clock that yields a fixed delta '
        'while the first performs the history; every resumption must be at '
        'beat k*delta and at the second the map in force gives for it.')
    ctx.assumptions += [
        'reference mc/oracles/tempo_ref.py: affine map, quantisation grid '
        'and bar lines over Fractions, written from the property statement',
        'exact comparison when every tempo is a power of two and all values '
        'are dyadic (bars: beats_per_bar a power of two as well); otherwise '
        'tolerance 1e-9 and, for the step functions next_time_on_grid / '
        'next_bar / play(quant), either value of the step within 1e-9 of '
        'the reference beat is accepted',
        'don\'t-cares: where a routine wakes after it has set beats= itself '
        '(only required to lie on the affine map); where probes that were '
        'or a second routine that were pending during a beats= change '
        'wake; bar *numbers* (only bar lines '
        'and the inverse laws are checked); constructor arguments beats/'
        'seconds; negative tempo via etempo; quant < 0',
        'NRT mode only: elapsed time equals logical time, so etempo() is '
        'tempo= and the real-time clock thread (_run) is not exercised']
    ctx.bounds['mode'] = 'nrt only (RT-virtual mode not available)'
    if ctx.tier == 'quick':
        grid, nsh = GRID_Q, 64
        e2 = [('affine', AFF_Q, 5), ('affine', AFF_3, 5),
              ('pending', PEND_Q, 5), ('player', PLAY_Q, 5)]
    else:
        grid, nsh = GRID_T, 256
        e2 = [('affine', AFF_T, 6), ('affine', AFF_3, 7),
              ('pending', PEND_T, 5), ('player', PLAY_Q, 6),
              ('player', PLAY_T, 5)]
    ctx.bounds['grid_alphabet'] = {k: (v if len(v) < 12 else
                              f'{v[0]}..{v[-1]} step 0.25 ({len(v)})')
                          for k, v in grid.items()}
    jobs = [{'grid': grid, 'shard': i, 'of': nsh} for i in range(nsh)]
    progenum.run(ctx, MODNAME, 'work', jobs, mode='nrt', bound='grid')
    ctx.bounds['offref_routes'] = ROUTES
    jobs = [{'grid': grid, 'shard': i, 'of': nsh} for i in range(nsh)]
    progenum.run(ctx, MODNAME, 'work_offref', jobs, mode='nrt',
                 bound='offref')
    for name, params, depth in e2:
        histbfs.run(ctx, MODNAME, name, params, depth, mode='nrt', batch=32)


# ---------------------------------------------------------------------------
# Known-finding predicates

def _pending_tempo_only(v):
    h = v['case'].get('history', [])
    return any(op[0] == 'spawn' for op in h) and \
        not any(op[0] == 'beats' for op in h)


PREDICATES = {'pending_probe_tempo_change_no_beats_set': _pending_tempo_only}
