"""C17 - client objects speak the server command protocol and keep ids
consistent.

E2 (histbfs) over the real Synth / Group / ParGroup / Buffer / ControlBus /
AudioBus objects and `Server.bind()` in NRT mode.  The wire is what enters the
NRT score: every entry's raw datagram is captured in issue order (capture on
the score queue's `add`), decoded with the strict OSC 1.0 decoder
(mc/oracles/osc10.py) and validated against the Server Command Reference
schemas (mc/oracles/server_cmds.py).

Oracle clauses (each traced to a phrase of the property statement):
  L1  every message on the wire validates against the command reference
      (name, count, order, types)                     -> kind schema:<cmd>
      and every id in an id position (node, target, buffer number, bus index,
      bus mapping symbol, also inside completion messages) is one the client
      currently has allocated (or 0 = root, 1 = default group, -1 = "no id")
                                                     -> kind unallocated-id:<role>
  L2/L3 the operation emits the command the reference defines for it, with the
      object's own id and the caller's arguments in order (objects replaced by
      their ids, lists as [ ] arrays)                -> kind emission:<op>
  L4  freeing emits one free command per owned id, the ids go back to the
      allocator (used blocks of the real allocator == live ranges of the
      model), nothing is emitted by a second free of a buffer or bus
                                                     -> emission:<op>, allocator-state:<kind>
  L5  bind(): nothing reaches the wire while the block is open; a normal exit
      sends exactly one bundle holding the block's messages in issue order; an
      exit by exception sends nothing; the server address is restored
                                                     -> bind-*
      A bind() block opened inside an open bind() block (params 'nest': 2):
      nothing reaches the wire before the OUTER block exits; what the inner
      block collected becomes, in issue order, part of the outer block when
      it exits normally and is dropped when it raises.
  L6  every command of an operation is addressed to the server its object
      lives on (the (host, port) handed to the OSC interface is captured with
      every score entry; ids, allocators and the model are kept per server:
      a second Server object 'c17b' with its own allocators)
                                                     -> wrong-server:<op>, own-server:<kind>
  L7  sub-bus views (family 'subbus'): for parents of 1-4 channels of both
      rates EVERY view sub_bus/new_from(offset in 0..parent+2, channels in
      1..parent+2) is used by clear/setn/getn/set and as the bus of
      mapn/mapan/a map symbol: a view inside the parent's block works and
      names index + offset; any other view is refused (exception, nothing
      emitted) or its command names only indices of the parent's live block
      (a neighbouring bus of the client does not make an index legal)
                                                     -> sub-bus-outside-parent
Don't-cares: time tags; message-vs-bundle packaging outside bind(); the value
sent by release(); int-vs-float of numeric values; order of the /b_free
commands of free_all and of the /b_alloc commands of new_consecutive; a second
free() of a *node* (node ids are never recycled and the client cannot know
whether a node still exists; sclang sends /n_free again) may emit nothing or
the same /n_free; any exception from using a freed buffer/bus object (but it
must not emit anything); use of Buffer objects after Buffer.free_all() and
partial freeing of a new_consecutive group (documented as unsupported) are not
in the alphabet.  Also: the number of frames Buffer.cue() asks for (-1 or the
buffer's size; anything when the client does not know the size); whether
Buffer.write() appends the header format to a path without extension; whether
Synth.seti() cuts a list value that does not fit the control; objects of the
second server are not used while a bind() block of the default server is
open (whose block they belong to is not decided); `yield from s.sync()` inside a block and the
file-based Buffer transfers (load_list, new_load_list: write a temp file with
a random name and leave it behind; load_to_list: reads a file only a running
server writes) are not in the alphabet.

E1 family 'bigblock' (check_bigblock): one bind() block holding 100..2500
/n_set commands, 100..1500 synth creations, one /b_setn of 1000..15000
values, or such a message between small commands, with encoded sizes just
under / over 8192 bytes, mid-range, just under / over the datagram limit
(65504 bytes).  Up to the limit exactly ONE bundle is demanded (size computed
with the independent encoder); above it any number of bundles is accepted;
order and content are strict everywhere.

E1 family 'stream' (check_stream): Buffer.send_list / new_send_list with
{1, 1625, 1626, 1627, 3252, 3253, 4000} samples, 1|2 channels, start frame
0|3, wait left out|-1|0|0.01, with and without action, and
Buffer.get_to_list with {1, 1632, 1633, 1634, 3266, 3267, 4000, whole buffer}
samples from index 0|3; each in a fresh state, driven by main.process().
Every message must validate against the reference (count == number of values
carried), name the buffer's own id, go to its server, and the /b_setn (/b_getn)
packets must cover exactly the list (the range) in order from the start
sample.  The packet size itself, time tags, whether the action runs and the
score's own end marker (/c_set 0 0 of OscScore.finish) are don't-cares.
"""

from mc import core
from mc.engines import histbfs
from mc.oracles import server_cmds, osc10

MODE = 'nrt'
MODNAME = 'mc.checks.c17'

# --- reference tables (Server Command Reference / sc3 API docs) -----------

ACTION = {'addToHead': 0, 'addToTail': 1, 'addBefore': 2, 'addAfter': 3,
          'addReplace': 4, 'head': 0, 'tail': 1, 'before': 2, 'after': 3,
          'replace': 4, 'h': 0, 't': 1, 'b': 2, 'a': 3, 'r': 4,
          0: 0, 1: 1, 2: 2, 3: 3, 4: 4}
ROOT = 0
DEFAULT_GROUP = 1           # client id 0
DEFNAME = 'default'
PATH = '/tmp/c17.wav'
KIND_OF = {'b_free_rev': 'b_free', 'g_conv': 'g_new', 's_conv': 's_new'}
OPT = '<optional-0>'        # optional completion slot: absent or int 0
ANY = '<any-number>'
STATIC_COMPLETION = ['/sync', 9]

# one spelling per add action for the target x action product, the other
# spellings are exercised with the default target
ACT_MAIN = ['addToHead', 'addToTail', 'addBefore', 'addAfter', 'addReplace']
ACT_ALT = ['head', 'tail', 'before', 'after', 'replace', 'h', 't', 'b', 'a',
           'r', 0, 1, 2, 3, 4]

# argument templates: '$c' first live control bus, '$a' first live audio bus,
# '$b' first live buffer, '$n' node 0, '$cmap' the control bus' map symbol
ARG_TEMPLATES = {
    'none': None,
    'pair': ['freq', 440],
    'idxf': [0, 1.5, 'amp', 0.25],
    'list': ['freqs', [440, 0.5], 'x', 2],
    'tuple': ['t', (1, 2)],
    'nest': ['x', [[1, 2], [3]]],
    'dict': {'freq': 440, 'amp': 0.25},
    'dictl': {'freqs': [440, 0.5], 'x': 2},
    'objs': ['bus', '$c', 'buf', '$b'],
    'abus': ['out', '$a', 1, '$a'],
    'node': ['g', '$n'],
    'cmap': ['m', '$cmap'],
    'lobj': ['l', ['$c', '$b']],
    'dobj': {'bus': '$c', 'buf': '$b'},
    # values the client coerces (None -> 0, bool -> int), a symbol that is a
    # plain string, a negative and a zero value, an argument *tuple*
    'vals': ['a', None, 'b', True, 'c', False, 'd', -1, 0, 0],
    'targs': ('freq', 440, 'amp', 0.0),
    'amap': ['in', '$amap'],
    'empty': [],
}
SNEW_ARGS = ['none', 'pair', 'idxf', 'list', 'tuple', 'nest', 'dict', 'dictl',
             'objs', 'abus', 'node', 'cmap', 'lobj', 'dobj', 'vals', 'targs',
             'amap', 'empty']
SET_ARGS = ['pair', 'idxf', 'list', 'tuple', 'nest', 'objs', 'abus', 'node',
            'cmap', 'lobj', 'vals', 'amap', 'empty']
SETN_ARGS = {
    'one': ['amp', 0.5],
    'lst': ['freq', [1, 2, 3], 0, [0.5, 0.25]],
    'obj': ['b', ['$b', '$c'], 'c', '$c'],
}
MAP_ARGS = {            # map / mapn (control buses)
    'bus': ['freq', '$c'],
    'two': [0, '$c', 'amp', -1],
}
MAPA_ARGS = {
    'bus': ['in', '$a'],
    'two': [1, '$a', 'amp', -1],
}
FILL_ARGS = {
    'one': ['freq', 2, 0.5],
    'two': [0, 3, 1.5, 'amp', 1, 0.25],
}
RELEASE_ARGS = [None, 0, 2, -1, 0.5]


def _needs(t):
    out = set()
    if isinstance(t, dict):
        for k, v in t.items():
            out |= _needs(k) | _needs(v)
    elif isinstance(t, (list, tuple)):
        for v in t:
            out |= _needs(v)
    elif isinstance(t, str) and t.startswith('$'):
        out.add({'$cmap': '$c', '$amap': '$a'}.get(t, t))
    return out


# --- wire ------------------------------------------------------------------

def _decode_blob(b):
    return [(a, t) for _, a, t in osc10.flatten(osc10.decode(b))]


def atoms(targs):
    """typed wire arguments -> comparable atoms (arrays as lists, blobs as
    {'blob': [messages]})"""
    out = []
    for tag, v in targs:
        if tag == '[':
            out.append(atoms(v))
        elif tag == 'b':
            try:
                out.append({'blob': [[a] + atoms(t)
                                     for a, t in _decode_blob(v)]})
            except osc10.OscError as e:
                out.append({'blob': f'undecodable: {e}'})
        else:
            out.append(v)
    return out


def pre_atoms(args):
    """python values handed to send_msg -> atoms, using the documented client
    coercions (None and [] -> 0, bool -> int, '[' ']' -> array, message list
    -> blob)"""
    out = []
    stack = [out]
    for a in args:
        if a is None:
            stack[-1].append(0)
        elif isinstance(a, bool):
            stack[-1].append(int(a))
        elif isinstance(a, str) and a == '[':
            new = []
            stack[-1].append(new)
            stack.append(new)
        elif isinstance(a, str) and a == ']':
            if len(stack) > 1:
                stack.pop()
            else:
                stack[-1].append('<unbalanced ]>')
        elif isinstance(a, list):
            if not a:
                stack[-1].append(0)
            elif isinstance(a[0], str):
                stack[-1].append({'blob': [[a[0]] + pre_atoms(a[1:])]})
            else:
                stack[-1].append({'blob': f'bundle/other {a!r}'})
        elif isinstance(a, (int, float, str)):
            stack[-1].append(a)
        else:       # (no repr: it may contain an address)
            stack[-1].append(f'<{type(a).__name__}>')
    return out


def _num(x):
    return isinstance(x, (int, float)) and not isinstance(x, bool)


def same_atom(e, o):
    if e == ANY:
        return _num(o)
    if _num(e):
        return _num(o) and e == o
    if isinstance(e, str):
        return isinstance(o, str) and e == o
    if isinstance(e, list):
        return isinstance(o, list) and len(e) == len(o) and \
            all(same_atom(a, b) for a, b in zip(e, o))
    if isinstance(e, dict):
        if not isinstance(o, dict):
            return False
        eb, ob = e['blob'], o['blob']
        return isinstance(eb, list) and isinstance(ob, list) and \
            len(eb) == len(ob) and all(same_msg(a, b)
                                       for a, b in zip(eb, ob))
    return False


def same_msg(e, o):
    """e: expected [addr, atom...] possibly ending with OPT"""
    if e and e[-1] == OPT:
        core_ = e[:-1]
        if len(o) == len(core_) + 1:
            if not (_num(o[-1]) and o[-1] == 0 and isinstance(o[-1], int)):
                return False
            o = o[:-1]
        e = core_
    return len(e) == len(o) and all(same_atom(a, b) for a, b in zip(e, o))


def same_seq(exp, obs, unordered=False):
    if len(exp) != len(obs):
        return False
    if not unordered:
        return all(same_msg(a, b) for a, b in zip(exp, obs))
    left = list(obs)
    for e in exp:
        for i, o in enumerate(left):
            if same_msg(e, o):
                del left[i]
                break
        else:
            return False
    return True


class _Bi:
    """sc3.synth._engine's view of sc3.base.builtins with a deterministic
    `choice` (lowest start first); C16 explores the other answers."""

    def __init__(self, real):
        self._real = real

    def __getattr__(self, name):
        return getattr(self._real, name)

    @staticmethod
    def choice(lst):
        return min(lst, key=lambda b: b.start)


_G = {}     # per worker: original server address, responders at start


# --- the system ---------------------------------------------------------------

class ClientSys:
    def __init__(self, params):
        from sc3.base.main import main
        from sc3.synth.server import Server
        from sc3.synth import _engine as eng
        from sc3.synth.buffer import Buffer
        from sc3.base import responders as rpd
        self.p = params
        s = self.s = Server.default
        if 'addr' not in _G:
            a = s._addr
            while hasattr(a, '_save_addr'):
                a = a._save_addr
            _G['addr'] = a
            _G['proxies'] = set(rpd.OscFunc._all_func_proxies)
            if not isinstance(eng.bi, _Bi):
                eng.bi = _Bi(eng.bi)
        # initial state through the library's own initialisers
        s._addr = _G['addr']
        for pr in list(rpd.OscFunc._all_func_proxies):
            if pr not in _G['proxies']:
                pr.free()
        main.reset()
        # a small server (public ServerOptions) keeps the allocators' tables
        # short; ids stay in the same ranges
        s.options.control_buses = 64
        s.options.audio_buses = 64
        s.options.buffers = 32
        s._new_allocators()
        # a second, non-default server object (buffers created on it own
        # numbers of ITS allocator and give them back to it)
        if 's2' not in _G:
            from sc3.base.netaddr import NetAddr
            _G['s2'] = Server('c17b', NetAddr('127.0.0.1', 57111))
        self.s2 = _G['s2']
        self.s2._addr = _G.setdefault('addr2', self.s2._addr)
        self.s2.options.control_buses = 64
        self.s2.options.audio_buses = 64
        self.s2.options.buffers = 32
        self.s2._new_allocators()
        Buffer._server_caches.clear()
        if 'desc' not in _G:
            # a description named like the definition the synths use, for
            # Synth.seti (nothing is sent: no server has booted in NRT);
            # control layout: freqs = 0..2, amp = 3, gate = 4
            from sc3.synth.synthdef import SynthDef

            def graph(freqs=(100, 200, 300), amp=0.1, gate=1):
                pass
            SynthDef(DEFNAME, graph).add()
            _G['desc'] = True
        from sc3.synth import node as _nod
        _nod.RootNode.roots.clear()     # class-level cache of root nodes
        self.main = main
        # capture point: everything that enters the NRT score, in issue order,
        # together with the (host, port) it was addressed to (the NRT
        # interface drops the target before the score; it is noted when the
        # interface's send_bundle - the single entry of send_msg/send_bundle
        # of every NetAddr in NRT mode - is entered)
        osc = main._osc_interface
        if _G.get('osc') is not osc:
            _G['osc'] = osc
            orig_sb = osc.send_bundle

            def send_bundle(target, time, *elements):
                _G['target'] = target
                try:
                    return orig_sb(target, time, *elements)
                finally:
                    _G['target'] = None
            osc.send_bundle = send_bundle
        self.packets = []
        self.targets = []
        q = main._osc_interface._osc_score._scoreq
        orig = q.add

        def add(prio, entry, _orig=orig, _pk=self.packets,
                _tg=self.targets):
            _pk.append(bytes(entry.msg))
            t = _G.get('target')
            _tg.append(list(t) if t is not None else None)
            return _orig(prio, entry)
        q.add = add
        self.srv_target = [list(_G['addr']._target),
                           list(_G['addr2']._target)]
        self.fams = params.get('fams', ['node', 'buf', 'bus'])
        mx = {'group': 2, 'synth': 2, 'buf': 2, 'bus': 2}
        mx.update(params.get('max', {}))
        self.max = mx
        self.nodes = []     # {kind, cls, obj, id, state}
        self.bufs = []      # {objs, ids, state}
        self.buses = []     # {obj, rate, idx, ch, state}
        self.extra_node_ids = {ROOT, DEFAULT_GROUP}
        # open bind() blocks, outermost first: {cm, pending, peeked}
        self.blocks = []
        self.max_nest = params.get('nest', 1)
        self.lc = {}
        self.last = None
        if params.get('bind_open'):
            self.apply(['bind'])

    # innermost open block (the names the rest of the class always used)
    @property
    def cm(self):
        return self.blocks[-1]['cm'] if self.blocks else None

    @property
    def pending(self):
        return self.blocks[-1]['pending']

    @property
    def peeked(self):
        return self.blocks[-1]['peeked']

    # ---- helpers ----------------------------------------------------------
    def _bump(self, key):
        self.lc[key] = self.lc.get(key, 0) + 1

    def _live(self, lst):
        return [x for x in lst if x['state'] == 'live']

    def _first(self, ref, srv=0):
        """first live object of the kind on server `srv` (objects of one
        server are only ever handed to commands of the same server)"""
        if ref == '$c':
            for b in self.buses:
                if b['state'] == 'live' and b['rate'] == 'c' and \
                        b.get('srv', 0) == srv:
                    return b
        elif ref == '$a':
            for b in self.buses:
                if b['state'] == 'live' and b['rate'] == 'a' and \
                        b.get('srv', 0) == srv:
                    return b
        elif ref == '$b':
            for e in self.bufs:
                if e['state'] == 'live' and e.get('srv', 0) == srv:
                    return e
        elif ref == '$n':
            for n in self.nodes:
                if n.get('srv', 0) == srv:
                    return n
        return None

    def _have(self, tmpl, srv=0):
        return all(self._first(r, srv) is not None for r in _needs(tmpl))

    def _impl(self, t, srv=0):
        """template -> python value for the library"""
        if isinstance(t, dict):
            return {self._impl(k, srv): self._impl(v, srv)
                    for k, v in t.items()}
        if isinstance(t, list):
            return [self._impl(v, srv) for v in t]
        if isinstance(t, tuple):
            return tuple(self._impl(v, srv) for v in t)
        if isinstance(t, str) and t.startswith('$'):
            if t == '$cmap':
                return self._first('$c', srv)['obj'].as_map()
            if t == '$amap':
                return self._first('$a', srv)['obj'].as_map()
            x = self._first(t, srv)
            return x['objs'][0] if t == '$b' else x['obj']
        return t

    def _ref(self, t, srv=0):
        """template -> reference value (objects -> their model ids)"""
        if isinstance(t, dict):
            return {self._ref(k, srv): self._ref(v, srv)
                    for k, v in t.items()}
        if isinstance(t, list):
            return [self._ref(v, srv) for v in t]
        if isinstance(t, tuple):
            return tuple(self._ref(v, srv) for v in t)
        if isinstance(t, str) and t.startswith('$'):
            if t == '$cmap':
                return 'c' + str(self._first('$c', srv)['idx'])
            if t == '$amap':
                return 'a' + str(self._first('$a', srv)['idx'])
            x = self._first(t, srv)
            if t == '$b':
                return x['ids'][0]
            if t == '$n':
                return x['id']
            return x['idx']
        return t

    @staticmethod
    def _embed(v):
        if isinstance(v, (list, tuple)):
            return [[y for x in v for y in ClientSys._embed(x)]]
        if v is None:           # documented client coercions of send_msg
            return [0]
        if isinstance(v, bool):
            return [int(v)]
        return [v]

    def _flat(self, t, srv=0):
        """reference flattening of a control argument list (sc3 docs of
        Node.set / Synth args: alternating controls and values, list values
        become [ ] arrays, a dict is its key, value pairs)"""
        v = self._ref(t, srv)
        if v is None:
            return []
        items = [x for kv in v.items() for x in kv] \
            if isinstance(v, dict) else list(v)
        return [y for x in items for y in self._embed(x)]

    def _tgt3(self, t):
        """target spec -> (value handed to the library, its node id, index
        of the server it lives on)"""
        if t is None:
            return None, DEFAULT_GROUP, 0
        if t == 'srv':
            return self.s, DEFAULT_GROUP, 0
        if t == 'srv2':
            return self.s2, DEFAULT_GROUP, 1
        if t == 'root':         # the root node object of the default server
            return self._classes().RootNode(self.s), ROOT, 0
        if t == 'dg':           # the default group *object*
            return self.s.default_group, DEFAULT_GROUP, 0
        if t[0] == 'id':        # a bare int: a node id of the default server
            return t[1], t[1], 0
        n = self.nodes[t[1]]
        return n['obj'], n['id'], n.get('srv', 0)

    def _tgt(self, t):
        return self._tgt3(t)[:2]

    def _ids1(self, srv):
        return {
            'node': {n['id'] for n in self.nodes if n.get('srv', 0) == srv}
            | self.extra_node_ids,
            'buf': {i for e in self.bufs if e['state'] == 'live'
                    and e.get('srv', 0) == srv for i in e['ids']},
            'cbus': {i for b in self.buses
                     if b['state'] == 'live' and b['rate'] == 'c'
                     and b.get('srv', 0) == srv
                     for i in range(b['idx'], b['idx'] + b['ch'])},
            'abus': {i for b in self.buses
                     if b['state'] == 'live' and b['rate'] == 'a'
                     and b.get('srv', 0) == srv
                     for i in range(b['idx'], b['idx'] + b['ch'])},
        }

    def _ids(self):
        return [self._ids1(0), self._ids1(1)]

    # ---- menu -------------------------------------------------------------
    def ops(self):
        o = []
        if len(self.blocks) < self.max_nest:
            o.append(['bind'])
        if self.blocks:
            o += [['bind_end'], ['bind_raise']]
        if self.p.get('narrow'):
            return o + self._narrow_ops()
        if 'subbus' in self.fams:
            return o + self._subbus_ops()
        if 'node' in self.fams:
            o += self._node_ops()
        if 'buf' in self.fams or 'buf2' in self.fams:
            o += self._buf_ops()
        if 'bus' in self.fams:
            o += self._bus_ops()
        return o

    def _narrow_ops(self):
        """life-cycle alphabet for the deep runs: one or two variants of every
        state-changing operation plus a few emitting ones (the argument
        variants are covered by the wide, shallower runs)"""
        o = []
        if 'node' in self.fams:
            nn = len(self.nodes)
            ngroups = sum(1 for n in self.nodes if n['kind'] == 'group')
            if ngroups < self.max['group']:
                o.append(['g_new', 'Group', None, 'addToHead'])
                if nn:
                    o.append(['g_new', 'ParGroup', ['n', 0], 'addAfter'])
                    o.append(['g_new', 'Group', ['n', nn - 1],
                              'addReplace'])
            if nn - ngroups < self.max['synth']:
                o.append(['s_new', 'init', None, 'addToTail', 'pair'])
                if nn:
                    o.append(['s_new', 'paused', ['n', 0], 'addToHead',
                              'list'])
                    o.append(['s_replace', ['n', nn - 1], True, 'none'])
                    o.append(['s_replace', ['n', nn - 1], False, 'none'])
                for name in ('objs', 'abus'):
                    if self._have(ARG_TEMPLATES[name]):
                        o.append(['s_new', 'init', None, 'addToHead', name])
            for k in range(nn):
                o += [['free', k, True], ['free', k, False],
                      ['set', k, 'pair'], ['run', k, False],
                      ['release', k, None]]
                if nn > 1:
                    o.append(['mv_after', k, (k + 1) % nn])
                for name in ('objs', 'cmap'):
                    if self._have(ARG_TEMPLATES[name]):
                        o.append(['set', k, name])
                if self._have(MAP_ARGS['bus']):
                    o += [['map', k, 'bus'], ['mapn', k, 'two']]
        if 'buf' in self.fams:
            if len(self.bufs) < self.max['buf']:
                o += [['b_new', 1024, 1, 'none'], ['b_new', 512, 2, 'fn'],
                      ['b_new', 1024, 1, 'none', False],
                      ['b_consec', 2, True], ['b_consec', 3, True],
                      ['b_alloc_read', 'fn']]
            for e, ent in enumerate(self.bufs):
                if ent['state'] == 'stale':
                    continue
                o += [['b_free', e, 'none'], ['b_zero', e, 0],
                      ['b_set', e, len(ent['ids']) - 1]]
                if len(ent['ids']) > 1:
                    o.append(['b_free_rev', e])
            o.append(['b_free_all'])
        if 'bus' in self.fams:
            if len(self.buses) < self.max['bus']:
                o += [['bus_new', 'c', 2], ['bus_new', 'c', 1],
                      ['bus_new', 'a', 1]]
            for k, b in enumerate(self.buses):
                o.append(['bus_free', k])
                if b['rate'] == 'c':
                    o += [['c_set', k, 2], ['c_fill', k]]
        return o

    def _targets(self):
        t = [None, 'srv', ['id', 1], ['id', 0], 'root', 'dg']
        if 'node2' in self.fams and not self.blocks:
            t.append('srv2')
        t += [['n', k] for k in range(len(self.nodes))
              if self.nodes[k].get('srv', 0) == 0 or not self.blocks]
        return t

    def _node_ops(self):
        o = []
        nn = len(self.nodes)
        ngroups = sum(1 for n in self.nodes if n['kind'] == 'group')
        nsynths = nn - ngroups
        tg = self._targets()
        # (objects of the second server stay out of an open bind() block of
        # the default server: whose block their commands belong to is not
        # decided by the statement)
        usable = [k for k in range(nn)
                  if self.nodes[k].get('srv', 0) == 0 or not self.blocks]
        srv_of = [n.get('srv', 0) for n in self.nodes]
        if ngroups < self.max['group']:
            for cls in ('Group', 'ParGroup'):
                for t in tg:
                    for a in ACT_MAIN:
                        o.append(['g_new', cls, t, a])
                for a in ACT_ALT:
                    o.append(['g_new', cls, None, a])
                o.append(['g_new', cls, None, 'addToTail', True])
                for k in usable:
                    for how in ('after', 'before', 'head', 'tail',
                                'replace'):
                        o.append(['g_conv', cls, how, ['n', k]])
                for t in ('srv', ['id', 0], 'root'):
                    for how in ('head', 'tail'):
                        o.append(['g_conv', cls, how, t])
        if nsynths < self.max['synth']:
            for t in tg:
                for a in ACT_MAIN:
                    o.append(['s_new', 'init', t, a, 'pair'])
            for a in ACT_ALT:
                o.append(['s_new', 'init', None, a, 'pair'])
            o.append(['s_new', 'init', None, 'addToTail', 'pair', True])
            for name in SNEW_ARGS:
                if name != 'pair' and self._have(ARG_TEMPLATES[name]):
                    o.append(['s_new', 'init', None, 'addToHead', name])
            for how in ('paused', 'grain'):
                for t in tg:
                    if isinstance(t, list) and t[0] == 'n' and t[1] > 0 \
                            and srv_of[t[1]] == srv_of[0]:
                        continue    # one node target per server is enough
                    for a in ACT_MAIN:
                        o.append(['s_new', how, t, a, 'pair'])
                for name in ('none', 'list', 'dict', 'vals'):
                    o.append(['s_new', how, None, 'addToTail', name])
            o.append(['s_new', 'paused', None, 'addToHead', 'pair', True])
            for k in usable:
                for how in ('after', 'before', 'head', 'tail'):
                    o.append(['s_conv', how, ['n', k], 'pair'])
                    o.append(['s_conv', how, ['n', k], 'none'])
                for same in (False, True):
                    for name in ('none', 'list'):
                        o.append(['s_replace', ['n', k], same, name])
            for t in ('srv', ['id', 1], 'dg'):
                for how in ('head', 'tail'):
                    o.append(['s_conv', how, t, 'pair'])
        for k in usable:
            n = self.nodes[k]
            sv = srv_of[k]
            o += [['free', k, True], ['free', k, False],
                  ['run', k, True], ['run', k, False],
                  ['trace', k], ['query', k], ['query_d', k]]
            for name in SET_ARGS:
                if self._have(ARG_TEMPLATES[name], sv):
                    o.append(['set', k, name])
            for name, t in SETN_ARGS.items():
                if self._have(t, sv):
                    o.append(['setn', k, name])
            for name, t in MAP_ARGS.items():
                if self._have(t, sv):
                    o += [['map', k, name], ['mapn', k, name]]
            for name, t in MAPA_ARGS.items():
                if self._have(t, sv):
                    o += [['mapa', k, name], ['mapan', k, name]]
            for name in FILL_ARGS:
                o.append(['fill', k, name])
            for t in RELEASE_ARGS:
                o.append(['release', k, t])
            for j in usable:
                if j != k and srv_of[j] == sv:
                    o += [['mv_before', k, j], ['mv_after', k, j]]
            groups = [g for g in usable if self.nodes[g]['kind'] == 'group'
                      and srv_of[g] == sv]
            for g in [None] + groups + (['dg', 'root'] if sv == 0 else []):
                if g != k:
                    o += [['mv_head', k, g], ['mv_tail', k, g]]
            if n['kind'] == 'group':
                o += [['free_all', k], ['deep_free', k]]
                for flag in (None, False, True):
                    o += [['dump_tree', k, flag], ['query_tree', k, flag]]
            else:
                o += [['s_get', k, 'freq'], ['s_get', k, 2],
                      ['s_getn', k, 'freq', 3], ['s_getn', k, 0, 2],
                      ['seti', k, 'one'], ['seti', k, 'two'],
                      ['seti', k, 'list']]
        o += [['srv_free_default'], ['srv_free_default', True],
              ['srv_free_nodes'], ['srv_query_tree', False],
              ['srv_query_tree', True],
              ['root', 'free_all'], ['root', 'deep_free'],
              ['root', 'dump_tree']]
        for code in (0, 1, 2, 3):
            o.append(['srv_dump_osc', code])
        ks = [k for k in range(nn) if srv_of[k] == 0]
        if ks:
            for a in ('addToHead', 'addAfter', 1, 'b'):
                o.append(['srv_reorder', ks, None, a])
            o.append(['srv_reorder', list(reversed(ks)), ['n', ks[0]],
                      'addToTail'])
            for t in ('srv', ['id', 1], 'dg'):
                o.append(['srv_reorder', ks, t, 'addToTail'])
        return o

    def _buf_ops(self):
        o = []
        if len(self.bufs) < self.max['buf']:
            for frames, ch in ((1024, 1), (512, 2)):
                for compl in ('none', 'fn', 'static'):
                    o.append(['b_new', frames, ch, compl])
            for n in (2, 3):
                o += [['b_consec', n, True], ['b_consec', n, False]]
            o += [['b_consec', 2, True, 'fn'], ['b_consec', 2, False, 'static']]
            o += [['b_read'], ['b_cue'], ['b_new_alloc'],
                  ['b_cue', 'fn'], ['b_cue', 'static'], ['b_read_ch']]
            for compl in ('none', 'fn', 'static'):
                o += [['b_alloc_read', compl],
                      ['b_alloc_read', compl, [1]]]
            if 'buf2' in self.fams and not self.blocks:
                # (a bind() block belongs to ONE server: commands of the
                # other server are not part of it - not modelled)
                o += [['b2_new', 1024, 1], ['b2_consec', 2], ['b2_read'],
                      ['b_cue', 'none', 1]]
            # the only constructor taking the keyword is Buffer(...) itself
            o += [['b_new', 1024, 1, 'none', False],
                  ['b_new', 512, 2, 'fn', False], ['b_new_alloc', False]]
        for e, ent in enumerate(self.bufs):
            if ent['state'] == 'stale':
                continue
            if ent.get('srv', 0) == 1 and self.blocks:
                continue
            for compl in ('none', 'static', 'fn'):
                o.append(['b_free', e, compl])
            if len(ent['ids']) > 1:
                o.append(['b_free_rev', e])
            for m in range(len(ent['ids'])):
                o += [['b_zero', e, m], ['b_set', e, m], ['b_setn', e, m],
                      ['b_fill', e, m], ['b_query', e, m],
                      ['b_close', e, m], ['b_write', e, m],
                      ['b_sine1', e, m], ['b_get', e, m], ['b_getn', e, m]]
                o += [['b_read_into', e, m, v]
                      for v in ('default', 'open', 'channel')]
                o += [['b_cue_m', e, m, c] for c in ('none', 'fn')]
                o.append(['b_update_info', e, m])
                o += [['b_gen', e, m, w]
                      for w in ('gen', 'normalize', 'wnormalize', 'sine2',
                                'sine3', 'cheby')]
                o += [['b_write_v', e, m, v]
                      for v in ('default', 'fn', 'static')]
                o += [['b_compl', e, m, meth, c]
                      for meth in ('zero', 'close') for c in ('fn', 'static')]
                for e2, ent2 in enumerate(self.bufs):
                    if ent2['state'] == 'live' and ent['state'] == 'live' \
                            and ent2.get('srv', 0) == ent.get('srv', 0) \
                            and (e2 != e or len(ent['ids']) > 1):
                        m2 = (m + 1) % len(ent2['ids']) if e2 == e else 0
                        o.append(['b_copy', e, m, e2, m2])
                        o.append(['b_partconv', e, m, e2, m2])
        o += [['b_free_all'], ['b_free_all', 0, True]]
        if 'buf2' in self.fams and not self.blocks:
            o.append(['b_free_all', 1])
        return o

    VIEW_METHS = {'c': ('clear', 'setn', 'getn', 'set1', 'mapn'),
                  'a': ('mapan', 'amap')}

    def _subbus_ops(self):
        """family 'subbus': parents of 1-4 channels (both rates), one synth,
        and EVERY (offset, channels) view with offset in 0..parent+2 and
        channels in 1..parent+2, used by every command that can go through
        or take a bus view"""
        o = []
        if len(self.buses) < self.max['bus']:
            for rate in ('c', 'a'):
                for ch in (1, 2, 3, 4):
                    o.append(['bus_new', rate, ch])
        synth = [k for k, n in enumerate(self.nodes) if n['kind'] == 'synth']
        if not synth and self.max['synth']:
            o.append(['s_new', 'init', None, 'addToHead', 'pair'])
        for k, b in enumerate(self.buses):
            o.append(['bus_free', k])
            p = b['ch0']
            pairs = [(off, ch) for off in range(0, p + 3)
                     for ch in range(1, p + 3)] if b['state'] == 'live' \
                else [(0, 1)]       # freed parent: nothing may be emitted
            for off, ch in pairs:
                for meth in self.VIEW_METHS[b['rate']]:
                    if meth in ('mapn', 'mapan', 'amap'):
                        if synth:
                            o.append(['c_view', k, off, ch, meth, synth[0]])
                    else:
                        o.append(['c_view', k, off, ch, meth])
        return o

    def _bus_ops(self):
        o = []
        if len(self.buses) < self.max['bus']:
            for rate in ('c', 'a'):
                for ch in (1, 2, 3):
                    o.append(['bus_new', rate, ch])
                if 'bus2' in self.fams and not self.blocks:
                    o += [['bus_new', rate, 1, 1], ['bus_new', rate, 2, 1]]
        for k, b in enumerate(self.buses):
            if b.get('srv', 0) == 1 and self.blocks:
                continue
            o.append(['bus_free', k])
            if b['rate'] == 'c':
                o += [['c_set', k, 1], ['c_set', k, 2], ['c_setn', k],
                      ['c_fill', k], ['c_get', k], ['c_getn', k],
                      ['c_set_at', k], ['c_setn_at', k],
                      ['c_set_pairs', k], ['c_clear', k],
                      ['c_get_d', k], ['c_getn_d', k]]
                for meth in ('set', 'fill', 'get', 'new_from'):
                    o.append(['c_sub', k, meth])
        return o

    # ---- one step -----------------------------------------------------------
    def apply(self, op):
        name = op[0]
        dis = []
        before = self._ids()
        if name in ('bind', 'bind_end', 'bind_raise'):
            dis = self._bind_op(name)
            self._post(dis, before, name)
            return dis
        planner = getattr(type(self), '_op_' + name, None)
        if planner is None:
            raise core.HarnessError(f'bad op {op}')
        plan = planner(self, *op[1:])
        srv = plan.get('srv', 0)
        exc = None
        try:
            res = plan['call']()
        except Exception as e:     # observable outcome of the operation
            exc = e
            res = None
        expected = []
        try:
            if exc is None:
                expected = plan['expect'](res) if callable(plan['expect']) \
                    else plan['expect']
            elif plan.get('may_raise'):
                expected = []
                if 'on_raise' in plan:
                    plan['on_raise']()
            else:
                dis.append((f'op-raises:{name}', 'no exception',
                            f'{type(exc).__name__}: {exc}', ''))
        except _Disagree as d:
            dis.append((d.kind, d.exp, d.obs, ''))
        alts = plan.get('alts', [])     # other acceptable emissions
        # what this operation issued
        packets, self.packets[:] = list(self.packets), []
        targets, self.targets[:] = list(self.targets), []
        wire, werr = self._decode(packets)
        dis += werr
        bad = [t for t in targets if t != self.srv_target[srv]]
        if bad:
            dis.append((f'wrong-server:{KIND_OF.get(name, name)}',
                        f'every command of the operation is addressed to '
                        f'the server of its object {self.srv_target[srv]}',
                        bad, [[a] + atoms(t) for a, t in wire]))
        in_block = self.cm is not None and srv == 0
        if in_block:
            if packets:
                dis.append(('bind-leak', 'nothing on the wire while the '
                            'bind() block is open',
                            [[a] + atoms(t) for a, t in wire], ''))
            new = self._peek(dis)
            issued = new
            where = 'inside bind(), seen through get_bundle()'
        else:
            issued = [[a] + atoms(t) for a, t in wire]
            where = 'on the wire'
        if issued is not None and not dis:
            cands = [expected] + alts
            if not any(same_seq(c, issued, plan.get('unordered', False))
                       for c in cands):
                dis.append((f'emission:{KIND_OF.get(name, name)}', expected,
                            issued, where))
        if in_block and issued is not None:
            self.blocks[-1]['pending'] += issued if not dis else []
        self.last = [issued, type(exc).__name__ if exc else None]
        self._post(dis, before, name, wire, srv)
        return dis

    def _peek(self, dis, level=-1):
        """messages the block at `level` collected since the last look"""
        blk = self.blocks[level]
        try:
            got = blk['cm'].get_bundle()[1:]
            new = [[m[0]] + pre_atoms(m[1:]) for m in got[blk['peeked']:]]
            blk['peeked'] = len(got)
            return new
        except Exception as e:
            dis.append(('bind-get-bundle', 'list of collected messages',
                        f'{type(e).__name__}: {e}', ''))
            return None

    def _decode(self, packets):
        """raw score entries -> [(address, typed args)], decode problems"""
        msgs = []
        err = []
        for raw in packets:
            if int.from_bytes(raw[:4], 'big') != len(raw) - 4:
                err.append(('wire-framing', len(raw) - 4,
                            int.from_bytes(raw[:4], 'big'), ''))
                continue
            try:
                st = osc10.decode(raw[4:])
                msgs += [(a, t) for _, a, t in osc10.flatten(st)]
            except osc10.OscError as e:
                err.append(('wire-not-osc', 'a well-formed OSC 1.0 packet',
                            f'{e}: {raw[4:].hex()}', ''))
        return msgs, err

    def _mentions(self, dis, ok, wire, note=''):
        for addr, targs in wire:
            errs, mentions = server_cmds.validate(addr, targs, _decode_blob)
            if errs:
                dis.append((f'schema:{addr}', 'conforms to the command '
                            'reference', errs, [addr] + atoms(targs)))
            for m in mentions:
                role = {'newnode': 'node', 'target': 'node',
                        'group': 'node'}.get(m['role'], m['role'])
                rng = range(m['id'], m['id'] + max(m['n'], 1))
                if m['id'] == -1 and (m['role'] == 'newnode' or
                                      m['cmd'].startswith('/n_map')):
                    continue
                if not all(i in ok[role] for i in rng):
                    dis.append((f'unallocated-id:{role}',
                                f'ids allocated by the client: '
                                f'{sorted(ok[role])}',
                                [addr] + atoms(targs),
                                f"{m['role']} {m['id']} (+{m['n']}){note}"))

    def _post(self, dis, before, name, wire=(), srv=0):
        """L1 on everything that reached the wire + state invariants"""
        after = self._ids()
        ok = {k: before[srv][k] | after[srv][k] for k in before[srv]}
        self._mentions(dis, ok, wire)
        # the real allocators hold exactly the model's live ranges
        s = self.s

        def bufs(k):
            return [(e['ids'][0], len(e['ids'])) for e in self.bufs
                    if e['state'] == 'live' and e.get('srv', 0) == k]

        def buses(k, rate):
            return [(b['idx'], b['ch']) for b in self.buses
                    if b['state'] == 'live' and b['rate'] == rate
                    and b.get('srv', 0) == k]
        for kind, alloc, live in (
                ('buf', s._buffer_allocator, bufs(0)),
                ('buf-second-server', self.s2._buffer_allocator, bufs(1)),
                ('cbus', s._control_bus_allocator, buses(0, 'c')),
                ('abus', s._audio_bus_allocator, buses(0, 'a')),
                ('cbus-second-server', self.s2._control_bus_allocator,
                 buses(1, 'c')),
                ('abus-second-server', self.s2._audio_bus_allocator,
                 buses(1, 'a'))):
            used = sorted((b.address, b.size) for b in alloc.blocks())
            if used != sorted(live):
                dis.append((f'allocator-state:{kind}', sorted(live), used,
                            f'after {name}: used blocks of the allocator vs '
                            f'ranges owned by live objects'))

    # ---- bind ---------------------------------------------------------------
    def _bind_op(self, name):
        dis = []
        s = self.s
        if name == 'bind':
            cm = s.bind()
            cm.__enter__()
            self.blocks.append({'cm': cm, 'pending': [], 'peeked': 0})
            self._bump(('bind', len(self.blocks)))
            self.last = ['bind', None]
            if self.packets:
                dis.append(('bind-leak', [], len(self.packets), 'on enter'))
            return dis
        blk = self.blocks.pop()
        cm = blk['cm']
        self._bump(('bind', len(self.blocks) + 1))
        exc = None
        try:
            if name == 'bind_end':
                cm.__exit__(None, None, None)
            else:
                e = RuntimeError('injected')
                cm.__exit__(RuntimeError, e, None)
        except Exception as e:
            exc = e
            dis.append((f'op-raises:{name}', 'no exception',
                        f'{type(e).__name__}: {e}', ''))
        packets, self.packets[:] = list(self.packets), []
        targets, self.targets[:] = list(self.targets), []
        wire, werr = self._decode(packets)
        dis += werr
        obs = [[a] + atoms(t) for a, t in wire]
        if self.blocks:
            # an inner block: the enclosing block is still open, so nothing
            # may reach the wire; what the inner block collected becomes part
            # of the enclosing block (normal exit) or is dropped (exception)
            if packets:
                dis.append(('bind-leak', 'nothing on the wire while the '
                            'enclosing bind() block is open', obs,
                            f'at {name} of an inner block'))
            got = self._peek(dis)
            exp = blk['pending'] if name == 'bind_end' and exc is None \
                else []
            if got is not None and not dis and not same_seq(exp, got):
                kind = 'bind-raise-sent' if name == 'bind_raise' else \
                    'bind-exit-order' if same_seq(exp, got, True) else \
                    'bind-exit-content'
                dis.append((kind, exp, got, 'messages of the inner block '
                            'vs what the enclosing block received from it'))
            if got is not None and not dis:
                self.blocks[-1]['pending'] += got
            try:
                still = s.addr is self.blocks[-1]['cm']
            except Exception as e:
                still = f'{type(e).__name__}: {e}'
            if still is not True:
                dis.append(('bind-addr-not-restored', True, still,
                            'server.addr is the enclosing block again'))
            self.last = [got, name]
            return dis
        bad = [t for t in targets if t != self.srv_target[0]]
        if bad:
            dis.append(('wrong-server:bind',
                        f'the bundle is addressed to the bound server '
                        f'{self.srv_target[0]}', bad, obs))
        if name == 'bind_raise':
            if packets:
                dis.append(('bind-raise-sent', 'nothing reaches the wire '
                            'when the block raises', obs, ''))
        elif not werr and exc is None:
            exp = blk['pending']
            if exp and len(packets) != 1:
                dis.append(('bind-exit-not-one-bundle',
                            f'1 bundle with {len(exp)} messages',
                            f'{len(packets)} packets: {obs}', ''))
            elif not exp and (len(packets) > 1 or obs):
                dis.append(('bind-exit-not-one-bundle', 'nothing (or one '
                            'empty bundle) for an empty block',
                            f'{len(packets)} packets: {obs}', ''))
            elif not same_seq(exp, obs):
                kind = 'bind-exit-order' if same_seq(exp, obs, True) \
                    else 'bind-exit-content'
                dis.append((kind, exp, obs, 'messages issued in the block '
                            'vs bundle sent at exit'))
        try:
            still = bool(s.addr.has_bundle())
        except Exception as e:
            still = f'{type(e).__name__}: {e}'
        if still is not False:
            dis.append(('bind-addr-not-restored', False, still,
                        'server.addr.has_bundle() after the block'))
        self.last = [obs, name]
        # L1 on the bundle
        self._post_wire_only(dis, self._ids(), wire)
        return dis

    def _post_wire_only(self, dis, ids, wire):
        # ids freed inside the block were live when their message was issued:
        # accept every id that was ever allocated in this history
        ok = {k: set(v) for k, v in ids[0].items()}
        for e in self.bufs:
            if e.get('srv', 0) == 0:
                ok['buf'] |= set(e['ids'])
        for b in self.buses:
            if b.get('srv', 0) == 0:
                r = set(range(b['idx0'], b['idx0'] + b['ch0']))
                ok['cbus' if b['rate'] == 'c' else 'abus'] |= r
        self._mentions(dis, ok, wire, ' in the bind() bundle')
        return []

    # ---- node operations ------------------------------------------------------
    def _classes(self):
        from sc3.synth import node as nod
        return nod

    def _new_node(self, kind, cls, obj, replaced=None, same_id=False,
                  srv=0):
        nid = getattr(obj, 'node_id', None)
        if not isinstance(nid, int) or isinstance(nid, bool):
            raise _Disagree('own-id:node', 'an int node id', repr(nid))
        known = {n['id'] for n in self.nodes if n.get('srv', 0) == srv} \
            | self.extra_node_ids
        if nid in known and not same_id:
            raise _Disagree('id-collision:node',
                            f'an id not in use ({sorted(known)})', nid)
        osrv = getattr(obj, 'server', None)
        if osrv is not (self.s2 if srv else self.s):
            raise _Disagree('own-server:node',
                            f"the target's server ({'c17b' if srv else 'default'})",
                            getattr(osrv, 'name', repr(osrv)))
        self.nodes.append({'kind': kind, 'cls': cls, 'obj': obj, 'id': nid,
                           'state': 'live', 'srv': srv})
        self._bump(('n', len(self.nodes) - 1))
        if replaced is not None and replaced[0] == 'n':
            r = self.nodes[replaced[1]]
            if r['state'] == 'live':
                r['state'] = 'replaced'
                self._bump(('n', replaced[1]))
        return nid

    def _op_g_new(self, cls, tgt, act, reg=False):
        nod = self._classes()
        targ, tid, srv = self._tgt3(tgt)
        cmd = '/g_new' if cls == 'Group' else '/p_new'

        def call():
            if reg:     # register=True: watched by the NodeWatcher; the
                # creation command is the same
                return getattr(nod, cls)(targ, act, register=True)
            return getattr(nod, cls)(targ, act)

        def expect(obj):
            nid = self._new_node('group', cls, obj,
                                 tgt if ACTION[act] == 4 and
                                 isinstance(tgt, list) else None, srv=srv)
            return [[cmd, nid, ACTION[act], tid]]
        return {'call': call, 'expect': expect, 'srv': srv}

    def _op_g_conv(self, cls, how, tgt):
        nod = self._classes()
        targ, tid, srv = self._tgt3(tgt)
        cmd = '/g_new' if cls == 'Group' else '/p_new'
        act = {'head': 0, 'tail': 1, 'before': 2, 'after': 3,
               'replace': 4}[how]

        def call():
            return getattr(getattr(nod, cls), how)(targ)

        def expect(obj):
            nid = self._new_node('group', cls, obj,
                                 tgt if act == 4 and isinstance(tgt, list)
                                 else None, srv=srv)
            return [[cmd, nid, act, tid]]
        return {'call': call, 'expect': expect, 'srv': srv}

    def _op_s_new(self, how, tgt, act, argname, reg=False):
        nod = self._classes()
        targ, tid, srv = self._tgt3(tgt)
        tmpl = ARG_TEMPLATES[argname]
        args = self._impl(tmpl, srv)
        flat = self._flat(tmpl, srv)
        a = ACTION[act]
        kw = {'register': True} if reg else {}

        def call():
            if how == 'init':
                return nod.Synth(DEFNAME, args, targ, act, **kw)
            if how == 'paused':
                return nod.Synth.new_paused(DEFNAME, args, targ, act, **kw)
            return nod.Synth.grain(DEFNAME, args, targ, act)

        def expect(obj):
            rep = tgt if a == 4 and isinstance(tgt, list) else None
            if how == 'grain':
                if rep is not None and rep[0] == 'n' and \
                        self.nodes[rep[1]]['state'] == 'live':
                    self.nodes[rep[1]]['state'] = 'replaced'
                    self._bump(('n', rep[1]))
                return [['/s_new', DEFNAME, -1, a, tid] + flat]
            nid = self._new_node('synth', 'Synth', obj, rep, srv=srv)
            out = [['/s_new', DEFNAME, nid, a, tid] + flat]
            if how == 'paused':
                out.append(['/n_run', nid, 0])
            return out
        return {'call': call, 'expect': expect, 'srv': srv}

    def _op_s_conv(self, how, tgt, argname):
        nod = self._classes()
        targ, tid, srv = self._tgt3(tgt)
        tmpl = ARG_TEMPLATES[argname]
        args = self._impl(tmpl, srv)
        flat = self._flat(tmpl, srv)
        a = {'head': 0, 'tail': 1, 'before': 2, 'after': 3}[how]

        def call():
            return getattr(nod.Synth, how)(targ, DEFNAME, args)

        def expect(obj):
            nid = self._new_node('synth', 'Synth', obj, srv=srv)
            return [['/s_new', DEFNAME, nid, a, tid] + flat]
        return {'call': call, 'expect': expect, 'srv': srv}

    def _op_s_replace(self, tgt, same, argname):
        nod = self._classes()
        targ, tid, srv = self._tgt3(tgt)
        tmpl = ARG_TEMPLATES[argname]
        args = self._impl(tmpl, srv)
        flat = self._flat(tmpl, srv)

        def call():
            return nod.Synth.replace(targ, DEFNAME, args, same)

        def expect(obj):
            nid = self._new_node('synth', 'Synth', obj, tgt, same_id=same,
                                 srv=srv)
            if same and nid != tid:
                raise _Disagree('own-id:node', tid, nid)
            return [['/s_new', DEFNAME, nid, 4, tid] + flat]
        return {'call': call, 'expect': expect, 'srv': srv}

    def _op_free(self, k, send):
        n = self.nodes[k]

        def call():
            return n['obj'].free(send) if not send else n['obj'].free()

        def expect(_):
            was = n['state']
            if was == 'live':
                n['state'] = 'freed'
                self._bump(('n', k))
            return [['/n_free', n['id']]] if send else []
        plan = {'call': call, 'expect': expect, 'srv': n.get('srv', 0)}
        if n['state'] != 'live' and send:
            plan['alts'] = [[]]       # second free of a node: don't-care
        return plan

    def _simple(self, k, meth, args, expected, **kw):
        n = self.nodes[k]
        plan = {'call': lambda: getattr(n['obj'], meth)(*args),
                'expect': expected, 'srv': n.get('srv', 0)}
        plan.update(kw)
        return plan

    def _op_run(self, k, flag):
        return self._simple(k, 'run', [flag],
                            [['/n_run', self.nodes[k]['id'], int(flag)]])

    def _op_trace(self, k):
        return self._simple(k, 'trace', [],
                            [['/n_trace', self.nodes[k]['id']]])

    def _op_query(self, k):
        return self._simple(k, 'query', [lambda *a: None],
                            [['/n_query', self.nodes[k]['id']]])

    def _op_query_d(self, k):
        # default action (prints the reply): same command
        return self._simple(k, 'query', [],
                            [['/n_query', self.nodes[k]['id']]])

    def _op_dump_tree(self, k, flag):
        args = [] if flag is None else [flag]
        return self._simple(k, 'dump_tree', args,
                            [['/g_dumpTree', self.nodes[k]['id'],
                              int(bool(flag))]])

    def _op_query_tree(self, k, flag):
        args = [] if flag is None else [flag, lambda *a: None]
        return self._simple(k, 'query_tree', args,
                            [['/g_queryTree', self.nodes[k]['id'],
                              int(bool(flag))]])

    def _op_set(self, k, argname):
        t = ARG_TEMPLATES[argname]
        srv = self.nodes[k].get('srv', 0)
        return self._simple(k, 'set', self._impl(t, srv),
                            [['/n_set', self.nodes[k]['id']] +
                             self._flat(t, srv)])

    def _op_setn(self, k, argname):
        t = SETN_ARGS[argname]
        srv = self.nodes[k].get('srv', 0)
        ref = self._ref(t, srv)
        exp = ['/n_setn', self.nodes[k]['id']]
        for c, v in zip(ref[0::2], ref[1::2]):
            exp += [c, len(v)] + list(v) if isinstance(v, list) \
                else [c, 1, v]
        return self._simple(k, 'setn', self._impl(t, srv), [exp])

    def _map(self, k, meth, cmd, tmpl, n_form):
        srv = self.nodes[k].get('srv', 0)
        exp = [cmd, self.nodes[k]['id']]
        for c, v in zip(tmpl[0::2], tmpl[1::2]):
            if isinstance(v, str):     # a bus object
                b = self._first(v, srv)
                exp += [c, b['idx']] + ([b['ch']] if n_form else [])
            else:
                exp += [c, v] + ([1] if n_form else [])
        return self._simple(k, meth, self._impl(tmpl, srv), [exp])

    def _op_map(self, k, argname):
        return self._map(k, 'map', '/n_map', MAP_ARGS[argname], False)

    def _op_mapn(self, k, argname):
        return self._map(k, 'mapn', '/n_mapn', MAP_ARGS[argname], True)

    def _op_mapa(self, k, argname):
        return self._map(k, 'mapa', '/n_mapa', MAPA_ARGS[argname], False)

    def _op_mapan(self, k, argname):
        return self._map(k, 'mapan', '/n_mapan', MAPA_ARGS[argname], True)

    def _op_fill(self, k, argname):
        t = FILL_ARGS[argname]
        return self._simple(k, 'fill', list(t),
                            [['/n_fill', self.nodes[k]['id']] + list(t)])

    def _op_release(self, k, t):
        return self._simple(k, 'release', [t],
                            [['/n_set', self.nodes[k]['id'], 'gate', ANY]])

    def _op_mv_before(self, k, j):
        return self._simple(k, 'move_before', [self.nodes[j]['obj']],
                            [['/n_before', self.nodes[k]['id'],
                              self.nodes[j]['id']]])

    def _op_mv_after(self, k, j):
        return self._simple(k, 'move_after', [self.nodes[j]['obj']],
                            [['/n_after', self.nodes[k]['id'],
                              self.nodes[j]['id']]])

    def _group_arg(self, g):
        if g is None:
            return [], DEFAULT_GROUP
        if g in ('dg', 'root'):     # group *objects* of the default server
            obj, gid, _ = self._tgt3(g)
            return [obj], gid
        return [self.nodes[g]['obj']], self.nodes[g]['id']

    def _op_mv_head(self, k, g):
        arg, gid = self._group_arg(g)
        return self._simple(k, 'move_to_head', arg,
                            [['/g_head', gid, self.nodes[k]['id']]])

    def _op_mv_tail(self, k, g):
        arg, gid = self._group_arg(g)
        return self._simple(k, 'move_to_tail', arg,
                            [['/g_tail', gid, self.nodes[k]['id']]])

    def _op_free_all(self, k):
        return self._simple(k, 'free_all', [],
                            [['/g_freeAll', self.nodes[k]['id']]])

    def _op_deep_free(self, k):
        return self._simple(k, 'deep_free', [],
                            [['/g_deepFree', self.nodes[k]['id']]])

    def _op_seti(self, k, variant):
        nid = self.nodes[k]['id']
        if variant == 'one':        # element 1 of the arrayed control
            return self._simple(k, 'seti', ['freqs', 1, 220],
                                [['/n_set', nid, 1, 220]])
        if variant == 'two':
            return self._simple(k, 'seti', ['amp', 0, 0.5, 'freqs', 2, 7],
                                [['/n_set', nid, 3, 0.5, 2, 7]])
        # a list value sets a range; whether the part that does not fit the
        # control is cut off is not documented
        return self._simple(k, 'seti', ['freqs', 1, [1, 2, 3]],
                            [['/n_set', nid, 1, [1, 2]]],
                            alts=[[['/n_set', nid, 1, [1, 2, 3]]]])

    def _op_s_get(self, k, ctl):
        return self._simple(k, 'get', [ctl, lambda *a: None],
                            [['/s_get', self.nodes[k]['id'], ctl]])

    def _op_s_getn(self, k, ctl, n):
        return self._simple(k, 'getn', [ctl, n, lambda *a: None],
                            [['/s_getn', self.nodes[k]['id'], ctl, n]])

    def _op_srv_free_default(self, all_users=False):
        # (one login: the only default group is the client's own)
        if all_users:
            return {'call': lambda: self.s.free_default_group(True),
                    'expect': [['/g_freeAll', DEFAULT_GROUP]]}
        return {'call': lambda: self.s.free_default_group(),
                'expect': [['/g_freeAll', DEFAULT_GROUP]]}

    def _op_srv_free_nodes(self):
        return {'call': lambda: self.s.free_nodes(),
                'expect': [['/g_freeAll', ROOT], ['/clearSched']]}

    def _op_srv_query_tree(self, flag):
        return {'call': lambda: self.s.query_tree(flag, lambda *a: None),
                'expect': [['/g_queryTree', ROOT, int(flag)]]}

    def _op_srv_dump_osc(self, code):
        return {'call': lambda: self.s.dump_osc(code),
                'expect': [['/dumpOSC', code]]}

    def _op_root(self, meth):
        nod = self._classes()
        exp = {'free_all': ['/g_freeAll', ROOT],
               'deep_free': ['/g_deepFree', ROOT],
               'dump_tree': ['/g_dumpTree', ROOT, 0]}[meth]
        return {'call': lambda: getattr(nod.RootNode(self.s), meth)(),
                'expect': [exp]}

    def _op_srv_reorder(self, ks, tgt, act):
        targ, tid = self._tgt(tgt)
        objs = [self.nodes[k]['obj'] for k in ks]
        ids = [self.nodes[k]['id'] for k in ks]
        return {'call': lambda: self.s.reorder(objs, targ, act),
                'expect': [['/n_order', ACTION[act], tid] + ids]}

    # ---- buffers --------------------------------------------------------------
    def _new_bufs(self, objs, consecutive=False, cached=True, srv=0):
        ids = [getattr(b, 'bufnum', None) for b in objs]
        if not all(isinstance(i, int) and not isinstance(i, bool)
                   for i in ids):
            raise _Disagree('own-id:buf', 'int buffer numbers', repr(ids))
        if consecutive and ids != list(range(ids[0], ids[0] + len(ids))):
            raise _Disagree('own-id:buf', 'consecutive buffer numbers', ids)
        live = {i for e in self.bufs if e['state'] == 'live'
                and e.get('srv', 0) == srv for i in e['ids']}
        if live & set(ids) or len(set(ids)) != len(ids):
            raise _Disagree('id-collision:buf',
                            f'numbers not owned by a live buffer '
                            f'({sorted(live)})', ids)
        self.bufs.append({'objs': list(objs), 'ids': ids, 'state': 'live',
                          'cached': cached, 'srv': srv})
        self._bump(('b', len(self.bufs) - 1))
        return ids

    @staticmethod
    def _compl(kind):
        if kind == 'none':
            return None
        if kind == 'static':
            return list(STATIC_COMPLETION)
        return lambda buf: ['/b_query', buf.bufnum]

    @staticmethod
    def _compl_exp(kind, bid):
        if kind == 'none':
            return [OPT]
        if kind == 'static':
            return [{'blob': [list(STATIC_COMPLETION)]}]
        return [{'blob': [['/b_query', bid]]}]

    def _op_b_new(self, frames, ch, compl, cache=True):
        # cache=False: the legal keyword that keeps the object out of the
        # class-level info cache; life cycle and commands must be the same
        from sc3.synth.buffer import Buffer
        kw = {} if cache else {'cache': False}

        def expect(obj):
            bid = self._new_bufs([obj], cached=cache)[0]
            return [['/b_alloc', bid, frames, ch] +
                    self._compl_exp(compl, bid)]
        return {'call': lambda: Buffer(frames, ch,
                                       completion_msg=self._compl(compl),
                                       **kw),
                'expect': expect}

    def _op_b_new_alloc(self, cache=True):
        from sc3.synth.buffer import Buffer
        kw = {} if cache else {'cache': False}

        def call():
            b = Buffer(256, 1, alloc=False, **kw)
            b.alloc()
            return b

        def expect(obj):
            bid = self._new_bufs([obj], cached=cache)[0]
            return [['/b_alloc', bid, 256, 1, OPT]]
        return {'call': call, 'expect': expect}

    def _op_b2_new(self, frames, ch):
        from sc3.synth.buffer import Buffer

        def expect(obj):
            bid = self._new_bufs([obj], srv=1)[0]
            return [['/b_alloc', bid, frames, ch, OPT]]
        return {'call': lambda: Buffer(frames, ch, self.s2),
                'expect': expect, 'srv': 1}

    def _op_b2_consec(self, n):
        from sc3.synth.buffer import Buffer

        def expect(objs):
            if not isinstance(objs, list) or len(objs) != n:
                raise _Disagree('own-id:buf', f'a list of {n} buffers',
                                repr(objs))
            ids = self._new_bufs(objs, consecutive=True, srv=1)
            return [['/b_alloc', i, 512, 1, OPT] for i in ids]
        return {'call': lambda: Buffer.new_consecutive(n, 512, 1, self.s2),
                'expect': expect, 'unordered': True, 'srv': 1}

    def _op_b2_read(self):
        from sc3.synth.buffer import Buffer

        def expect(obj):
            bid = self._new_bufs([obj], srv=1)[0]
            return [['/b_allocRead', bid, PATH, 0, -1,
                     {'blob': [['/b_query', bid]]}]]
        return {'call': lambda: Buffer.new_read(PATH, server=self.s2),
                'expect': expect, 'srv': 1}

    def _op_b_consec(self, n, explicit, compl='none'):
        from sc3.synth.buffer import Buffer
        # documented: a callable completion message gets each Buffer and its
        # index in the list
        cm = {'none': None, 'static': list(STATIC_COMPLETION),
              'fn': lambda buf, i: ['/b_set', buf.bufnum, i, 1.0]}[compl]
        kw = {} if compl == 'none' else {'completion_msg': cm}

        def call():
            if explicit:
                return Buffer.new_consecutive(n, 512, 1, self.s, **kw)
            return Buffer.new_consecutive(n, 512, 1, **kw)

        def tail(k, i):
            if compl == 'none':
                return [OPT]
            if compl == 'static':
                return [{'blob': [list(STATIC_COMPLETION)]}]
            return [{'blob': [['/b_set', i, k, 1.0]]}]

        def expect(objs):
            if not isinstance(objs, list) or len(objs) != n:
                raise _Disagree('own-id:buf', f'a list of {n} buffers',
                                repr(objs))
            ids = self._new_bufs(objs, consecutive=True)
            return [['/b_alloc', i, 512, 1] + tail(k, i)
                    for k, i in enumerate(ids)]
        return {'call': call, 'expect': expect, 'unordered': True}

    def _op_b_read(self):
        from sc3.synth.buffer import Buffer

        def expect(obj):
            bid = self._new_bufs([obj])[0]
            return [['/b_allocRead', bid, PATH, 0, -1,
                     {'blob': [['/b_query', bid]]}]]
        return {'call': lambda: Buffer.new_read(PATH), 'expect': expect}

    def _op_b_cue(self, compl='none', srv=0):
        from sc3.synth.buffer import Buffer

        def call():
            if srv:
                return Buffer.new_cue(PATH, 5, 32768, 2, self.s2)
            if compl == 'none':
                return Buffer.new_cue(PATH, 0, 32768, 1)
            return Buffer.new_cue(PATH, 5, 32768, 2,
                                  completion_msg=self._compl(compl))

        def expect(obj):
            bid = self._new_bufs([obj], srv=srv)[0]
            if compl == 'none' and not srv:
                return [['/b_alloc', bid, 32768, 1,
                         {'blob': [['/b_read', bid, PATH, 0, 32768, 0, 1,
                                    OPT]]}]]
            return [['/b_alloc', bid, 32768, 2,
                     {'blob': [['/b_read', bid, PATH, 5, 32768, 0, 1] +
                               self._compl_exp(compl, bid)]}]]
        return {'call': call, 'expect': expect, 'srv': srv}

    def _op_b_read_ch(self):
        from sc3.synth.buffer import Buffer

        def expect(obj):
            bid = self._new_bufs([obj])[0]
            return [['/b_allocReadChannel', bid, PATH, 0, -1, 0, 1,
                     {'blob': [['/b_query', bid]]}]]
        return {'call': lambda: Buffer.new_read_channel(PATH, 0, -1, [0, 1]),
                'expect': expect}

    def _op_b_alloc_read(self, compl, chans=None):
        """Buffer(alloc=False) + alloc_read / alloc_read_channel.  The
        channel list of /b_allocReadChannel is `N * int`, so here an absent
        completion message must really be absent: a trailing int 0 would be
        one more channel"""
        from sc3.synth.buffer import Buffer

        def call():
            b = Buffer(alloc=False)
            if chans is None:
                b.alloc_read(PATH, 3, 100, self._compl(compl))
            else:
                b.alloc_read_channel(PATH, 3, 100, list(chans),
                                     self._compl(compl))
            return b

        def expect(obj):
            bid = self._new_bufs([obj])[0]
            if chans is None:
                return [['/b_allocRead', bid, PATH, 3, 100] +
                        self._compl_exp(compl, bid)]
            tail = [] if compl == 'none' else self._compl_exp(compl, bid)
            return [['/b_allocReadChannel', bid, PATH, 3, 100] +
                    list(chans) + tail]
        return {'call': call, 'expect': expect}

    def _free_bufs(self, e, compl, order):
        ent = self.bufs[e]
        live = ent['state'] == 'live'

        def call():
            for m in order:
                ent['objs'][m].free(self._compl(compl))

        def expect(_):
            if not live:
                return []
            ent['state'] = 'freed'
            self._bump(('b', e))
            return [['/b_free', ent['ids'][m]] +
                    self._compl_exp(compl, ent['ids'][m]) for m in order]

        def on_raise():
            pass
        return {'call': call, 'expect': expect, 'may_raise': not live,
                'on_raise': on_raise, 'srv': ent.get('srv', 0)}

    def _op_b_free(self, e, compl):
        return self._free_bufs(e, compl, range(len(self.bufs[e]['ids'])))

    def _op_b_free_rev(self, e):
        return self._free_bufs(
            e, 'none', list(reversed(range(len(self.bufs[e]['ids'])))))

    def _op_b_free_all(self, srv=0, explicit=False):
        from sc3.synth.buffer import Buffer

        def call():
            if srv:
                return Buffer.free_all(self.s2)
            return Buffer.free_all(self.s) if explicit else Buffer.free_all()

        def expect(_):
            out = []
            for e, ent in enumerate(self.bufs):
                if ent.get('srv', 0) != srv:
                    continue    # free_all() is per server
                if ent['state'] == 'live':
                    out += [['/b_free', i, OPT] for i in ent['ids']]
                    ent['state'] = 'stale'
                    self._bump(('b', e))
                elif ent['state'] == 'freed':
                    ent['state'] = 'stale'
            return out
        return {'call': call, 'expect': expect, 'unordered': True,
                'srv': srv}

    def _bufop(self, e, m, meth, args, expected, kw=None):
        ent = self.bufs[e]
        live = ent['state'] == 'live'
        b = ent['objs'][m]
        return {'call': lambda: getattr(b, meth)(*args, **(kw or {})),
                'expect': (lambda _: expected) if live else [],
                'may_raise': not live, 'srv': ent.get('srv', 0)}

    def _op_b_zero(self, e, m):
        i = self.bufs[e]['ids'][m]
        return self._bufop(e, m, 'zero', [], [['/b_zero', i, OPT]])

    def _op_b_set(self, e, m):
        i = self.bufs[e]['ids'][m]
        return self._bufop(e, m, 'set', [0, 0.5, 3, 0.25],
                           [['/b_set', i, 0, 0.5, 3, 0.25]])

    def _op_b_setn(self, e, m):
        i = self.bufs[e]['ids'][m]
        return self._bufop(e, m, 'setn', [0, [0.5, 0.25], 4, 1.5],
                           [['/b_setn', i, 0, 2, 0.5, 0.25, 4, 1, 1.5]])

    def _op_b_fill(self, e, m):
        i = self.bufs[e]['ids'][m]
        return self._bufop(e, m, 'fill', [2, 4, [0.5]],
                           [['/b_fill', i, 2, 4, 0.5]])

    def _op_b_query(self, e, m):
        i = self.bufs[e]['ids'][m]
        return self._bufop(e, m, 'query', [lambda *a: None],
                           [['/b_query', i]])

    def _op_b_close(self, e, m):
        i = self.bufs[e]['ids'][m]
        return self._bufop(e, m, 'close', [], [['/b_close', i, OPT]])

    def _op_b_write(self, e, m):
        i = self.bufs[e]['ids'][m]
        return self._bufop(e, m, 'write', [PATH, 'wav', 'float'],
                           [['/b_write', i, PATH, 'wav', 'float', -1, 0, 0,
                             OPT]])

    def _op_b_sine1(self, e, m):
        i = self.bufs[e]['ids'][m]
        return self._bufop(e, m, 'sine1', [[1.0, 0.5]],
                           [['/b_gen', i, 'sine1', 7, 1.0, 0.5]])

    def _op_b_get(self, e, m):
        i = self.bufs[e]['ids'][m]
        return self._bufop(e, m, 'get', [3, lambda *a: None],
                           [['/b_get', i, 3]])

    def _op_b_getn(self, e, m):
        i = self.bufs[e]['ids'][m]
        return self._bufop(e, m, 'getn', [3, 2, lambda *a: None],
                           [['/b_getn', i, 3, 2]])

    def _op_b_read_into(self, e, m, variant):
        i = self.bufs[e]['ids'][m]
        q = {'blob': [['/b_query', i]]}
        if variant == 'default':
            return self._bufop(e, m, 'read', [PATH],
                               [['/b_read', i, PATH, 0, -1, 0, 0, q]])
        if variant == 'open':
            return self._bufop(e, m, 'read', [PATH, 1, 2, 3, True],
                               [['/b_read', i, PATH, 1, 2, 3, 1, q]])
        return self._bufop(e, m, 'read_channel',
                           [PATH, 1, 2, 3, False, [0, 1]],
                           [['/b_readChannel', i, PATH, 1, 2, 3, 0, 0, 1,
                             q]])

    def _op_b_cue_m(self, e, m, compl):
        # cue(): read from `start_frame` of the file to the start of the
        # buffer and leave the file open (for DiskIn); how many frames are
        # asked for (all that fit: -1, or the buffer's size) is not decided
        ent = self.bufs[e]
        i = ent['ids'][m]
        frames = getattr(ent['objs'][m], 'frames', None)
        if not _num(frames):    # size not known to the client (read buffer)
            frames = ANY
        tail = self._compl_exp(compl, i)
        plan = self._bufop(e, m, 'cue', [PATH, 10, self._compl(compl)],
                           [['/b_read', i, PATH, 10, frames, 0, 1] + tail])
        plan['alts'] = [[['/b_read', i, PATH, 10, -1, 0, 1] + tail]]
        return plan

    def _op_b_update_info(self, e, m):
        ent = self.bufs[e]
        i = ent['ids'][m]
        plan = self._bufop(e, m, 'update_info', [], [['/b_query', i]])
        if ent['state'] == 'live' and len(ent['ids']) == 1:
            inner = plan['expect']

            def expect(res):
                ent['cached'] = True    # documented: (re)enters the cache
                return inner(res)
            plan['expect'] = expect
        return plan

    def _op_b_gen(self, e, m, which):
        i = self.bufs[e]['ids'][m]
        # flags: normalize 1 + as_wavetable 2 + clear_first 4
        if which == 'gen':
            return self._bufop(e, m, 'gen',
                               ['sine1', [1.0, 0.5], False, True, False],
                               [['/b_gen', i, 'sine1', 2, 1.0, 0.5]])
        if which == 'normalize':
            return self._bufop(e, m, 'normalize', [0.5],
                               [['/b_gen', i, 'normalize', 0.5]])
        if which == 'wnormalize':
            return self._bufop(e, m, 'normalize', [0.5, True],
                               [['/b_gen', i, 'wnormalize', 0.5]])
        if which == 'sine2':
            return self._bufop(e, m, 'sine2',
                               [[1, 2], [0.5, 0.25], True, False, True],
                               [['/b_gen', i, 'sine2', 5, 1, 0.5, 2, 0.25]])
        if which == 'sine3':
            return self._bufop(e, m, 'sine3',
                               [[1, 2], [0.5, 0.25], [0, 1]],
                               [['/b_gen', i, 'sine3', 7, 1, 0.5, 0,
                                 2, 0.25, 1]])
        if which == 'cheby':
            return self._bufop(e, m, 'cheby',
                               [[1.0, 0.5], False, False, False],
                               [['/b_gen', i, 'cheby', 0, 1.0, 0.5]])
        raise core.HarnessError(which)

    def _op_b_partconv(self, e, m, e2, m2):
        i = self.bufs[e]['ids'][m]
        j = self.bufs[e2]['ids'][m2]
        src = self.bufs[e2]['objs'][m2]
        return self._bufop(e, m, 'prepare_partconv', [src, 2048],
                           [['/b_gen', i, 'PreparePartConv', j, 2048]])

    def _op_b_write_v(self, e, m, variant):
        i = self.bufs[e]['ids'][m]
        if variant == 'default':
            # a path without extension: whether the header format is appended
            # to it is not decided by the reference
            base = '/tmp/c17out'
            plan = self._bufop(e, m, 'write', [base],
                               [['/b_write', i, base + '.aiff', 'aiff',
                                 'int24', -1, 0, 0, OPT]])
            plan['alts'] = [[['/b_write', i, base, 'aiff', 'int24', -1, 0,
                              0, OPT]]]
            return plan
        return self._bufop(e, m, 'write',
                           [PATH, 'wav', 'float', 100, 10, True,
                            self._compl(variant)],
                           [['/b_write', i, PATH, 'wav', 'float', 100, 10, 1]
                            + self._compl_exp(variant, i)])

    def _op_b_compl(self, e, m, meth, compl):
        i = self.bufs[e]['ids'][m]
        cmd = {'zero': '/b_zero', 'close': '/b_close'}[meth]
        return self._bufop(e, m, meth, [self._compl(compl)],
                           [[cmd, i] + self._compl_exp(compl, i)])

    def _op_b_copy(self, e, m, e2, m2):
        i = self.bufs[e]['ids'][m]
        j = self.bufs[e2]['ids'][m2]
        dst = self.bufs[e2]['objs'][m2]
        return self._bufop(e, m, 'copy_data', [dst, 1, 2, -1],
                           [['/b_gen', j, 'copy', 1, i, 2, -1]])

    # ---- buses ----------------------------------------------------------------
    def _op_bus_new(self, rate, ch, srv=0):
        from sc3.synth import bus as busmod
        cls = busmod.ControlBus if rate == 'c' else busmod.AudioBus
        server = self.s2 if srv else self.s

        def expect(obj):
            idx = getattr(obj, 'index', None)
            if not isinstance(idx, int) or isinstance(idx, bool):
                raise _Disagree('own-id:bus', 'an int bus index', repr(idx))
            live = self._ids1(srv)['cbus' if rate == 'c' else 'abus']
            if live & set(range(idx, idx + ch)):
                raise _Disagree('id-collision:bus',
                                f'channels not owned by a live bus '
                                f'({sorted(live)})', [idx, ch])
            if getattr(obj, 'server', None) is not server:
                raise _Disagree('own-server:bus', server.name,
                                getattr(getattr(obj, 'server', None), 'name',
                                        None))
            self.buses.append({'obj': obj, 'rate': rate, 'idx': idx,
                               'ch': ch, 'idx0': idx, 'ch0': ch,
                               'state': 'live', 'srv': srv})
            self._bump(('bus', len(self.buses) - 1))
            return []
        if srv:
            return {'call': lambda: cls(ch, server), 'expect': expect,
                    'srv': srv}
        return {'call': lambda: cls(ch), 'expect': expect}

    def _op_bus_free(self, k):
        b = self.buses[k]
        live = b['state'] == 'live'

        def expect(_):
            if live:
                b['state'] = 'freed'
                self._bump(('bus', k))
            return []
        return {'call': lambda: b['obj'].free(), 'expect': expect,
                'may_raise': not live, 'srv': b.get('srv', 0)}

    def _busop(self, k, meth, args, expected):
        b = self.buses[k]
        live = b['state'] == 'live'
        return {'call': lambda: getattr(b['obj'], meth)(*args),
                'expect': expected if live else [],
                'may_raise': not live, 'srv': b.get('srv', 0)}

    def _op_c_sub(self, k, meth):
        """a command through a sub-bus view (sub_bus / new_from) of the last
        channel: mentions the parent's index + offset"""
        b = self.buses[k]
        live = b['state'] == 'live'
        off = (b['ch'] or 1) - 1
        idx = (b['idx'] or 0) + off

        def call():
            from sc3.synth import bus as busmod
            if meth == 'new_from':
                sub = busmod.ControlBus.new_from(b['obj'], off, 1)
                return sub.set(0.75)
            sub = b['obj'].sub_bus(off, 1)
            if meth == 'set':
                return sub.set(0.5)
            if meth == 'fill':
                return sub.fill(0.25, 1)
            return sub.get(lambda *a: None)
        exp = {'set': ['/c_set', idx, 0.5], 'fill': ['/c_fill', idx, 1, 0.25],
               'get': ['/c_get', idx],
               'new_from': ['/c_set', idx, 0.75]}[meth]
        return {'call': call, 'expect': [exp] if live else [],
                'may_raise': not live, 'srv': b.get('srv', 0)}

    def _op_c_view(self, k, off, ch, meth, nk=None):
        """a command through / with the view sub_bus(off, ch) (new_from for
        odd off + ch) of bus k.  A view inside the parent's block must work
        and name index + off; any other view is either refused (exception,
        nothing emitted) or every index its command names lies in the
        parent's live block"""
        b = self.buses[k]
        live = b['state'] == 'live'
        p, idx = (b['ch'], b['idx']) if live else (0, 0)
        inside = live and off + ch <= p
        base = idx + off
        nid = self.nodes[nk]['id'] if nk is not None else None
        vals = [0.25 * (i + 1) for i in range(ch)]
        exp = {'clear': ['/c_fill', base, ch, 0],
               'setn': ['/c_setn', base, ch] + vals,
               'getn': ['/c_getn', base, ch],
               'set1': ['/c_set', base, 0.5],
               'mapn': ['/n_mapn', nid, 0, base, ch],
               'mapan': ['/n_mapan', nid, 0, base, ch],
               'amap': ['/n_set', nid, 'in', 'a' + str(base)]}[meth]
        # indices the command names
        named = [base] if meth in ('set1', 'amap') \
            else list(range(base, base + ch))

        def call():
            from sc3.synth import bus as busmod
            if (off + ch) % 2:
                cls = busmod.ControlBus if b['rate'] == 'c' \
                    else busmod.AudioBus
                sub = cls.new_from(b['obj'], off, ch)
            else:
                sub = b['obj'].sub_bus(off, ch)
            if meth == 'clear':
                return sub.clear()
            if meth == 'setn':
                return sub.setn(vals)
            if meth == 'getn':
                return sub.getn(None, lambda *a: None)
            if meth == 'set1':
                return sub.set(0.5)
            node = self.nodes[nk]['obj']
            if meth == 'amap':
                return node.set('in', sub.as_map())
            return getattr(node, meth)(0, sub)

        def expect(_):
            if not live:
                return []
            if not inside:
                out = [i for i in named if not idx <= i < idx + p]
                if out:
                    raise _Disagree(
                        'sub-bus-outside-parent',
                        f'view ({off}, {ch}) of a {p}-channel bus at {idx} '
                        f'refused, or only indices {idx}..{idx + p - 1} '
                        f'named', f'not refused; {exp}')
            return [exp]
        return {'call': call, 'expect': expect, 'may_raise': not inside,
                'srv': b.get('srv', 0)}

    def _op_c_get_d(self, k):
        # default action
        b = self.buses[k]
        exp = ['/c_get', b['idx']] if b['ch'] == 1 \
            else ['/c_getn', b['idx'], b['ch']]
        return self._busop(k, 'get', [], [exp])

    def _op_c_getn_d(self, k):
        # count=None: all the channels of the bus
        b = self.buses[k]
        return self._busop(k, 'getn', [], [['/c_getn', b['idx'], b['ch']]])

    def _op_c_set(self, k, n):
        b = self.buses[k]
        n = min(n, b['ch'])
        vals = [0.5, 0.25][:n]
        exp = ['/c_set']
        for i, v in enumerate(vals):
            exp += [b['idx'] + i, v]
        return self._busop(k, 'set', vals, [exp])

    def _op_c_setn(self, k):
        b = self.buses[k]
        vals = [1.5, 2][:b['ch']]
        return self._busop(k, 'setn', [vals],
                           [['/c_setn', b['idx'], len(vals)] + vals])

    def _op_c_fill(self, k):
        b = self.buses[k]
        return self._busop(k, 'fill', [0.5, b['ch']],
                           [['/c_fill', b['idx'], b['ch'], 0.5]])

    def _op_c_clear(self, k):
        b = self.buses[k]
        return self._busop(k, 'clear', [],
                           [['/c_fill', b['idx'], b['ch'], 0]])

    def _op_c_get(self, k):
        b = self.buses[k]
        exp = ['/c_get', b['idx']] if b['ch'] == 1 \
            else ['/c_getn', b['idx'], b['ch']]
        return self._busop(k, 'get', [lambda *a: None], [exp])

    def _op_c_getn(self, k):
        b = self.buses[k]
        return self._busop(k, 'getn', [b['ch'], lambda *a: None],
                           [['/c_getn', b['idx'], b['ch']]])

    def _op_c_set_at(self, k):
        b = self.buses[k]
        off = b['ch'] - 1
        return self._busop(k, 'set_at', [off, 0.5],
                           [['/c_set', b['idx'] + off, 0.5]])

    def _op_c_setn_at(self, k):
        b = self.buses[k]
        off = b['ch'] - 1
        return self._busop(k, 'setn_at', [off, [0.25]],
                           [['/c_setn', b['idx'] + off, 1, 0.25]])

    def _op_c_set_pairs(self, k):
        b = self.buses[k]
        off = b['ch'] - 1
        return self._busop(k, 'set_pairs', [0, 0.5, off, 0.25],
                           [['/c_set', b['idx'], 0.5, b['idx'] + off,
                             0.25]])

    # ---- state key / evidence ------------------------------------------------------
    def key(self):
        s = self.s

        def alloc_state(a):
            try:
                return [sorted((b.address, b.size) for b in a.blocks()),
                        sorted((sz, sorted(b.start for b in st))
                               for sz, st in a._freed.items()), a.top]
            except Exception as e:
                return repr(type(e))
        try:
            nxt = s._node_allocator._temp
        except Exception:
            nxt = None
        return {
            'nodes': [[n['kind'], n['cls'], n['id'], n['state'],
                       getattr(n['obj'], 'node_id', None)]
                      for n in self.nodes],
            'bufs': [[e['ids'], e['state'], e['cached'],
                      [getattr(b, 'bufnum', None) for b in e['objs']]]
                     for e in self.bufs],
            'buses': [[b['rate'], b['idx0'], b['ch0'], b['state'],
                       getattr(b['obj'], 'index', None)]
                      for b in self.buses],
            # futures of an open block depend on how many messages it holds
            # and on whose they are, not on their argument lists
            'bind': None if self.cm is None else
            [[m[:2] for m in blk['pending']] for blk in self.blocks],
            'next_node': nxt,
            'alloc': [alloc_state(s._buffer_allocator),
                      alloc_state(self.s2._buffer_allocator),
                      [e.get('srv', 0) for e in self.bufs],
                      alloc_state(s._control_bus_allocator),
                      alloc_state(s._audio_bus_allocator)],
        }

    def nontrivial(self):
        return any(v >= 2 for v in self.lc.values())

    def outcome(self):
        return self.last


class _Disagree(Exception):
    def __init__(self, kind, exp, obs):
        self.kind, self.exp, self.obs = kind, exp, obs


SYSTEMS = {'client': ClientSys}


def replay(job):
    if job['case'].get('family') in ('stream', 'bigblock'):
        dis = _e1(job['case'])[0]
        return {'violates': any(d[0] == job['kind'] for d in dis),
                'disagreements': [[d[0], repr(d[1])[:400], repr(d[2])[:400]]
                                  for d in dis]}
    return histbfs.replay(job)


# --- E1 family 'stream': routine-driven buffer transfers ---------------------
# Buffer.send_list / Buffer.new_send_list (many /b_setn packets sent from a
# routine) and Buffer.get_to_list (many /b_getn requests sent from a routine)
# need the NRT clock to run: one case = fresh state, the call, main.process(),
# then the whole score is judged.  (main.process() closes the score, so these
# cannot be steps of a longer history.)

STREAM_LENS = [1, 1625, 1626, 1627, 3252, 3253, 4000]
GET_LENS = [1, 1632, 1633, 1634, 3266, 3267, 4000]
STREAM_WAITS = [None, -1, 0, 0.01]      # None = argument left out


def stream_cases():
    for entry in ('send_list', 'new_send_list'):
        for n in STREAM_LENS:
            for ch in (1, 2):
                for start in ((0, 3) if entry == 'send_list' else (0,)):
                    for wait in STREAM_WAITS:
                        for action in (False, True):
                            yield {'family': 'stream', 'entry': entry,
                                   'n': n, 'ch': ch, 'start': start,
                                   'wait': wait, 'action': action}
    for n in GET_LENS + [None]:         # None = count left out (whole buffer)
        for ch in (1, 2):
            for start in (0, 3):
                for wait in STREAM_WAITS:
                    yield {'family': 'stream', 'entry': 'get_to_list',
                           'n': n, 'ch': ch, 'start': start, 'wait': wait,
                           'action': True}


def _sample(i):
    """exactly representable in float32, no two neighbours equal"""
    return (i % 251) * 0.25 - 8.0


def check_stream(case):
    from sc3.synth.buffer import Buffer
    sys_ = ClientSys({'fams': ['buf']})
    main = sys_.main
    dis = []
    entry, n, ch = case['entry'], case['n'], case['ch']
    start, wait = case['start'], case['wait']
    called = []
    kw = {}
    if wait is not None:
        kw['wait'] = wait
    frames = 4096                       # of the pre-allocated buffers
    try:
        if entry == 'send_list':
            lst = [_sample(i) for i in range(n)]
            if case['action']:
                kw['action'] = lambda *a: called.append(a)
            b = Buffer(frames, ch)
            b.send_list(lst, start, **kw)
            first = start * ch          # frames -> samples
            head = ['/b_alloc', ANY, frames, ch, OPT]
        elif entry == 'new_send_list':
            lst = [_sample(i) for i in range(n)]
            if case['action']:
                kw['action'] = lambda *a: called.append(a)
            b = Buffer.new_send_list(lst, ch, **kw)
            first = 0
            head = ['/b_alloc', ANY, -(-n // ch), ch, OPT]
        else:
            b = Buffer(frames, ch)
            args = [lambda *a: called.append(a), start]
            if n is not None:
                args.append(n)
            b.get_to_list(*args, **kw)
            first = start
            count = n if n is not None else frames * ch
            head = ['/b_alloc', ANY, frames, ch, OPT]
        bid = getattr(b, 'bufnum', None)
        main.process()
    except Exception as e:
        return [(f'op-raises:{entry}', 'no exception',
                 f'{type(e).__name__}: {e}', '')]
    wire, werr = sys_._decode(sys_.packets)
    dis += werr
    bad = [t for t in sys_.targets if t not in (sys_.srv_target[0], None)]
    if bad:
        dis.append((f'wrong-server:{entry}', sys_.srv_target[0], bad[:3],
                    ''))
    msgs = [[a] + atoms(t) for a, t in wire]
    # the NRT score's own end marker (OscScore.finish) is not a command of
    # the client objects
    if msgs and msgs[-1] == ['/c_set', 0, 0]:
        msgs, wire = msgs[:-1], wire[:-1]
    for addr, targs in wire:
        errs, _ = server_cmds.validate(addr, targs, _decode_blob)
        if errs:
            dis.append((f'schema:{addr}', 'conforms to the command '
                        'reference', errs[:3],
                        ([addr] + atoms(targs))[:6]))
    if not msgs or not same_msg(head, msgs[0]) or msgs[0][1] != bid \
            or not isinstance(bid, int):
        dis.append((f'emission:{entry}', [head], [m[:6] for m in msgs[:1]],
                    f'creation command with the own id ({bid!r}) first'))
        return dis
    body = msgs[1:]
    cmd = '/b_getn' if entry == 'get_to_list' else '/b_setn'
    pos = first
    got = []
    ok = True
    for m in body:
        if m[0] != cmd or len(m) < 4 or m[1] != bid:
            ok = False
            break
        rest = m[2:]
        while rest:
            if len(rest) < 2 or not isinstance(rest[0], int) or \
                    not isinstance(rest[1], int) or rest[0] != pos or \
                    rest[1] < 1:
                ok = False
                break
            cnt = rest[1]
            if cmd == '/b_setn':
                vals = rest[2:2 + cnt]
                if len(vals) != cnt or not all(_num(v) for v in vals):
                    ok = False
                    break
                got += vals
                rest = rest[2 + cnt:]
            else:
                got += list(range(pos, pos + cnt))
                rest = rest[2:]
            pos += cnt
        if not ok:
            break
    want = lst if cmd == '/b_setn' else list(range(first, first + count))
    if not ok or got != want:
        dis.append((f'emission:{entry}',
                    f'{cmd} packets of buffer {bid} covering samples '
                    f'{first}..{first + len(want) - 1} exactly, in order, '
                    f'each count = number of values carried',
                    [m[:4] + [f'.. {len(m) - 4} more'] for m in body][:6],
                    f'{len(got)} samples covered of {len(want)}'))
    return dis


# --- E1 family 'bigblock': bind() blocks of 8 KB ... 64 KB and beyond ---------
# The statement: the commands of a block reach the wire as ONE bundle, in
# issue order.  The library may only split a block that cannot fit one UDP
# datagram (NetAddr._MAX_UDP_DGRAM_SIZE = 65504 bytes, a documented limit of
# the transport): up to that size exactly one bundle is demanded; above it any
# number of bundles is accepted, order and content stay strict.  The size of
# the one-bundle encoding is computed by the independent encoder (osc10) from
# the expected messages.

UDP_LIMIT = 65504
# 36 bytes per '/n_set id freq i' element: 227|228 straddle 8192, 1819|1820
# straddle 65504; a '/b_setn id 0 K f...' alone: 1629|1630 and 13091|13092
BIG_SETS = [100, 226, 227, 228, 229, 400, 800, 1500, 1818, 1819, 1820, 1821,
            2500]
BIG_SNEW = [100, 126, 127, 128, 129, 150, 300, 800, 1022, 1023, 1024, 1025,
            1500]       # 64 bytes per '/s_new default id 0 1 freq f amp a'
BIG_BLOB = [1000, 1628, 1629, 1630, 1631, 2048, 6000, 10000, 13090, 13091,
            13092, 13093, 15000]
BIG_MIX = [[6000, 0, 1], [6000, 100, 100], [10000, 300, 0], [13000, 0, 12],
           [13000, 6, 6], [13000, 7, 7], [13000, 200, 200], [1600, 1, 0]]


def bigblock_cases():
    for n in BIG_SETS:
        yield {'family': 'bigblock', 'what': 'set', 'n': n}
    for n in BIG_SNEW:
        yield {'family': 'bigblock', 'what': 'snew', 'n': n}
    for k in BIG_BLOB:
        yield {'family': 'bigblock', 'what': 'blob', 'n': k}
    for k, before, after in BIG_MIX:
        yield {'family': 'bigblock', 'what': 'mix', 'n': k,
               'before': before, 'after': after}


def check_bigblock(case):
    """-> (disagreements, size of the one-bundle encoding, bundles seen)"""
    from sc3.synth.buffer import Buffer
    sys_ = ClientSys({'fams': ['node', 'buf']})
    nod = sys_._classes()
    s = sys_.s
    dis = []
    what, n = case['what'], case['n']
    exp = []
    try:
        syn = nod.Synth(DEFNAME)
        buf = Buffer(16384, 1)
        sid, bid = syn.node_id, buf.bufnum
        del sys_.packets[:], sys_.targets[:]

        def sets(lo, hi):
            for i in range(lo, hi):
                syn.set('freq', i)
                exp.append(['/n_set', sid, 'freq', i])

        def blob(k):
            vals = [_sample(i) for i in range(k)]
            buf.setn(0, vals)
            exp.append(['/b_setn', bid, 0, k] + vals)
        with s.bind():
            if what == 'set':
                sets(0, n)
            elif what == 'snew':
                for i in range(n):
                    x = nod.Synth(DEFNAME, ['freq', 440 + i, 'amp', 0.5])
                    exp.append(['/s_new', DEFNAME, x.node_id, 0,
                                DEFAULT_GROUP, 'freq', 440 + i, 'amp', 0.5])
            elif what == 'blob':
                blob(n)
            else:
                sets(0, case['before'])
                blob(n)
                sets(case['before'], case['before'] + case['after'])
            if sys_.packets:
                dis.append(('bind-leak', 'nothing on the wire while the '
                            'bind() block is open', len(sys_.packets), ''))
    except Exception as e:
        return [(f'op-raises:bigblock', 'no exception',
                 f'{type(e).__name__}: {e}', '')], 0, 0
    size = 16 + sum(4 + len(osc10.encode_message(m[0], m[1:])) for m in exp)
    packets = list(sys_.packets)
    obs = []
    for raw in packets:
        wire, werr = sys_._decode([raw])
        dis += werr
        obs += [[a] + atoms(t) for a, t in wire]
    bad = [t for t in sys_.targets if t != sys_.srv_target[0]]
    if bad:
        dis.append(('wrong-server:bind', sys_.srv_target[0], bad[:3], ''))
    if size <= UDP_LIMIT and len(packets) != 1:
        dis.append(('bind-exit-not-one-bundle',
                    f'1 bundle with {len(exp)} messages ({size} bytes, the '
                    f'datagram limit is {UDP_LIMIT})',
                    f'{len(packets)} bundles of '
                    f'{[len(p) - 4 for p in packets][:12]} bytes', ''))
    if not same_seq(exp, obs):
        kind = 'bind-exit-order' if len(exp) == len(obs) and \
            sorted(map(core.canon, exp)) == sorted(map(core.canon, obs)) \
            else 'bind-exit-content'
        first = next((i for i, (a, b) in enumerate(zip(exp, obs))
                      if not same_msg(a, b)), min(len(exp), len(obs)))
        dis.append((kind, f'{len(exp)} messages in issue order',
                    f'{len(obs)} messages in {len(packets)} bundles; first '
                    f'difference at message {first}: '
                    f'{[m[:6] for m in obs[first:first + 2]]} instead of '
                    f'{[m[:6] for m in exp[first:first + 2]]}', ''))
    try:
        still = bool(s.addr.has_bundle())
    except Exception as e:
        still = f'{type(e).__name__}: {e}'
    if still is not False:
        dis.append(('bind-addr-not-restored', False, still, ''))
    return dis, size, len(packets)


def _e1(case):
    """-> (disagreements, non-trivial, observable outcome)"""
    if case['family'] == 'bigblock':
        dis, size, nb = check_bigblock(case)
        # non-trivial: the block is larger than 8192 bytes
        return dis, size > 8192, [case['what'], case['n'], size, nb,
                                  [d[0] for d in dis]]
    dis = check_stream(case)
    # non-trivial: the transfer needs more than one packet
    big = case['n'] is None or case['n'] > 1626
    return dis, big, [case['entry'], case['n'], case['ch'], case['start'],
                      [d[0] for d in dis]]


def e1_cases():
    yield from stream_cases()
    yield from bigblock_cases()


def stream_work(job):
    viol = {}
    n = nt = nviol = 0
    outcomes = set()
    for idx, case in enumerate(e1_cases()):
        if idx % job['of'] != job['shard']:
            continue
        dis, big, outcome = _e1(case)
        n += 1
        nt += 1 if big else 0
        outcomes.add(core.digest(outcome))
        for kind, exp, obs, detail in dis:
            nviol += 1
            c = dict(case)
            c['module'] = MODNAME
            v = {'kind': kind, 'case': c, 'expected': exp, 'observed': obs,
                 'detail': detail, 'size': len(core.canon(case)) +
                 1000 * (case['n'] or 9999)}
            b = viol.get(kind)
            if b is None or (v['size'], core.canon(v['case'])) < \
                    (b['size'], core.canon(b['case'])):
                viol[kind] = v
    return {'n': n, 'nt': nt, 'viol': list(viol.values()), 'nviol': nviol,
            'out': sorted(outcomes)}


def run_stream(ctx):
    of = 32
    total = 0
    for res in ctx.map('nrt', MODNAME, 'stream_work',
                       [{'shard': i, 'of': of} for i in range(of)]):
        total += res['n']
        ctx.evaluations += res['n']
        ctx.traces += res['n']
        ctx.states += res['n']
        ctx.nontrivial += res['nt']
        ctx.violation_count += res['nviol'] - len(res['viol'])
        for v in res['viol']:
            ctx.violation(v)
        for o in res['out']:
            ctx.outcomes.add(o)
    ctx.bounds['bigblock'] = {
        'cases': len(list(bigblock_cases())), 'n_set commands': BIG_SETS,
        's_new commands': BIG_SNEW, 'b_setn values': BIG_BLOB,
        'mixed [values, sets before, sets after]': BIG_MIX,
        'one bundle demanded up to bytes': UDP_LIMIT}
    ctx.bounds['stream'] = {
        'cases': total, 'lengths': STREAM_LENS, 'get_lengths': GET_LENS,
        'channels': [1, 2], 'start': [0, 3], 'wait': STREAM_WAITS}


# --- local BFS driver -------------------------------------------------------
# Same search as mc.engines.histbfs.run (level-synchronous BFS, a state is the
# history reaching it, dedup on digest(key())), with two changes that only
# affect cost and reproducibility: children are deduplicated inside the worker
# batch before they are sent back (most operations are queries that do not
# change the state), and the history representing a state is the canonically
# smallest violation-free one of its discovery level instead of the first one
# to arrive from the pool.

def expand(job):
    cls = SYSTEMS[job['system']]
    params = job['params']
    last = job['last']
    best = {}       # key -> [canon(h2), h2, nontrivial, ok]
    viol = {}
    nviol = 0
    tr = 0
    outcomes = set()
    for hist in job['hists']:
        s = histbfs._build(cls, params, hist)
        for op in s.ops():
            t = histbfs._build(cls, params, hist)
            h2 = hist + [op]
            dis = t.apply(op)
            tr += 1
            ch2 = core.canon(h2)
            for kind, exp, obs, detail in dis:
                nviol += 1
                v = {'kind': kind,
                     'case': {'system': job['system'], 'params': params,
                              'history': h2},
                     'expected': exp, 'observed': obs, 'detail': detail,
                     'size': len(h2) * 1000 + len(ch2)}
                b = viol.get(kind)
                if b is None or (v['size'], core.canon(v['case'])) < \
                        (b['size'], core.canon(b['case'])):
                    viol[kind] = v
            k = core.digest(t.key())
            outcomes.add(core.digest(t.outcome()))
            nt = bool(t.nontrivial())
            ok = not dis
            cur = best.get(k)
            if cur is None:
                best[k] = [ch2, h2, nt, ok]
            else:
                cur[2] = cur[2] or nt
                if (not ok, ch2) < (not cur[3], cur[0]):
                    cur[0], cur[1], cur[3] = ch2, h2, ok
    children = [[None if last else b[1], k, b[2], b[3]]
                for k, b in best.items()]
    return {'children': children, 'viol': list(viol.values()), 'tr': tr,
            'nviol': nviol, 'out': sorted(outcomes)}


def run_bfs(ctx, params, depth, batch=8, slice_k=1):
    """BFS to `depth`; with slice_k > 1 the last level expands only the
    seed-selected 1/slice_k of the frontier (canonical order), i.e. the
    completed bound is depth - 1 plus a slice of depth"""
    system = 'client'
    label = f'{system}:{core.canon(params)}'
    seen = {'<root>'}
    frontier = [[]]
    states = 1
    per_level = []
    completed = 0
    for level in range(1, depth + 1):
        if not frontier:
            completed = depth
            break
        if level == depth and slice_k > 1 and level > 1:
            ix = core.pick_slice(ctx.seed, slice_k)
            frontier = frontier[ix::slice_k]
        order = core.shard_order(len(frontier), ctx.seed + level)
        frontier = [frontier[i] for i in order]
        jobs = [{'system': system, 'params': params, 'last': level == depth,
                 'hists': frontier[i:i + batch]}
                for i in range(0, len(frontier), batch)]
        found = {}      # key -> [h2, nontrivial, ok]
        ntr = 0
        for res in ctx.map('nrt', MODNAME, 'expand', jobs):
            ntr += res['tr']
            ctx.violation_count += res['nviol'] - len(res['viol'])
            for v in res['viol']:
                v['case']['module'] = MODNAME
                ctx.violation(v)
            for o in res['out']:
                ctx.outcomes.add(o)
            for h2, k, nt, ok in res['children']:
                if k in seen:
                    continue
                cur = found.get(k)
                if cur is None:
                    found[k] = [h2, nt, ok]
                else:
                    cur[1] = cur[1] or nt
                    if h2 is not None and \
                            (not ok, core.canon(h2)) < \
                            (not cur[2], core.canon(cur[0])):
                        cur[0], cur[2] = h2, ok
                    elif h2 is None:
                        cur[2] = cur[2] or ok
        seen.update(found)
        states += len(found)
        ctx.nontrivial += sum(1 for f in found.values() if f[1])
        nxt = sorted((f[0] for f in found.values()
                      if f[2] and f[0] is not None),
                     key=lambda h: core.canon(h))
        if level >= min(depth - 1, 3):
            for h in sorted((f[0] for f in found.values()
                             if f[1] and f[2] and f[0] is not None),
                            key=lambda h: core.canon(h)):
                if len(ctx.samples) >= 12 or \
                        sum(1 for x in ctx.samples
                            if x['params'] == params) >= 2:
                    break
                ctx.samples.append({'system': system, 'params': params,
                                    'history': h})
        ctx.transitions += ntr
        ctx.evaluations += ntr
        ctx.traces += ntr
        per_level.append({'depth': level, 'frontier_in': len(frontier),
                          'transitions': ntr, 'new_states': len(found)})
        frontier = nxt
        completed = level
        if ctx.out_of_time():
            ctx.caps.append(f'{label}: time cap hit after depth {level}')
            break
    ctx.states += states
    if slice_k > 1 and completed == depth and depth > 1:
        ctx.bounds[label] = {'depth_completed': depth - 1,
                             'extra_slice': f'1/{slice_k} of the depth-'
                             f'{depth} frontier (seed-selected)',
                             'states': states, 'levels': per_level}
    else:
        ctx.bounds[label] = {'depth_completed': completed, 'states': states,
                             'levels': per_level}
    import os
    if os.environ.get('C17_DEBUG'):
        import sys
        sys.stderr.write(f'{label} depth {depth}/{slice_k}: ' + ' '.join(
            f"L{x['depth']}:{x['frontier_in']}>{x['transitions']}"
            for x in per_level) + '\n')
    return states


# --- known findings predicates ---------------------------------------------------
# (fix patches are proposed in /verif/fixes/C17-*.patch; these predicates let
# the maintainer file the defects as open findings instead)

def _last_op(v):
    return v['case']['history'][-1]


def _buf_states(history):
    """life-cycle of the buffer entities before the last operation"""
    st = []
    for op in history[:-1]:
        if op[0] in ('b_new', 'b_consec', 'b_read', 'b_cue', 'b_new_alloc',
                     'b_read_ch', 'b_alloc_read', 'b2_new', 'b2_consec',
                     'b2_read'):
            st.append('live')
        elif op[0] in ('b_free', 'b_free_rev') and op[1] < len(st):
            if st[op[1]] == 'live':
                st[op[1]] = 'freed'
        elif op[0] == 'b_free_all':
            st = ['stale'] * len(st)
    return st


def second_buffer_free(v):
    op = _last_op(v)
    st = _buf_states(v['case']['history'])
    return op[0] in ('b_free', 'b_free_rev') and op[1] < len(st) and \
        st[op[1]] == 'freed'


def free_all_with_live_buffers(v):
    return _last_op(v)[0] == 'b_free_all' and \
        'live' in _buf_states(v['case']['history'])


def consecutive_default_server(v):
    op = _last_op(v)
    return op[0] == 'b_consec' and op[2] is False


def dict_args_with_list_value(v):
    op = _last_op(v)
    return op[0] in ('s_new', 's_conv', 's_replace') and op[-1] == 'dictl'


def _last_buf_state(v):
    op = _last_op(v)
    st = _buf_states(v['case']['history'])
    return st[op[1]] if len(op) > 1 and isinstance(op[1], int) \
        and op[1] < len(st) else None


def cue_on_live_buffer(v):
    """Buffer.cue(path, start, ...) of a live buffer"""
    return _last_op(v)[0] == 'b_cue_m' and _last_buf_state(v) == 'live'


def alloc_read_channel_without_completion(v):
    op = _last_op(v)
    return op[0] == 'b_alloc_read' and op[1] == 'none' and len(op) > 2 \
        and op[2] is not None


def unguarded_method_on_freed_buffer(v):
    """read / read_channel / cue / update_info after free()"""
    return _last_op(v)[0] in ('b_read_into', 'b_cue_m', 'b_update_info') \
        and _last_buf_state(v) == 'freed'


PREDICATES = {f.__name__: f for f in (
    second_buffer_free, free_all_with_live_buffers,
    consecutive_default_server, dict_args_with_list_value,
    cue_on_live_buffer, alloc_read_channel_without_completion,
    unguarded_method_on_freed_buffer)}


def main(ctx):
    ctx.rule = (
        'E2 BFS over all histories of client-object operations (creation of '
        'Group/ParGroup/Synth with every add action x target kind (None, '
        'Server, second Server, int id 0/1, root node object, default group '
        'object, node object; plain/paused/grain/replace/convenience '
        'constructors, register=True), '
        'set/setn/seti/map/mapn/mapa/mapan/fill/release/run/move/free/'
        'query/dump_tree/query_tree/... with '
        'scalar, None/bool/zero/negative, list, tuple, dict, bus, bus map '
        'symbol, buffer and node arguments, server helpers (free_default_'
        'group, free_nodes, query_tree, dump_osc, reorder, root node), Buffer '
        'single (cached and cache=False)/consecutive/read/read_channel/cue/'
        'alloc_read allocation with none/list/callable completion messages, '
        'every Buffer command method (zero/set/setn/fill/read/read_channel/'
        'cue/write/close/query/update_info/get/getn/gen/normalize/sine1-3/'
        'cheby/copy_data/prepare_partconv), free, free_all (default, explicit '
        'and second server), Control/Audio '
        'bus allocation (1-3 channels, both servers), use (also through '
        'sub_bus/new_from views: every (offset, channels) pair up to two '
        'past the parent for parents of 1-4 channels), free, '
        'bind()/exit/exit-by-exception, also '
        'one bind() nested in another) on the '
        'real objects in NRT mode: wide alphabets (all argument variants) to '
        'depth 3-5 per object family and mixed, plus a narrow life-cycle '
        'alphabet (create/free/replace/bind and a few emitting operations) to '
        'depth 5-6; in the quick tier the last level of the largest wide '
        'runs is a seed-selected 1/k slice of the frontier (ctx.bounds says '
        'which); after every step the decoded wire (with the server address '
        'each entry was sent to) is '
        'compared with the command reference and a per-server set-of-ids '
        'model. Plus an E1 family of 47 big bind() blocks (8 KB ... 90 KB: '
        'one bundle up to the 65504-byte datagram limit, any split above, '
        'order/content strict; non-trivial = larger than 8192 bytes) and an '
        'E1 family of 464 routine-driven transfers '
        '(send_list/new_send_list/get_to_list around the packet boundary, '
        'run by main.process(); non-trivial = more than one packet). States '
        'are deduplicated on model state + allocator contents + pending '
        'bundle. Non-trivial = some object (node, buffer group, bus, bind '
        'block) changed life-cycle state at least twice in the history.')
    ctx.assumptions += [
        'mc/oracles/server_cmds.py: argument schemas typed in from the '
        'Server Command Reference',
        'mc/oracles/osc10.py: strict OSC 1.0 decoder of the score datagrams',
        'the NRT score (every entry captured when it is queued, its target '
        'noted at OscNrtInterface.send_bundle) is the wire; '
        'the allocator tie-break (builtins.choice) is fixed to lowest-start '
        '(C16 explores it)',
        'the real allocators\' blocks() report the used blocks']
    fam_node = {'fams': ['node'], 'max': {'group': 2, 'synth': 2}}
    fam_buf = {'fams': ['buf'], 'max': {'buf': 2}}
    fam_buf2 = {'fams': ['buf2'], 'max': {'buf': 2}}
    fam_bus = {'fams': ['bus', 'bus2', 'node'],
               'max': {'bus': 2, 'group': 0, 'synth': 1}}
    fam_node2 = {'fams': ['node', 'node2'], 'max': {'group': 1, 'synth': 1}}
    mixed = {'fams': ['node', 'buf', 'bus'],
             'max': {'group': 1, 'synth': 1, 'buf': 1, 'bus': 2}}

    def opened(p):
        q = dict(p)
        q['fams'] = [f for f in p['fams'] if f not in ('bus2', 'node2')]
        q['bind_open'] = True
        return q

    def narrow(p, mx):
        return {'fams': [f for f in p['fams'] if f != 'bus2'], 'max': mx,
                'narrow': True}
    n_node = narrow(fam_node, {'group': 2, 'synth': 2})
    n_buf = narrow(fam_buf, {'buf': 3})
    n_mixed = narrow(mixed, {'group': 1, 'synth': 1, 'buf': 1, 'bus': 1})
    # bind() inside bind(): narrow alphabet, first block already open
    nested = {'fams': ['node', 'buf'], 'narrow': True, 'nest': 2,
              'bind_open': True,
              'max': {'group': 1, 'synth': 1, 'buf': 1}}
    # every (offset, channels) sub-bus view of 1-4 channel parents
    subbus = {'fams': ['subbus'], 'max': {'bus': 2, 'synth': 1, 'group': 0}}
    # (params, depth, slice of the last level)
    if ctx.tier == 'quick':
        plan = [(fam_node, 4, 8), (fam_buf, 4, 1), (fam_buf2, 3, 1),
                (fam_bus, 4, 4), (fam_node2, 3, 1), (mixed, 3, 1),
                (opened(fam_node), 3, 4), (opened(fam_buf), 3, 1),
                (opened(fam_bus), 3, 2), (opened(mixed), 3, 8),
                (n_node, 5, 1), (n_buf, 5, 1), (n_mixed, 4, 1),
                (nested, 4, 1), (subbus, 4, 1)]
    else:
        plan = [(fam_node, 4, 1), (fam_buf, 5, 2), (fam_buf2, 4, 1),
                (fam_bus, 5, 4), (fam_node2, 4, 1), (mixed, 4, 2),
                (opened(fam_node), 3, 1), (opened(fam_buf), 4, 2),
                (opened(fam_bus), 4, 4), (opened(mixed), 3, 1),
                (n_node, 6, 1), (n_buf, 6, 1), (n_mixed, 6, 1),
                (nested, 5, 1), (subbus, 5, 1)]
    for params, depth, k in plan:
        run_bfs(ctx, params, depth, slice_k=k)
    run_stream(ctx)
