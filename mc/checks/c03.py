"""C03 - Multichannel expansion follows the wrap-and-zip law everywhere.

E1 (progenum), mode 'nrt'.  Differential oracle: inside one real SynthDef
build the call is made with list arguments; inside a second build the
expansion tree computed by mc/oracles/mcexpand.py from the *plain-data*
argument shapes is evaluated with list-free calls only.  Both results are
turned into plain structural descriptions (class, rate, special index, inputs,
output index, nesting) and must be identical, and the units added to the
definition must be the same (one per combination).  Output units are checked
on the decoded definition bytes against terms computed by the oracle from the
case data alone (absolute) and against the single-combination calls
(differential).

Families of cases
  ctor   every UGen rate constructor whose body is a single
         `return cls._multi_new(<literal rate>, <every parameter once,
         unconverted, in any order>)` (found with `ast` at worker start) plus
         EXTRA_CTORS (MulAdd.new: computed rate), shapes on every pair of
         parameters (full product for <= 3 parameters)
  ctorx  the same constructors, rarer shapes one at a time (4-element list,
         depth 3, list holding a ChannelList and vice versa, ChannelList(value),
         ChannelList(tuple), tuple inside a list) next to a companion shape
  call   the class called like a constructor (MetaSynthObject.__call__):
         Cls(...) and Cls(..., urate=r)
  tuple  list-free calls with one tuple argument: the tuple must sit where a
         scalar would sit (same units, same nesting)
  op     every unary / binary / reflected operator method of AbstractObject on
         ChannelList and UGen receivers with list operands (also the operand
         left to its default), and the other routes to the same operators:
         augmented assignment (x op= y) and the functions of
         sc3.base.builtins with the receiver as first / second argument
  meth   the convenience methods of ChannelList, their clip= / type= option
         (strings, None, lists of them), poll with explicit label(s)
  out    Out / ReplaceOut / OffsetOut / LocalOut / XOut channel arrays given
         as plain lists and as ChannelLists (also nested)
  edit   a ChannelList edited in place with plain list operations (item /
         slice assignment, append, extend, insert, del, pop, reverse, clear)
         and only then used in constructor / operand / receiver / method
         argument / output-array position: the law is applied to the content
         at the time of the call
  rep    lists that repeat ONE object ([x, x], x.dup(3), one literal object
         repeated) in one and in all list positions: every index is its own
         combination - own unit (count of units created, identity of the
         result leaves)
"""

import ast
import inspect
import itertools
import textwrap
import importlib
import pkgutil

from mc import core, graphprog as gp
from mc.engines import progenum
from mc.oracles import scgf, mcexpand as mx

MODE = 'nrt'
MODNAME = 'mc.checks.c03'
CTOR_NAMES = ('ar', 'kr', 'ir', 'dr', 'new')

# shape name -> function(leaf specs) -> spec
SHAPES = {
    's': lambda a: a[0],
    't': lambda a: ['t', a[0], a[1]],
    'l1': lambda a: ['l', a[0]],
    'l2': lambda a: ['l', a[0], a[1]],
    'l3': lambda a: ['l', a[0], a[1], a[2]],
    'n21': lambda a: ['l', ['l', a[0], a[1]], a[2]],
    'n12': lambda a: ['l', ['l', a[0]], ['l', a[1], a[2]]],
    'r12': lambda a: ['l', a[0], ['l', a[1], a[2]]],    # flat first, nested later
    'c1': lambda a: ['c', a[0]],
    'c2': lambda a: ['c', a[0], a[1]],
    'c3': lambda a: ['c', a[0], a[1], a[2]],
    'cc21': lambda a: ['c', ['c', a[0], a[1]], a[2]],
    'cl21': lambda a: ['c', ['l', a[0], a[1]], a[2]],
    'o': lambda a: ['o'],
    # --- shapes added by the audit (family 'ctorx', operators, methods)
    'l4': lambda a: ['l', a[0], a[1], a[2], a[3]],       # wrap beyond 2 x len
    'd3': lambda a: ['l', ['l', ['l', a[0], a[1]], a[2]], a[3]],   # depth 3
    'lc21': lambda a: ['l', ['c', a[0], a[1]], a[2]],    # list holding a CL
    'r1c2': lambda a: ['l', a[0], ['c', a[1], a[2]]],    # flat first, CL later
    'lt': lambda a: ['l', ['t', a[0], a[1]], a[2]],      # tuple inside a list
    'ks': lambda a: ['k', a[0]],                         # ChannelList(value)
    'kt': lambda a: ['k', ['t', a[0], a[1]]],            # ChannelList(tuple)
    # --- channel lists edited in place before use (family 'edit'); the spec
    # is the FINAL content, the edit that produced it is case['edit']
    'e2': lambda a: ['e', a[0], a[1]],
    'e3': lambda a: ['e', a[0], a[1], a[2]],
    'e21': lambda a: ['e', ['l', a[0], a[1]], a[2]],
    'le21': lambda a: ['l', ['e', a[0], a[1]], a[2]],    # edited CL in a list
    'ce21': lambda a: ['c', ['e', a[0], a[1]], a[2]],    # ... in a fresh CL
    'ec21': lambda a: ['e', ['c', a[0], a[1]], a[2]],    # edited, holds a CL
    # --- ONE object repeated (family 'rep'): every index is a combination of
    # its own although the elements are the very same Python object
    'rr2': lambda a: ['l', a[0], a[0]],
    'rr3': lambda a: ['l', a[0], a[0], a[0]],
    'rc2': lambda a: ['c', a[0], a[0]],                  # sig.dup()
    'rc3': lambda a: ['c', a[0], a[0], a[0]],            # sig.dup(3)
    'rn2': lambda a: ['l', ['l', a[0], a[0]], ['l', a[0], a[0]]],
}
CTOR_SHAPES = ['s', 't', 'l1', 'l2', 'l3', 'n21', 'n12', 'r12', 'c2', 'o']
# shapes of family 'ctorx' (none of them is in CTOR_SHAPES)
CTORX_SHAPES = ['l4', 'd3', 'lc21', 'r1c2', 'cl21', 'cc21', 'c1', 'c3', 'lt',
                'ks', 'kt']
CTORX_COMPANIONS = ['l3', 'c2']              # completed in both tiers
CTORX_COMPANIONS_MORE = ['l2', 'r12', 'n21'] + CTORX_SHAPES


def shape_spec(shape, base):
    """Spec of a shape whose leaves are atoms base, base+1, base+2(, base+3)."""
    return SHAPES[shape]([['s', base + k] for k in range(4)])


# ---------------------------------------------------------------------------
# Inventory (worker side; sc3 is imported)
# ---------------------------------------------------------------------------

_INV = None


def _analyse(func):
    """Is `func` (a plain function taken from a classmethod) a constructor
    that delegates directly?  -> (True, rate, params) | (False, reason)"""
    try:
        src = textwrap.dedent(inspect.getsource(func))
        fd = ast.parse(src).body[0]
    except (OSError, SyntaxError, IndexError) as e:
        return False, f'source unavailable: {type(e).__name__}'
    body = list(fd.body)
    if body and isinstance(body[0], ast.Expr) and \
            isinstance(body[0].value, ast.Constant) and \
            isinstance(body[0].value.value, str):
        body = body[1:]
    a = fd.args
    if a.vararg or a.kwarg or a.kwonlyargs or a.posonlyargs:
        return False, 'variadic signature'
    if len(body) != 1 or not isinstance(body[0], ast.Return):
        return False, 'body is not a single return'
    v = body[0].value
    if not (isinstance(v, ast.Call) and isinstance(v.func, ast.Attribute) and
            v.func.attr == '_multi_new' and
            isinstance(v.func.value, ast.Name) and
            v.func.value.id == a.args[0].arg):
        return False, 'does not return cls._multi_new(...)'
    if v.keywords or not v.args or not isinstance(v.args[0], ast.Constant):
        return False, 'rate is not a literal'
    names = [x.arg for x in a.args[1:]]
    passed = [x.id if isinstance(x, ast.Name) else None for x in v.args[1:]]
    if names != passed:
        # every parameter handed over untouched exactly once, in another
        # order (In.ar(bus, channels) -> _multi_new('audio', channels, bus)):
        # still a direct delegation, the call is made with keywords
        if None in passed or sorted(names) != sorted(passed):
            return False, 'parameters are converted or spliced'
    return True, v.args[0].value, names


# Constructors that hand their parameters, in order and unconverted, to
# cls._multi_new but compute the rate argument first (the analyser wants a
# literal rate): (class key, ctor) -> how the rate is obtained
EXTRA_CTORS = {('ugen.MulAdd', 'new'): 'computed from the arguments'}
# Constructors whose units share mutable state of the build: a later call
# changes an input of the units made by an earlier one, so the single-channel
# calls cannot be described one by one
STATEFUL_CTORS = {'bufio.LocalBuf': 'every LocalBuf of a build shares one '
                  'MaxLocalBufs unit whose count input grows with each call'}


def inventory():
    """-> dict(ctors=[{key, cls, ctor, rate, params, required, via}],
               excluded=[[key, ctor, reason]], unary=[names], binary=[names],
               reflected=[names], methods=[{name, params, required}],
               methods_excluded=[[name, reason]])"""
    global _INV
    if _INV is not None:
        return _INV
    import sc3.synth.ugens as U
    from sc3.synth import ugen as ugn
    from sc3.base import absobject as aob
    modnames = ['sc3.synth.ugen'] + [
        'sc3.synth.ugens.' + n
        for n in sorted(m.name for m in pkgutil.iter_modules(U.__path__))]
    ctors, excluded = [], []
    cache = {}
    for mn in modnames:
        mod = importlib.import_module(mn)
        short = mn.rsplit('.', 1)[1]
        for cn in sorted(vars(mod)):
            c = vars(mod)[cn]
            if not (inspect.isclass(c) and issubclass(c, ugn.SynthObject)
                    and c.__module__ == mn):
                continue
            key = f'{short}.{cn}'
            for rn in CTOR_NAMES:
                owner = next((k for k in c.__mro__ if rn in vars(k)), None)
                if owner is None:
                    continue
                f = vars(owner)[rn]
                if not isinstance(f, classmethod):
                    excluded.append([key, rn, 'not a classmethod'])
                    continue
                f = f.__func__
                if f not in cache:
                    cache[f] = _analyse(f)
                res = cache[f]
                if not res[0] and (key, rn) in EXTRA_CTORS:
                    res = (True, EXTRA_CTORS[(key, rn)],
                           list(inspect.signature(f).parameters)[1:])
                if not res[0]:
                    excluded.append([key, rn, res[1]])
                    continue
                if key in STATEFUL_CTORS:
                    excluded.append([key, rn, STATEFUL_CTORS[key]])
                    continue
                _, rate, params = res
                if 'selector' in params:
                    excluded.append([key, rn, 'operator unit (selector '
                                     'argument); covered by the op family'])
                    continue
                sig = inspect.signature(f)
                req = [p.name for p in list(sig.parameters.values())[1:]
                       if p.default is inspect.Parameter.empty]
                ctors.append({'key': key, 'ctor': rn, 'rate': rate,
                              'params': params, 'required': req,
                              'via': None if owner is c else owner.__name__})
    # operators of AbstractObject: methods that only forward to _compose_*
    unary, binary, reflected = [], [], []
    binary_default, bi_unary, bi_binary = [], {}, {}
    src = textwrap.dedent(inspect.getsource(aob.AbstractObject))
    for fd in ast.parse(src).body[0].body:
        if not isinstance(fd, ast.FunctionDef):
            continue
        body = [s for s in fd.body if not (
            isinstance(s, ast.Expr) and isinstance(s.value, ast.Constant))]
        if len(body) != 1 or not isinstance(body[0], ast.Return):
            continue
        v = body[0].value
        if not (isinstance(v, ast.Call) and
                isinstance(v.func, ast.Attribute) and
                isinstance(v.func.value, ast.Name) and
                v.func.value.id == 'self'):
            continue
        nparams = len(fd.args.args) - 1
        if fd.name in ('__int__', '__float__', '__hash__', '__bool__'):
            continue    # conversion protocol of Python, not signal operators
        sel = v.args[0] if v.args else None
        if isinstance(sel, ast.Attribute) and \
                isinstance(sel.value, ast.Name) and sel.value.id == 'bi':
            bifun = sel.attr       # functional form sc3.base.builtins.<attr>
        else:
            bifun = None
        if v.func.attr == '_compose_unop' and nparams == 0:
            unary.append(fd.name)
            if bifun:
                bi_unary.setdefault(bifun, fd.name)
        elif v.func.attr == '_compose_binop' and nparams == 1 and \
                len(v.args) == 2 and isinstance(v.args[1], ast.Name):
            binary.append(fd.name)
            if fd.args.defaults:
                binary_default.append(fd.name)
            if bifun:
                bi_binary.setdefault(bifun, fd.name)
        elif v.func.attr == '_rcompose_binop' and nparams == 1:
            reflected.append(fd.name)
    # convenience methods of ChannelList
    methods, mexcl = [], []
    for name, f in vars(ugn.ChannelList).items():
        if name.startswith('_') or not inspect.isfunction(f):
            continue
        if name in ('dup', 'sum'):
            mexcl.append([name, 'no value argument to expand'])
            continue
        if name == 'poll':
            mexcl.append([name, 'default label differs from the UGen method '
                          'by design (not decided by the law): enumerated '
                          'with an explicit label only (POLL_* tables)'])
            continue
        if name == 'dpoll':
            mexcl.append([name, 'default label differs from the UGen method '
                          'by design, and UGen.dpoll itself cannot be called '
                          '(no single-channel meaning)'])
            continue
        sig = list(inspect.signature(f).parameters.values())[1:]
        params = [p.name for p in sig]
        req = [p.name for p in sig if p.default is inspect.Parameter.empty]
        body = [x for x in ast.parse(textwrap.dedent(
            inspect.getsource(f))).body[0].body
            if not (isinstance(x, ast.Expr) and
                    isinstance(x.value, ast.Constant))]
        perform = len(body) == 1 and isinstance(body[0], ast.Return) and \
            isinstance(body[0].value, ast.Call) and \
            isinstance(body[0].value.func, ast.Attribute) and \
            body[0].value.func.attr == '_multichannel_perform'
        methods.append({'name': name, 'params': params, 'required': req,
                        'perform': perform})
    index = {(c['key'], c['ctor']): c for c in ctors}
    from sc3.base import builtins as bi
    bi_unary = sorted(n for n in bi_unary if callable(getattr(bi, n, None)))
    bi_binary = sorted(n for n in bi_binary if callable(getattr(bi, n, None)))
    _INV = {'index': index, 'ctors': ctors, 'excluded': excluded, 'unary': unary,
            'binary': binary, 'reflected': reflected, 'methods': methods,
            'methods_excluded': mexcl, 'binary_default': binary_default,
            'bi_unary': bi_unary, 'bi_binary': bi_binary}
    return _INV


def _find_class(key):
    short, cn = key.split('.')
    mn = 'sc3.synth.ugen' if short == 'ugen' else 'sc3.synth.ugens.' + short
    return getattr(importlib.import_module(mn), cn)


def work_inventory(job):
    inv = inventory()
    acc = progenum.Acc()
    res = acc.result()
    res['inventory'] = {
        'constructors_found': [
            f"{c['key']}.{c['ctor']}({', '.join(c['params'])})" +
            (f" via {c['via']}" if c['via'] else '') for c in inv['ctors']],
        'constructors_excluded': [f'{k}.{r}: {why}'
                                  for k, r, why in inv['excluded']],
        'unary_operators': inv['unary'], 'binary_operators': inv['binary'],
        'reflected_operators': inv['reflected'],
        'binary_operators_with_default_operand': inv['binary_default'],
        'functional_forms_unary (sc3.base.builtins)': inv['bi_unary'],
        'functional_forms_binary (sc3.base.builtins)': inv['bi_binary'],
        'channel_list_methods': [m['name'] for m in inv['methods']],
        'channel_list_methods_excluded': [f'{n}: {why}' for n, why in
                                          inv['methods_excluded']]}
    return res


# ---------------------------------------------------------------------------
# Atoms, materialisation, description
# ---------------------------------------------------------------------------

def atom_kind(aid, mode):
    """-> ['num', value] | ['ar', tag] | ['kr', tag]  (plain data)."""
    if aid >= 3000:       # receiver atoms of a class with UNIPOLAR signal range
        return ['uar' if aid % 2 == 0 else 'ukr', float(aid)]
    if aid >= 1000:                       # receiver atoms: always units
        return ['ar' if aid % 2 == 0 else 'kr', float(aid)]
    leaf = aid % 8
    if mode == 'n':
        unit = False
    elif mode == 'u':
        unit = True
    else:                                 # 'm': alternate inside a list
        unit = leaf % 2 == 1
    if unit:
        return ['ar' if (aid // 8) % 2 == 0 else 'kr', float(100 + aid)]
    return ['num', aid + 2 if aid % 2 == 0 else aid + 2.5]


def make_atoms(table):
    """table: {id: kind}; creates the units in id order inside the build."""
    from sc3.synth.ugens import oscillators
    out = {}
    for aid in sorted(table):
        k = table[aid]
        if k[0] in ('num', 'str', 'py'):     # number / string / None
            out[aid] = k[1]
        elif k[0] == 'ar':
            out[aid] = oscillators.SinOsc.ar(k[1])
        elif k[0] == 'uar':           # signal_range() == 'unipolar'
            out[aid] = oscillators.LFPulse.ar(k[1])
        elif k[0] == 'ukr':           # signal_range() == 'unipolar'
            out[aid] = oscillators.Impulse.kr(k[1])
        else:
            out[aid] = oscillators.SinOsc.kr(k[1])
    return out


# In-place edits of a ChannelList with the ordinary list operations.  Source
# text (one definition for the run and for the standalone reproducer): `v` is
# the list of final values (len >= 2), J a value that must NOT survive.
EDIT_JUNK = 999.25
EDIT_SRC = {
    'setitem': 'cl = ChannelList([v[0], J] + v[2:]); cl[1] = v[1]',
    'append': 'cl = ChannelList(v[:-1]); cl.append(v[-1])',
    'extend': 'cl = ChannelList(v[:1]); cl.extend(v[1:])',
    'fill': 'cl = ChannelList(); cl.extend(v)',
    'fill0': 'cl = ChannelList([])\nfor x in v: cl.append(x)',
    'insert': 'cl = ChannelList(v[:1] + v[2:]); cl.insert(1, v[1])',
    'del': 'cl = ChannelList(v[:1] + [J] + v[1:]); del cl[1]',
    'slice': 'cl = ChannelList([v[0], J, J]); cl[1:] = v[1:]',
    'pop': 'cl = ChannelList(v + [J]); cl.pop()',
    'reverse': 'cl = ChannelList(v[::-1]); cl.reverse()',
    'clear': 'cl = ChannelList([J, J]); cl.clear(); cl.extend(v)',
}
EDITS = list(EDIT_SRC)
_EDIT = None          # edit of the case being run (set by check_case)
_EDIT_FN = {}


def build_edited(vals, edit):
    from sc3.synth.ugen import ChannelList
    if edit not in _EDIT_FN:
        _EDIT_FN[edit] = compile(EDIT_SRC[edit], f'<edit {edit}>', 'exec')
    env = {'ChannelList': ChannelList, 'v': list(vals), 'J': EDIT_JUNK}
    exec(_EDIT_FN[edit], env)
    return env['cl']


def materialise(spec, atoms):
    from sc3.synth.ugen import ChannelList
    h = spec[0]
    if h == 's':
        return atoms[spec[1]]
    xs = [materialise(x, atoms) for x in spec[1:]]
    if h == 'l':
        return xs
    if h == 'c':
        return ChannelList(xs)
    if h == 'k':                  # ChannelList(<one value that is not a list>)
        return ChannelList(xs[0])
    if h == 'e':                  # ChannelList edited in place to hold xs
        return build_edited(xs, _EDIT)
    if h == 't':
        return tuple(xs)
    raise ValueError(spec)


def describe(x, memo):
    """Plain-data structural description of a value returned by the library.
    Never uses == on library objects (it is overloaded)."""
    from sc3.synth import ugen as ugn
    if x is None:
        return None
    t = type(x)
    if t is bool or t is int or t is float:
        return ['n', t.__name__, repr(x)]
    if t is str:
        return ['str', x]
    k = id(x)
    if k in memo:
        return memo[k][1]
    if isinstance(x, ugn.ChannelList):
        d = ['CL', [describe(i, memo) for i in list.__iter__(x)]]
    elif t is list:
        d = ['list', [describe(i, memo) for i in x]]
    elif t is tuple:
        d = ['tuple', [describe(i, memo) for i in x]]
    elif isinstance(x, ugn.OutputProxy):
        d = ['px', describe(x.source_ugen, memo), x._output_index, x.rate]
    elif isinstance(x, ugn.SynthObject):
        d = ['u', t.__name__, x.rate, x._special_index,
             [describe(i, memo) for i in x.inputs], len(x._channels)]
        vals = getattr(x, 'values', None)
        if isinstance(vals, list):
            d.append([describe(i, memo) for i in vals])
    else:
        d = ['obj', t.__name__]
    if isinstance(x, ugn.SynthObject):
        memo[k] = (x, d)       # keeps x alive: ids cannot be reused
    return d


def skeleton(d):
    """Nesting of containers only."""
    if isinstance(d, list) and d and d[0] in ('CL', 'list'):
        return [d[0], [skeleton(i) for i in d[1]]]
    return '.'


def lenient(d, top=True):
    """Nested plain lists count as channel lists (used where the law cannot
    decide the container type of a nested result)."""
    if isinstance(d, list) and d and d[0] in ('CL', 'list'):
        return [d[0] if top else 'CL', [lenient(i, False) for i in d[1]]]
    return d


class _Abort(Exception):
    pass


def in_build(body, finish=False):
    """Run body(synthdef) inside a real SynthDef build.
    -> (value of body, exception raised by the build or None, bytes|None)"""
    from sc3.base.main import main
    from sc3.synth.synthdef import SynthDef
    box = {}

    def graph():
        box['r'] = body(main._current_synthdef)
        if not finish:
            raise _Abort()

    try:
        sd = SynthDef('c03', graph)
    except _Abort:
        main._current_synthdef = None
        return box['r'], None, None
    except Exception as e:
        main._current_synthdef = None
        return box.get('r'), e, None
    try:
        return box['r'], None, gp.sd_bytes(sd)
    except Exception as e:      # the definition cannot be written
        return box['r'], e, None


def exc_name(e):
    return type(e).__name__


def _leaves(x, out):
    if isinstance(x, list):            # list / ChannelList
        for i in list.__iter__(x):
            _leaves(i, out)
    else:
        out.append(x)
    return out


def alias_pattern(objs):
    """Which leaves of a result are the very same unit object: index of the
    first occurrence for every unit, -1 for everything else (numbers may be
    shared freely)."""
    from sc3.synth import ugen as ugn
    first, out = {}, []
    for o in objs:
        if isinstance(o, ugn.SynthObject):
            out.append(first.setdefault(id(o), len(first)))
        else:
            out.append(-1)
    return out


def run_pair(table, call_a, tree, call_leaf):
    """Build A: call_a(atoms) -> value.  Build B: evaluate `tree` with
    call_leaf(atoms, specs) for every list-free call.
    -> dict(a=..., b=...) each ('ok', desc, added) | ('raise', name, text)"""
    out = {}

    def body_a(sd):
        atoms = make_atoms(table)
        n0 = len(sd._children)
        try:
            r = call_a(atoms)
        except Exception as e:
            return ['raise', exc_name(e), str(e)[:200]]
        memo = {}
        return ['ok', describe(r, memo),
                [describe(u, memo) for u in sd._children[n0:]],
                alias_pattern(_leaves(r, []))]

    def body_b(sd):
        atoms = make_atoms(table)
        n0 = len(sd._children)
        memo = {}
        keep = []          # results of the single calls, in tree order

        def ev(t):
            if t[0] == 'call':
                r = call_leaf(atoms, t[1])
                keep.append(r)
                return describe(r, memo)
            return ['CL', [ev(x) for x in t[1]]]

        try:
            d = ev(tree)
        except Exception as e:
            return ['raise', exc_name(e), str(e)[:200]]
        return ['ok', d, [describe(u, memo) for u in sd._children[n0:]],
                alias_pattern(_leaves(keep, []))]

    for name, body in (('a', body_a), ('b', body_b)):
        r, e, _ = in_build(body)
        if e is not None:
            r = ['raise', exc_name(e), 'outside the call: ' + str(e)[:200]]
        out[name] = r
    return out


def _fam(case, fam):
    if case.get('edit'):
        return 'edited-' + fam
    if case.get('rep'):
        return 'repeat-' + fam
    return fam


def compare_pair(fam, res, relaxed=False):
    """-> (disagreements, outcome)"""
    a, b = res['a'], res['b']
    if b[0] == 'raise':
        return [], ['undefined', b[1]]
    if a[0] == 'raise':
        return [(f'{fam}-expanded-call-raises-{a[1]}', b[1], a[1:], '')], \
            ['a-raises', a[1]]
    da, db = a[1], b[1]
    if relaxed:
        da, db = lenient(da), lenient(db)
    dis = []
    if da != db:
        sa, sb = skeleton(da), skeleton(db)
        if sa != sb:
            if lenient(sa) == lenient(sb) and lenient(da) == lenient(db):
                kind = f'{fam}-nested-result-is-plain-list'
            else:
                kind = f'{fam}-shape-differs'
            dis.append((kind, sb, sa, ''))
        else:
            dis.append((f'{fam}-element-differs', db, da, ''))
    elif len(a) > 3 and len(b) > 3 and a[3] != b[3]:
        # structurally equal, but channels that must be units of their own
        # are one and the same object (or the other way round)
        dis.append((f'{fam}-result-aliasing-differs', b[3], a[3],
                    'per leaf of the result: index of the first leaf that is '
                    'the same unit object (-1: not a unit); single calls vs '
                    'expanded call'))
    ua = sorted(core.canon(u) for u in a[2])
    ub = sorted(core.canon(u) for u in b[2])
    if len(ua) != len(ub):
        dis.append((f'{fam}-unit-count-differs', len(ub), len(ua),
                    'units added to the definition by the call'))
    elif ua != ub:
        dis.append((f'{fam}-units-differ', ub, ua,
                    'multiset of units added to the definition'))
    return dis, ['ok', da, len(ua)]


# ---------------------------------------------------------------------------
# Family: ctor
# ---------------------------------------------------------------------------

def ctor_base(c, j):
    return 's' if c['params'][j] in c['required'] else 'o'


def ctor_blocks(inv, triples=False):
    """Blocks partition the ctor space: [ci, None] = full product (<= 3
    parameters), [ci, [i, j]] = shapes on the pair, base shape (omitted, or a
    scalar for a required parameter) elsewhere; with `triples`, additionally
    [ci, [i, j, k]] for constructors with 4 to 7 parameters (only the cases
    in which all three positions deviate from the base: the others belong to
    the pair blocks)."""
    blocks = []
    for ci, c in enumerate(inv['ctors']):
        n = len(c['params'])
        if n <= 3:
            blocks.append([ci, None])
        else:
            for pos in itertools.combinations(range(n), 2):
                blocks.append([ci, list(pos)])
            if triples and n <= 7:
                for pos in itertools.combinations(range(n), 3):
                    blocks.append([ci, list(pos)])
    return blocks


def ctor_block_cases(inv, block, modes):
    ci, pos = block
    c = inv['ctors'][ci]
    n = len(c['params'])

    def options(j):
        return [s for s in CTOR_SHAPES
                if s != 'o' or c['params'][j] not in c['required']]

    if pos is None:
        combos = itertools.product(*[options(j) for j in range(n)])
    else:
        base = [ctor_base(c, k) for k in range(n)]

        def gen():
            for shs in itertools.product(*[options(k) for k in pos]):
                sh = list(base)
                for k, x in zip(pos, shs):
                    sh[k] = x
                dev = [k for k in pos if sh[k] != base[k]]
                if len(pos) == 3:
                    if len(dev) == 3:
                        yield sh
                    continue
                # canonical owner of cases that deviate from the base in
                # fewer than two positions (keeps blocks disjoint)
                if len(dev) == 2:
                    yield sh
                elif len(dev) == 1:
                    other = 0 if dev[0] != 0 else 1
                    if sorted([dev[0], other]) == pos:
                        yield sh
                elif pos == [0, 1]:
                    yield sh
        combos = gen()
    for sh in combos:
        for mode in modes:
            yield {'t': 'ctor', 'cls': c['key'], 'ctor': c['ctor'],
                   'args': list(sh), 'mode': mode}


def ctorx_cases(inv, modes, companions):
    """Family 'ctorx': one shape of CTORX_SHAPES on parameter j, the base
    shape or one companion shape on the next parameter (cyclically), base
    shapes elsewhere.  `companions` may contain None (= base)."""
    for c in inv['ctors']:
        n = len(c['params'])
        seen = set()
        for j in range(n):
            for x in CTORX_SHAPES:
                for y in companions:
                    sh = [ctor_base(c, k) for k in range(n)]
                    sh[j] = x
                    if y is not None:
                        if n < 2:
                            continue
                        sh[(j + 1) % n] = y
                    if tuple(sh) in seen:
                        continue
                    seen.add(tuple(sh))
                    for mode in modes:
                        yield {'t': 'ctor', 'cls': c['key'], 'ctor': c['ctor'],
                               'args': sh, 'mode': mode}


CALL_SHAPES = ['l2', 'r12', 'c2']


def call_cases(inv, modes):
    """Family 'call': the class itself called like a constructor
    (MetaSynthObject.__call__): Cls(args) selects the constructor of the
    default rate, Cls(args, urate=r) the one of rate r."""
    for c in inv['ctors']:
        cls = _find_class(c['key'])
        vias = ['urate']
        try:
            if cls._method_selector_for_rate(cls._default_rate) == c['ctor']:
                vias.append('call')
        except AttributeError:
            pass
        n = len(c['params'])
        for via in vias:
            for j in range(n):
                for x in CALL_SHAPES:
                    sh = [ctor_base(c, k) for k in range(n)]
                    sh[j] = x
                    for mode in modes:
                        yield {'t': 'ctor', 'cls': c['key'], 'ctor': c['ctor'],
                               'args': sh, 'mode': mode, 'via': via}


def ctor_specs(case):
    return [shape_spec(sh, 8 * j) for j, sh in enumerate(case['args'])]


def _table(specs, mode):
    t = {}
    for s in specs:
        for aid in mx.atoms(s):
            t[aid] = atom_kind(aid, mode)
    return t


def check_ctor(case):
    inv = inventory()
    c = inv['index'][(case['cls'], case['ctor'])]
    cls = _find_class(case['cls'])
    fn = getattr(cls, case['ctor'])
    specs = ctor_specs(case)
    names = c['params']
    table = _table(specs, case['mode'])

    def kwargs(atoms, sp):
        return {n: materialise(s, atoms) for n, s in zip(names, sp)
                if s[0] != 'o'}

    def call(atoms, sp):
        return fn(**kwargs(atoms, sp))

    via = case.get('via')
    if via == 'call':              # Cls(...): constructor of the default rate
        top = lambda atoms: cls(**kwargs(atoms, specs))
    elif via == 'urate':           # Cls(..., urate=<rate of this ctor>)
        ur = None if case['ctor'] == 'new' else case['ctor']
        top = lambda atoms: cls(**kwargs(atoms, specs), urate=ur)
    else:
        top = lambda atoms: call(atoms, specs)
    tree = mx.expand(specs)
    res = run_pair(table, top, tree, call)
    fam = 'ctor-call' if via else 'ctor'
    fam = _fam(case, fam)
    dis, outcome = compare_pair(fam, res)
    return dis, mx.has_expansion(specs) and outcome[0] != 'undefined', \
        outcome


# ---------------------------------------------------------------------------
# Family: tuple (a tuple sits where a scalar would sit)
# ---------------------------------------------------------------------------

TUPLE_STANDIN = 777.5


def tuple_cases(inv):
    for c in inv['ctors']:
        for j in range(len(c['params'])):
            sh = [ctor_base(c, k) for k in range(len(c['params']))]
            sh[j] = 't'
            for mode in ('n', 'u'):
                yield {'t': 'tuple', 'cls': c['key'], 'ctor': c['ctor'],
                       'args': sh, 'mode': mode}


def _is_input(what, descs):
    """Does `what` occur as one whole input of some unit in descs?"""
    def rec(d):
        if isinstance(d, list):
            if d and d[0] == 'u' and any(i == what for i in d[4]):
                return True
            return any(rec(x) for x in d)
        return False
    return rec(descs)


def check_tuple(case):
    inv = inventory()
    c = inv['index'][(case['cls'], case['ctor'])]
    fn = getattr(_find_class(case['cls']), case['ctor'])
    specs = ctor_specs(case)
    names = c['params']
    table = _table(specs, case['mode'])
    out = {}
    for which in ('tuple', 'scalar'):
        def body(sd, which=which):
            atoms = make_atoms(table)
            n0 = len(sd._children)
            kw = {}
            tup = None
            for n, s in zip(names, specs):
                if s[0] == 'o':
                    continue
                v = materialise(s, atoms)
                if s[0] == 't':
                    tup = v
                    if which == 'scalar':
                        v = TUPLE_STANDIN
                kw[n] = v
            try:
                r = fn(**kw)
            except Exception as e:
                return ['raise', exc_name(e), str(e)[:200]]
            memo = {}
            return ['ok', describe(r, memo),
                    [describe(u, memo) for u in sd._children[n0:]],
                    describe(tup, memo)]
        r, e, _ = in_build(body)
        if e is not None:
            r = ['raise', exc_name(e), str(e)[:200]]
        out[which] = r
    t, s = out['tuple'], out['scalar']
    if s[0] == 'raise' or t[0] == 'raise':
        return [], False, ['undefined', t[0], s[0]]
    dis = []
    if skeleton(t[1]) != skeleton(s[1]) or len(t[2]) != len(s[2]):
        dis.append(('tuple-argument-expanded',
                    [skeleton(s[1]), len(s[2])], [skeleton(t[1]), len(t[2])],
                    'nesting of the result and number of units with a scalar '
                    'in place of the tuple vs with the tuple'))
    else:
        standin = ['n', 'float', repr(TUPLE_STANDIN)]
        if _is_input(standin, [s[1]] + s[2]) and \
                not _is_input(t[3], [t[1]] + t[2]):
            dis.append(('tuple-not-passed-as-single-input', t[3],
                        [t[1]] + t[2],
                        'the scalar stand-in is an input of a created unit, '
                        'the tuple is not'))
    return dis, True, ['ok', t[1]]


# ---------------------------------------------------------------------------
# Family: op (operators of AbstractObject on ChannelList / UGen receivers)
# ---------------------------------------------------------------------------

RECV_SHAPES = ['s', 'c1', 'c2', 'c3', 'cc21', 'cl21', 'ks']
# No tuple operand: a tuple operand of a ChannelList operator is distributed
# over the channels "as if it were a list" by design (docstring of list_binop,
# pinned by tests/test_multichannel.py) -> not judged (don't-care).  Tuples
# stay judged for constructors (family 'tuple').
OTHER_SHAPES = ['s', 'l1', 'l2', 'l3', 'n21', 'n12', 'r12', 'c2', 'cc21',
                'l4', 'd3', 'lc21']
# routes that reach the same operator: the method itself (None), the augmented
# assignment statement (x op= y), the functional form of sc3.base.builtins
# with the receiver first ('bi') or second ('bi-r')
INPLACE = {'__add__': 'iadd', '__sub__': 'isub', '__mul__': 'imul',
           '__truediv__': 'itruediv', '__floordiv__': 'ifloordiv',
           '__mod__': 'imod', '__pow__': 'ipow', '__lshift__': 'ilshift',
           '__rshift__': 'irshift', '__and__': 'iand', '__or__': 'ior',
           '__xor__': 'ixor'}
VIA_SHAPES = ['s', 'l2', 'l3', 'r12', 'c2', 'cc21']   # operands of the routes


def op_cases(inv, modes):
    for name in inv['unary']:
        for rs in RECV_SHAPES[1:]:
            yield {'t': 'op', 'name': name, 'recv': rs, 'other': None,
                   'mode': 'u'}
    for name in inv['binary'] + inv['reflected']:
        for rs in RECV_SHAPES:
            for os_ in OTHER_SHAPES:
                if rs == 's' and os_ == 's':
                    continue       # no list anywhere: not this property
                for mode in modes:
                    yield {'t': 'op', 'name': name, 'recv': rs, 'other': os_,
                           'mode': mode}
    # the operand left to its default (max(), round(), roundup(), trunc())
    for name in inv['binary_default']:
        for rs in RECV_SHAPES[1:]:
            yield {'t': 'op', 'name': name, 'recv': rs, 'other': 'o',
                   'mode': 'u'}
    # other routes to the same operators
    for name in inv['binary']:
        if name in INPLACE:
            for rs in RECV_SHAPES:
                for os_ in VIA_SHAPES:
                    if rs == 's' and os_ == 's':
                        continue
                    for mode in modes:
                        yield {'t': 'op', 'name': name, 'recv': rs,
                               'other': os_, 'mode': mode, 'via': 'inplace'}
    for name in inv['bi_unary']:
        for rs in RECV_SHAPES[1:]:
            yield {'t': 'op', 'name': name, 'recv': rs, 'other': None,
                   'mode': 'u', 'via': 'bi'}
    for name in inv['bi_binary']:
        for via in ('bi', 'bi-r'):
            for rs in RECV_SHAPES:
                for os_ in VIA_SHAPES:
                    if rs == 's' and os_ == 's':
                        continue
                    for mode in modes:
                        yield {'t': 'op', 'name': name, 'recv': rs,
                               'other': os_, 'mode': mode, 'via': via}


def _op_call(case):
    """-> f(receiver value, [operand values]) for the route of the case."""
    name, via = case['name'], case.get('via')
    if via is None:
        return lambda x, ys: getattr(x, name)(*ys)
    if via == 'inplace':
        import operator
        f = getattr(operator, INPLACE[name])       # x op= y; the new x
        return lambda x, ys: f(x, *ys)
    from sc3.base import builtins as bi
    f = getattr(bi, name)
    if via == 'bi':
        return lambda x, ys: f(x, *ys)
    return lambda x, ys: f(*ys, x)


def check_op(case):
    recv = shape_spec(case['recv'], 1000)
    specs = [recv]
    if case['other'] not in (None, 'o'):
        specs.append(shape_spec(case['other'], 8))
    table = _table(specs, case['mode'])
    f = _op_call(case)

    def call(atoms, sp):
        return f(materialise(sp[0], atoms),
                 [materialise(s, atoms) for s in sp[1:]])

    tree = mx.expand(specs)
    res = run_pair(table, lambda atoms: call(atoms, specs), tree, call)
    fam = 'op-unary' if case['other'] is None else 'op-binary'
    via = case.get('via')
    if via == 'inplace':
        fam = 'op-inplace'
    elif via:
        fam += '-builtins'
    fam += '[ugen]' if case['recv'] == 's' else '[chanlist]'
    fam = _fam(case, fam)
    # Operators: the container type of *nested* results (plain list vs
    # ChannelList) is a don't-care everywhere (tests/test_multichannel.py pins
    # the plain inner list); the top-level container type stays checked.
    dis, outcome = compare_pair(fam, res, relaxed=True)
    return dis, mx.has_expansion(specs) and outcome[0] != 'undefined', \
        outcome


# ---------------------------------------------------------------------------
# Family: meth (ChannelList convenience methods)
# ---------------------------------------------------------------------------

METH_RECV = ['c1', 'c2', 'c3', 'cc21']
METH_ARG = ['s', 'l2', 'l3', 'c2', 'n21', 'cc21', 'o']
# The string option of the mapping methods (`clip=` of linlin..biexp, `type=`
# of prune): option kind -> spec over string / None atoms.  'o' = left to its
# default.  A list of options is expanded like every other list argument.
OPT_PARAMS = ('clip', 'type')
OPT_KINDS = {'minmax': ['minmax'], 'min': ['min'], 'max': ['max'],
             'none': [None], 'lminmax': ['min', 'max'],
             'lnonemin3': [None, 'min', 'minmax']}
OPT_ARGS = ['s', 'l3']           # shape of the first argument next to it
# poll(trig, label, trig_id) with the label given (the default label is not
# decided by the law); label kinds: one string / lists of strings
POLL_TRIG = ['o', 's', 'l2', 'l3']
POLL_LABEL = {'S': 1, 'S2': 2, 'S3': 3}
POLL_TID = ['o', 'l2']
POLL_RECV = ['c1', 'c2', 'c3', 'cc21', 'ks']


# Receivers whose channels are units of a class with signal_range()
# 'unipolar' (atoms >= 3000: LFPulse.ar / Impulse.kr), alone and mixed with
# bipolar channels (atoms 1000..: SinOsc): each channel keeps its own range
_U = lambda i: ['s', 3000 + i]
_B = lambda i: ['s', 1000 + i]
UNI_RECV = {'u1': ['c', _U(0)], 'u2': ['c', _U(0), _U(1)],
            'um2': ['c', _U(0), _B(1)], 'um3': ['c', _B(0), _U(1), _B(2)],
            'ucc21': ['c', ['c', _U(0), _B(1)], _U(2)]}
RANGE_METHODS = ('range', 'exprange', 'curverange', 'unipolar', 'bipolar')
RANGE_ARGS = ['s', 'l2', 'l3', 'o']


def range_cases(inv, modes):
    """The range-mapping methods on channel lists with unipolar channels."""
    for m in inv['methods']:
        if m['name'] not in RANGE_METHODS:
            continue
        n = len(m['params'])
        seen = set()
        for sh in itertools.product(RANGE_ARGS, repeat=n):
            sh = list(sh)
            last = max([k for k, x in enumerate(sh) if x != 'o'], default=-1)
            sh = ['s' if x == 'o' and k < last else x
                  for k, x in enumerate(sh)]
            if tuple(sh) in seen:
                continue
            seen.add(tuple(sh))
            for rs in UNI_RECV:
                for mode in modes:
                    yield {'t': 'meth', 'name': m['name'], 'recv': rs,
                           'args': sh, 'mode': mode}


def meth_cases(inv, modes):
    yield from range_cases(inv, modes)
    for m in inv['methods']:
        params = [p for p in m['params'] if p not in OPT_PARAMS]
        n = len(params)

        def fill(sh):
            # omitted only as a trailing run; required/inner positions: 's'
            sh = list(sh)
            last = max([k for k, s in enumerate(sh) if s != 'o'], default=-1)
            for k in range(n):
                if sh[k] == 'o' and (k < last or params[k] in m['required']):
                    sh[k] = 's'
            return sh

        seen = set()
        if n <= 2:
            combos = itertools.product(METH_ARG, repeat=n)
        else:
            def gen():
                for i, j in itertools.combinations(range(n), 2):
                    for si in METH_ARG:
                        for sj in METH_ARG:
                            sh = ['o'] * n
                            sh[i], sh[j] = si, sj
                            yield sh
            combos = gen()
        for sh in combos:
            sh = fill(sh)
            if tuple(sh) in seen:
                continue
            seen.add(tuple(sh))
            for rs in METH_RECV:
                for mode in modes:
                    yield {'t': 'meth', 'name': m['name'], 'recv': rs,
                           'args': sh, 'mode': mode}
        # the string option given explicitly (keyword), scalar and list
        optname = next((p for p in m['params'] if p in OPT_PARAMS), None)
        if optname and n:
            for kind in OPT_KINDS:
                for first in OPT_ARGS:
                    sh = fill([first] + ['o'] * (n - 1))
                    for rs in METH_RECV:
                        for mode in modes:
                            yield {'t': 'meth', 'name': m['name'], 'recv': rs,
                                   'args': sh, 'mode': mode,
                                   'opt': [optname, kind]}
    # poll with an explicit label
    for trig in POLL_TRIG:
        for label in POLL_LABEL:
            for tid in POLL_TID:
                for rs in POLL_RECV:
                    for mode in modes:
                        yield {'t': 'meth', 'name': 'poll', 'recv': rs,
                               'args': [trig, label, tid], 'mode': mode}


def meth_specs(case):
    """-> (specs [receiver, positional arguments...], keyword name or None
    for the last spec, atom table)"""
    recv = UNI_RECV.get(case['recv']) or shape_spec(case['recv'], 1000)
    args, strs = [], {}
    for j, sh in enumerate(case['args']):
        if sh in POLL_LABEL:
            ids = [8 * (j + 1) + k for k in range(POLL_LABEL[sh])]
            for aid in ids:
                strs[aid] = ['str', f'L{aid}']
            args.append(['s', ids[0]] if sh == 'S' else
                        ['l'] + [['s', i] for i in ids])
        else:
            args.append(shape_spec(sh, 8 * (j + 1)))
    while args and args[-1][0] == 'o':
        args.pop()
    kw = None
    if case.get('opt'):
        kw, kind = case['opt']
        vals = OPT_KINDS[kind]
        ids = [8 * (len(case['args']) + 1) + k for k in range(len(vals))]
        for aid, v in zip(ids, vals):
            strs[aid] = ['py', None] if v is None else ['str', v]
        args.append(['s', ids[0]] if len(vals) == 1 else
                    ['l'] + [['s', i] for i in ids])
    specs = [recv] + args
    table = _table(specs, case['mode'])
    table.update(strs)
    return specs, kw, table


def check_meth(case):
    specs, kw, table = meth_specs(case)
    name = case['name']

    def call(atoms, sp):
        x = materialise(sp[0], atoms)
        vals = [materialise(s, atoms) for s in sp[1:]]
        if kw is not None:
            return getattr(x, name)(*vals[:-1], **{kw: vals[-1]})
        return getattr(x, name)(*vals)

    tree = mx.expand(specs)
    res = run_pair(table, lambda atoms: call(atoms, specs), tree, call)
    m = next((x for x in inventory()['methods'] if x['name'] == name), None)
    # methods that only forward to _multichannel_perform share one mechanism
    fam = 'meth[_multichannel_perform]' if m and m['perform'] \
        else f'meth[{name}]'
    fam = _fam(case, fam)
    dis, outcome = compare_pair(fam, res)
    if name == 'poll':
        # poll hands back its receiver (pass-through by design) instead of
        # the expansion: the returned value is not judged, the units created
        # (one Poll per combination, at the rate of its channel) are
        dis = [d for d in dis if d[0].endswith(('-unit-count-differs',
                                                '-units-differ')) or
               '-expanded-call-raises-' in d[0]]
    if dis and any(sh in ('n21', 'cc21') for sh in case['args']):
        # one root cause, one kind: row i of the method is the *UGen* method
        # called with a list argument, and those do not expand
        dis = [('meth-nested-list-argument-not-expanded',
                [d[1] for d in dis][:1], [[d[0], d[2]] for d in dis][:2],
                'a ChannelList method given a nested list argument: row i is '
                'the UGen method called with a list / ChannelList argument')]
    return dis, mx.has_expansion(specs) and outcome[0] != 'undefined', \
        outcome


# ---------------------------------------------------------------------------
# Family: out (output units, decoded bytes)
# ---------------------------------------------------------------------------

OUT_CTORS = [('Out', 'ar', 1), ('Out', 'kr', 1), ('ReplaceOut', 'ar', 1),
             ('ReplaceOut', 'kr', 1), ('OffsetOut', 'ar', 1),
             ('LocalOut', 'ar', 0), ('LocalOut', 'kr', 0),
             ('XOut', 'ar', 2), ('XOut', 'kr', 2)]
# channel-array elements: name -> (shape over leaf kinds)
#   z literal int 0, f literal float 0.0, A audio unit, K control unit,
#   n non-zero number
ELEMS_AR = {'z': 'z', 'f': 'f', 'A': 'A', 'lAz': ['A', 'z'],
            'lfAA': ['f', 'A', 'A'], 'nAzA': [['A', 'z'], 'A']}
ELEMS_KR = {'z': 'z', 'n': 'n', 'K': 'K', 'lKn': ['K', 'n'],
            'lzKK': ['z', 'K', 'K'], 'nKzn': [['K', 'z'], 'n']}
BUS_SHAPES = ['s', 'l2', 'l3', 'n21', 'c2']
# family 'rep': '=' repeats the previous atom (the same object)
REP_ELEMS_AR = {'lAA': ['A', '='], 'lAAA': ['A', '=', '=']}
REP_ELEMS_KR = {'lKK': ['K', '='], 'lKKK': ['K', '=', '=']}
# containers of the channel array: 'cont' = type of the array itself, 'inner'
# = type of the nested elements ('l' plain list, 'c' ChannelList - what every
# expanded constructor / operator returns).  Absent key = 'l'.
OUT_CONTAINERS = [('l', 'l'), ('c', 'l'), ('l', 'c'), ('c', 'c')]


def out_cases(maxlen):
    for cn, rn, nfixed in OUT_CTORS:
        elems = ELEMS_AR if rn == 'ar' else ELEMS_KR
        # a single signal passed bare (not wrapped in a list)
        arrays = [{'bare': e} for e in elems if not isinstance(elems[e], list)]
        for ln in range(1, maxlen + 1):
            for combo in itertools.product(elems, repeat=ln):
                nested = any(isinstance(elems[e], list) for e in combo)
                for cont, inner in OUT_CONTAINERS:
                    if inner == 'c' and not nested:
                        continue          # same case as inner == 'l'
                    arr = {'list': list(combo)}
                    if cont != 'l':
                        arr['cont'] = cont
                    if inner != 'l':
                        arr['inner'] = inner
                    arrays.append(arr)
        buses = BUS_SHAPES if nfixed >= 1 else [None]
        xf = ['s', 'l2'] if nfixed == 2 else [None]
        for b in buses:
            for x in xf:
                for arr in arrays:
                    yield {'t': 'out', 'cls': cn, 'ctor': rn, 'bus': b,
                           'xfade': x, 'chans': arr}


def out_specs(case):
    """-> (fixed specs, channel specs, bare?, atom table)"""
    table = {}
    fixed = []
    if case['bus'] is not None:
        s = shape_spec(case['bus'], 0)
        for aid in mx.atoms(s):
            table[aid] = ['num', 16 + aid]
        fixed.append(s)
    if case['xfade'] is not None:
        s = shape_spec(case['xfade'], 8)
        for aid in mx.atoms(s):
            table[aid] = ['num', 0.25 * (aid - 7)]
        fixed.append(s)
    elems = ELEMS_AR if case['ctor'] == 'ar' else ELEMS_KR
    if case.get('rep'):
        elems = dict(elems, **(REP_ELEMS_AR if case['ctor'] == 'ar'
                               else REP_ELEMS_KR))
    arr = case['chans']
    bare = 'bare' in arr
    names = [arr['bare']] if bare else arr['list']
    inner = arr.get('inner', 'l')
    edited = arr.get('edited')     # 'top' | index of the edited nested element
    chans = []
    for p, en in enumerate(names):
        counter = [0]

        def conv(e, top=False):
            if isinstance(e, list):
                head = 'e' if top and edited == p else inner
                return [head] + [conv(x) for x in e]
            if e == '=':                 # the previous atom once more
                return ['s', 16 + 8 * p + counter[0] - 1]
            aid = 16 + 8 * p + counter[0]
            counter[0] += 1
            table[aid] = {'z': ['num', 0], 'f': ['num', 0.0],
                          'n': ['num', 3 + aid],
                          'A': ['ar', float(100 + aid)],
                          'K': ['kr', float(100 + aid)]}[e]
            return ['s', aid]
        chans.append(conv(elems[en], True))
    return fixed, chans, bare, table


def _atom_term(table):
    def f(aid):
        k = table[aid]
        if k[0] == 'num':
            return ['c', float(k[1])]
        return ['u', 'SinOsc', 2 if k[0] == 'ar' else 1,
                [['c', k[1]], ['c', 0.0]]]
    return f


def decoded_out_units(data, names):
    """Terms of the output units of a definition (decoded by the oracle)."""
    doc = scgf.decode(data)
    if len(doc['defs']) != 1:
        raise scgf.FormatError('expected one definition')
    d = doc['defs'][0]
    bad = scgf.validate(d)
    if bad:
        raise scgf.FormatError('integrity: ' + repr(bad[:3]))
    memo = {}

    def term(inp):
        if inp[0] == 'c':
            return ['c', d['constants'][inp[1]]]
        _, ui, oi = inp
        if (ui, oi) not in memo:
            u = d['units'][ui]
            t = ['u', u['name'], u['rate'], [term(x) for x in u['inputs']]]
            if len(u['outputs']) != 1:
                t.append(oi)
            memo[(ui, oi)] = t
        return memo[(ui, oi)]

    outs = []
    for u in d['units']:
        if u['name'] in names:
            outs.append(['u', u['name'], u['rate'],
                         [term(x) for x in u['inputs']]])
            if u['outputs']:
                raise scgf.FormatError('output unit with outputs')
    return outs, len(d['units'])


def _kr_norm(t):
    """Control-rate output units: whether a literal zero is replaced by
    silence is not decided by the statement -> both spellings are equal."""
    if isinstance(t, list):
        if t == mx.SILENCE:
            return ['c', 0.0]
        return [_kr_norm(x) for x in t]
    return t


def check_out(case):
    from sc3.synth.ugens import inout
    fixed, chans, bare, table = out_specs(case)
    cls = getattr(inout, case['cls'])
    fn = getattr(cls, case['ctor'])
    rate = 2 if case['ctor'] == 'ar' else 1

    def body_a(sd):
        from sc3.synth.ugen import ChannelList
        atoms = make_atoms(table)
        fx = [materialise(s, atoms) for s in fixed]
        ch = [materialise(s, atoms) for s in chans]
        if case['chans'].get('cont') == 'c':
            ch = ChannelList(ch)
        elif case['chans'].get('edited') == 'top':
            ch = build_edited(ch, _EDIT)     # the array itself was edited
        fn(*fx, ch[0] if bare else ch)

    calls = mx.calls(mx.expand(list(fixed) + list(chans)))

    def body_b(sd):
        atoms = make_atoms(table)
        for call in calls:
            fx = [materialise(s, atoms) for s in call[:len(fixed)]]
            ch = [materialise(s, atoms) for s in call[len(fixed):]]
            fn(*fx, ch)

    want = mx.out_units(case['cls'], rate, fixed, chans, _atom_term(table))
    dis = []
    got = {}
    for which, body in (('a', body_a), ('b', body_b)):
        _, e, data = in_build(body, finish=True)
        if e is not None:
            got[which] = ['raise', exc_name(e), str(e)[:300]]
            continue
        try:
            units, _ = decoded_out_units(data, {case['cls']})
        except scgf.FormatError as e:
            got[which] = ['unparsable', str(e)[:300]]
            continue
        got[which] = ['ok', units]
    norm = (lambda x: x) if rate == 2 else _kr_norm
    a, b = got['a'], got['b']
    owner = next(k for k in cls.__mro__ if case['ctor'] in vars(k))
    tag = f"out[{owner.__name__}.{case['ctor']}]"   # the code that runs
    tag = _fam(case, tag)
    if a[0] == 'raise':
        dis.append((f'{tag}-build-raises', want, a[1:],
                    'a channel array of zeros / signals of the right rate '
                    'must reach the output unit'))
    elif a[0] == 'unparsable':
        dis.append((f'{tag}-definition-unparsable', 'SCgf v2', a[1], ''))
    else:
        ua = sorted(core.canon(norm(u)) for u in a[1])
        uw = sorted(core.canon(norm(u)) for u in want)
        if ua != uw:
            dis.append((f'{tag}-differs-from-law', uw, ua,
                        'output units as terms: expected from the case by '
                        'mc/oracles/mcexpand.py vs decoded bytes'))
        if b[0] == 'ok':
            ub = sorted(core.canon(norm(u)) for u in b[1])
            if ua != ub:
                dis.append((f'{tag}-differs-from-single-calls', ub, ua,
                            'decoded output units of the expanded call vs of '
                            'one call per combination'))
    nontrivial = mx.has_expansion(list(fixed) + list(chans)) or \
        any(k[0] == 'num' and k[1] == 0 for k in table.values())
    return dis, nontrivial, [a, b[0]]


# ---------------------------------------------------------------------------
# Dispatch, workers, replay
# ---------------------------------------------------------------------------

# ---------------------------------------------------------------------------
# Standalone reproducer (python source that imports only sc3)
# ---------------------------------------------------------------------------

# ---------------------------------------------------------------------------
# Family: edit (a ChannelList edited in place, then used)
# ---------------------------------------------------------------------------

EDIT_OUT_AR = [(['A', 'z'], 'top'), (['f', 'A', 'A'], 'top'),
               (['lAz', 'A'], 'top'), (['A', 'lfAA'], 'top'),
               (['lAz', 'A'], 0), (['A', 'lfAA'], 1), (['nAzA'], 0),
               (['lAz', 'lfAA'], 1)]
EDIT_OUT_KR = [(['K', 'z'], 'top'), (['z', 'K', 'K'], 'top'),
               (['lKn', 'K'], 'top'), (['K', 'lzKK'], 'top'),
               (['lKn', 'K'], 0), (['K', 'lzKK'], 1), (['nKzn'], 0),
               (['lKn', 'lzKK'], 1)]


def edit_cases(inv, modes):
    """A ChannelList is built, edited in place with one of EDITS (plain list
    operations) and then used: as constructor argument, as operand / receiver
    of an operator, as receiver / argument of a convenience method, as output
    array or nested inside one.  The law speaks about the content at the
    time of the call."""
    # constructors: 'e3' on every parameter; richer placements on the first
    for c in inv['ctors']:
        n = len(c['params'])
        variants = []
        for j in range(n):
            sh = [ctor_base(c, k) for k in range(n)]
            sh[j] = 'e3'
            variants.append(sh)
        for x in ('e21', 'le21', 'ce21') if n else ():
            sh = [ctor_base(c, k) for k in range(n)]
            sh[0] = x
            variants.append(sh)
        if n >= 2:
            sh = [ctor_base(c, k) for k in range(n)]
            sh[0], sh[1] = 'e3', 'l2'
            variants.append(sh)
            sh = [ctor_base(c, k) for k in range(n)]
            sh[0], sh[1] = 'l2', 'e3'
            variants.append(sh)
        for sh in variants:
            for ed in EDITS:
                for mode in modes:
                    yield {'t': 'ctor', 'cls': c['key'], 'ctor': c['ctor'],
                           'args': sh, 'mode': mode, 'edit': ed}
    # operators: edited list as right operand of a unit / of a channel list,
    # and as receiver
    for ed in EDITS:
        for name in inv['binary'] + inv['reflected']:
            for rs, os_ in [('s', 'e2'), ('s', 'e3'), ('s', 'e21'),
                            ('s', 'le21'), ('s', 'ce21'), ('c2', 'e3'),
                            ('e3', 's'), ('e3', 'l2'), ('e21', 'l2')]:
                for mode in modes:
                    yield {'t': 'op', 'name': name, 'recv': rs, 'other': os_,
                           'mode': mode, 'edit': ed}
        for name in inv['unary']:
            for rs in ('e3', 'e21'):
                yield {'t': 'op', 'name': name, 'recv': rs, 'other': None,
                       'mode': 'u', 'edit': ed}
    # convenience methods: edited receiver, edited first argument
    for m in inv['methods']:
        params = [p for p in m['params'] if p not in OPT_PARAMS]
        n = len(params)
        base = ['s' if params[k] in m['required'] else 'o' for k in range(n)]
        variants = [('e3', base), ('ec21', base)]
        if n:
            variants.append(('e3', ['l2'] + base[1:]))
            variants.append(('c2', ['e3'] + base[1:]))
        for rs, sh in variants:
            for ed in EDITS:
                for mode in modes:
                    yield {'t': 'meth', 'name': m['name'], 'recv': rs,
                           'args': list(sh), 'mode': mode, 'edit': ed}
    # output units: the array itself edited / an edited list nested in it
    for cn, rn, nfixed in OUT_CTORS:
        arrays = EDIT_OUT_AR if rn == 'ar' else EDIT_OUT_KR
        buses = ['s', 'l2'] if nfixed >= 1 else [None]
        for b in buses:
            for names, where in arrays:
                for inner in ('l', 'c'):
                    arr = {'list': list(names), 'edited': where}
                    if inner != 'l':
                        arr['inner'] = inner
                    for ed in EDITS:
                        yield {'t': 'out', 'cls': cn, 'ctor': rn, 'bus': b,
                               'xfade': 's' if nfixed == 2 else None,
                               'chans': arr, 'edit': ed}


# ---------------------------------------------------------------------------
# Family: rep (lists that repeat ONE object)
# ---------------------------------------------------------------------------

REP_SHAPES = ['rr2', 'rr3', 'rc2', 'rc3']


def rep_cases(inv, modes):
    """Lists whose elements are the very same object (sig.dup(), [amp, amp],
    one literal repeated), alone, next to scalars and next to equally
    repeating lists: every index is a combination of its own, so each must
    create its own unit."""
    for c in inv['ctors']:
        n = len(c['params'])
        variants, seen = [], set()

        def add(sh):
            if tuple(sh) not in seen:
                seen.add(tuple(sh))
                variants.append(sh)
        for j in range(n):
            for x in REP_SHAPES + ['rn2']:
                sh = [ctor_base(c, k) for k in range(n)]
                sh[j] = x
                add(sh)
            if n >= 2:
                k2 = (j + 1) % n
                for x, y in (('rr2', 'rr2'), ('rr3', 'rc3'), ('rr2', 'rr3'),
                             ('rc2', 'l2'), ('rr2', 's')):
                    sh = [ctor_base(c, k) for k in range(n)]
                    sh[j], sh[k2] = x, y
                    add(sh)
        if 2 <= n <= 8:
            add(['rr2'] * n)                 # every position repeats
            add(['rc3'] + ['rr3'] * (n - 1))
        for sh in variants:
            for mode in modes:
                yield {'t': 'ctor', 'cls': c['key'], 'ctor': c['ctor'],
                       'args': sh, 'mode': mode, 'rep': 1}
    for name in inv['binary'] + inv['reflected']:
        for rs, os_ in [('s', 'rr2'), ('s', 'rr3'), ('s', 'rc2'),
                        ('s', 'rn2'), ('rc2', 's'), ('rc3', 's'),
                        ('rc2', 'rr2'), ('rc3', 'rr3'), ('rc2', 'rr3'),
                        ('c2', 'rr2'), ('rc2', 'l2')]:
            for mode in modes:
                yield {'t': 'op', 'name': name, 'recv': rs, 'other': os_,
                       'mode': mode, 'rep': 1}
    for name in inv['unary']:
        for rs in ('rc2', 'rc3'):
            yield {'t': 'op', 'name': name, 'recv': rs, 'other': None,
                   'mode': 'u', 'rep': 1}
    for name in inv['binary']:
        if name in INPLACE:
            for rs, os_ in [('s', 'rr2'), ('rc2', 'rr2'), ('rc2', 's')]:
                for mode in modes:
                    yield {'t': 'op', 'name': name, 'recv': rs, 'other': os_,
                           'mode': mode, 'via': 'inplace', 'rep': 1}
    for name in inv['bi_binary']:
        for via in ('bi', 'bi-r'):
            for rs, os_ in [('s', 'rr2'), ('rc2', 'rr2'), ('rc2', 's')]:
                for mode in modes:
                    yield {'t': 'op', 'name': name, 'recv': rs, 'other': os_,
                           'mode': mode, 'via': via, 'rep': 1}
    for m in inv['methods']:
        params = [p for p in m['params'] if p not in OPT_PARAMS]
        n = len(params)
        base = ['s' if params[k] in m['required'] else 'o' for k in range(n)]
        variants = [('rc2', base), ('rc3', base)]
        if n:
            for rs, x in (('rc2', 'rr2'), ('rc3', 'rr3'), ('c2', 'rr2'),
                          ('c1', 'rr3'), ('rc2', 'rr3')):
                variants.append((rs, [x] + base[1:]))
        if n >= 2:
            variants.append(('rc2', ['rr2', 'rr2'] + base[2:]))
        for rs, sh in variants:
            for mode in modes:
                yield {'t': 'meth', 'name': m['name'], 'recv': rs,
                       'args': list(sh), 'mode': mode, 'rep': 1}
    for cn, rn, nfixed in OUT_CTORS:
        A, L2, L3 = ('A', 'lAA', 'lAAA') if rn == 'ar' else \
            ('K', 'lKK', 'lKKK')
        Z = 'lAz' if rn == 'ar' else 'lKn'
        arrays = [[A], [A, 'z'], [L2], [L3], [L2, A], [A, L2], [L2, L2],
                  [L2, Z], [L3, L2]]
        buses = ['s', 'rr2', 'rr3', 'rc2'] if nfixed >= 1 else [None]
        xf = ['s', 'rr2'] if nfixed == 2 else [None]
        for b in buses:
            for x in xf:
                for names in arrays:
                    for cont, inner in OUT_CONTAINERS:
                        if inner == 'c' and not any(
                                e in (L2, L3, Z) for e in names):
                            continue
                        arr = {'list': list(names)}
                        if cont != 'l':
                            arr['cont'] = cont
                        if inner != 'l':
                            arr['inner'] = inner
                        yield {'t': 'out', 'cls': cn, 'ctor': rn, 'bus': b,
                               'xfade': x, 'chans': arr, 'rep': 1}


def _expr(spec):
    h = spec[0]
    if h == 's':
        return f'x{spec[1]}'
    inner = ', '.join(_expr(x) for x in spec[1:])
    if h == 'l':
        return f'[{inner}]'
    if h == 'c':
        return f'ChannelList([{inner}])'
    if h == 'k':
        return f'ChannelList({inner})'
    if h == 'e':
        return f'edited([{inner}])'
    return f'({inner},)' if len(spec) == 2 else f'({inner})'


_INPLACE_SYM = {'iadd': '+=', 'isub': '-=', 'imul': '*=', 'itruediv': '/=',
                'ifloordiv': '//=', 'imod': '%=', 'ipow': '**=',
                'ilshift': '<<=', 'irshift': '>>=', 'iand': '&=', 'ior': '|=',
                'ixor': '^='}


def _edit_src(case):
    ed = case.get('edit')
    if not ed:
        return ''
    body = textwrap.indent(EDIT_SRC[ed], '    ')
    return (f"\ndef edited(v):     # in-place edit {ed!r}; J must not "
            f"survive\n    J = {EDIT_JUNK!r}\n{body}\n    return cl\n")


def standalone(case):
    t = case['t']
    imports = []
    stmt = False          # call(sp) is a statement block that ends in `r = `
    if t in ('ctor', 'tuple'):
        short, cn = case['cls'].split('.')
        mod = 'sc3.synth.ugen' if short == 'ugen' else \
            'sc3.synth.ugens.' + short
        if cn != 'SinOsc':
            imports.append(f'from {mod} import {cn}')
        specs = ctor_specs(case)
        table = _table(specs, case['mode'])
        # parameter names are resolved at run time to keep this plain data
        head = f"{cn}.{case['ctor']}"
        via = case.get('via')

        def call(sp):
            args = ', '.join(f'**{{P[{j}]: {_expr(x)}}}'
                             for j, x in enumerate(sp) if x[0] != 'o')
            if sp is specs and via == 'call':
                return f'{cn}({args})'
            if sp is specs and via == 'urate':
                ur = None if case['ctor'] == 'new' else case['ctor']
                return f'{cn}({args}, urate={ur!r})'
            return f'{head}({args})'
        pre = (f'import inspect\nP = list(inspect.signature({head})'
               f'.parameters)\n')
    elif t == 'op':
        specs = [shape_spec(case['recv'], 1000)]
        if case['other'] not in (None, 'o'):
            specs.append(shape_spec(case['other'], 8))
        table = _table(specs, case['mode'])
        pre = ''
        via = case.get('via')
        if via in ('bi', 'bi-r'):
            pre = 'from sc3.base import builtins as bi\n'
        stmt = via == 'inplace'

        def call(sp):
            xs = [_expr(x) for x in sp]
            if via == 'inplace':
                sym = _INPLACE_SYM[INPLACE[case['name']]]
                return f"r = {xs[0]}; r {sym} {xs[1]}"
            if via == 'bi':
                return f"bi.{case['name']}({', '.join(xs)})"
            if via == 'bi-r':
                return f"bi.{case['name']}({', '.join(xs[1:] + xs[:1])})"
            return f"{xs[0]}.{case['name']}(" + ', '.join(xs[1:]) + ')'
    elif t == 'meth':
        specs, kw, table = meth_specs(case)
        pre = ''

        def call(sp):
            xs = [_expr(x) for x in sp[1:]]
            if kw is not None:
                xs[-1] = f'{kw}={xs[-1]}'
            return f"{_expr(sp[0])}.{case['name']}(" + ', '.join(xs) + ')'
    else:
        fixed, chans, bare, table = out_specs(case)
        imports.append(f"from sc3.synth.ugens.inout import {case['cls']}")
        specs = list(fixed) + list(chans)
        pre = ''
        nf = len(fixed)
        cont = case['chans'].get('cont', 'l')

        def call(sp):
            fx = [_expr(x) for x in sp[:nf]]
            ch = [_expr(x) for x in sp[nf:]]
            if bare and len(ch) == 1 and sp is specs:
                arr = ch[0]
            else:
                arr = '[' + ', '.join(ch) + ']'
                if cont == 'c' and sp is specs:
                    arr = f'ChannelList({arr})'
                elif case['chans'].get('edited') == 'top' and sp is specs:
                    arr = f'edited({arr})'
            return f"{case['cls']}.{case['ctor']}({', '.join(fx + [arr])})"
    atoms = []
    for aid in sorted(table):
        k = table[aid]
        if k[0] in ('num', 'str', 'py'):
            atoms.append(f'    x{aid} = {k[1]!r}')
        elif k[0] == 'uar':
            atoms.append(f'    x{aid} = LFPulse.ar({k[1]!r})   # unipolar')
        elif k[0] == 'ukr':
            atoms.append(f'    x{aid} = Impulse.kr({k[1]!r})   # unipolar')
        else:
            atoms.append(f'    x{aid} = SinOsc.{k[0]}({k[1]!r})')
    atoms = '\n'.join(atoms) or '    pass'

    def show(c, label):
        if stmt:
            return f"    {call(c)}\n    print({label!r}, r)"
        return f"    print({label!r}, {call(c)})"

    singles = '\n'.join(show(c, '   ') for c in mx.calls(mx.expand(specs)))
    finish = t == 'out'
    tail = ("\nfor g in (with_lists, one_call_per_combination):\n"
            "    try:\n        sd = SynthDef('c03', g)\n"
            + ("        sd.dump_ugens()\n" if finish else '') +
            "    except Exception as e:\n"
            "        print('raises', type(e).__name__, e)\n")
    return (
        "import sc3; sc3.init('nrt')\n"
        "from sc3.synth.synthdef import SynthDef\n"
        "from sc3.synth.ugen import ChannelList\n"
        "from sc3.synth.ugens.oscillators import SinOsc, LFPulse, Impulse\n"
        + ''.join(i + '\n' for i in imports) + pre + _edit_src(case) +
        f"\ndef with_lists():\n{atoms}\n"
        f"{show(specs, 'with lists:')}\n"
        f"\ndef one_call_per_combination():\n{atoms}\n"
        f"    print('one call per combination:')\n{singles}\n" + tail)


CHECKS = {'ctor': check_ctor, 'tuple': check_tuple, 'op': check_op,
          'meth': check_meth, 'out': check_out}


def check_case(case):
    global _EDIT
    _EDIT = case.get('edit')
    try:
        return CHECKS[case['t']](case)
    finally:
        _EDIT = None


def _run_cases(cases, acc):
    from sc3.base.main import main
    for case in cases:
        dis, nt, outcome = check_case(case)
        main._current_synthdef = None
        for kind, exp, obs, detail in dis:
            acc.violation(kind, case, exp, obs, detail,
                          standalone=standalone(case))
        if outcome[0] == 'undefined':
            acc.count('cases_not_decided_by_the_law (a single-channel call '
                      'raises)')
        acc.case(case, nt, outcome)


def work_ctor(job):
    inv = inventory()
    acc = progenum.Acc()
    blocks = ctor_blocks(inv, job.get('triples', False))
    for bi, block in enumerate(blocks):
        if bi % job['of'] != job['shard']:
            continue
        _run_cases(ctor_block_cases(inv, block, job['modes']), acc)
    return acc.result()


def work_list(job):
    """Families whose case list is small enough to enumerate per shard."""
    inv = inventory()
    acc = progenum.Acc()
    fam = job['family']
    if fam == 'tuple':
        gen = tuple_cases(inv)
    elif fam == 'op':
        gen = op_cases(inv, job['modes'])
    elif fam == 'meth':
        gen = meth_cases(inv, job['modes'])
    elif fam == 'out':
        gen = out_cases(job['maxlen'])
    elif fam == 'ctorx':
        gen = ctorx_cases(inv, job['modes'], job['companions'])
        if job.get('slice_of'):
            gen = (c for i, c in enumerate(gen)
                   if i % job['slice_of'] == job['slice_ix'])
    elif fam == 'call':
        gen = call_cases(inv, job['modes'])
    elif fam == 'edit':
        gen = edit_cases(inv, job['modes'])
    elif fam == 'rep':
        gen = rep_cases(inv, job['modes'])
    else:
        raise ValueError(fam)
    _run_cases((c for i, c in enumerate(gen)
                if i % job['of'] == job['shard']), acc)
    return acc.result()


def replay(job):
    dis, nt, outcome = check_case(job['case'])
    return {'violates': any(d[0] == job['kind'] for d in dis),
            'disagreements': [[d[0], repr(d[1])[:600], repr(d[2])[:600]]
                              for d in dis],
            'outcome': repr(outcome)[:600]}


def _pred_nested_method_argument(v):
    c = v['case']
    return c.get('t') == 'meth' and \
        any(sh in ('n21', 'cc21') for sh in c.get('args', ()))


PREDICATES = {
    'nested_list_method_argument': _pred_nested_method_argument,
}


def main(ctx):
    ctx.rule = (
        'E1: every case of nine families is executed twice inside real '
        'SynthDef builds (with lists / with the list-free calls of the '
        'expansion tree computed from the plain-data shapes). Distinct = '
        'literally different case (class, constructor, shape per parameter, '
        'atom mode). Non-trivial = at least one argument is a list of length '
        '>= 2 at some depth and the single-channel calls are defined (for '
        'output units also: the channel array contains a literal zero).')
    ctx.assumptions += [
        'reference: mc/oracles/mcexpand.py expand() (wrap-and-zip recursion '
        'over plain-data shapes); the single-channel call of the library is '
        'the trusted meaning of one combination (differential oracle)',
        'output units: expected terms are computed from the case data alone; '
        'bytes decoded by mc/oracles/scgf.py',
        'a case whose single-channel call raises is not decided by the law '
        'and is accepted whatever the expanded call does',
        'control-rate output units: literal zero and silence are both '
        'accepted',
        'operators: a tuple operand of a ChannelList operator is not '
        'enumerated (distributed like a list by design, pinned by the test '
        'suite); inner containers of nested operator results are compared '
        'up to list-vs-ChannelList, the top-level container must be a '
        'ChannelList',
        'ChannelList.poll: only calls with an explicit label are enumerated '
        '(the default label differs from UGen.poll by design) and the value '
        'handed back (the receiver, pass-through by design) is not judged, '
        'only the units created; dpoll is not enumerated (UGen.dpoll cannot '
        'be called); a channel list that holds plain numbers as receiver of a '
        'convenience method is not enumerated (a number has no such method: '
        'no single-channel meaning)',
        'functions of sc3.base.builtins are judged only for unary and binary '
        'operators (n-ary ones are not defined for unit generators)',
        'constructors whose units share mutable state of the build '
        '(STATEFUL_CTORS: LocalBuf) are excluded']
    inv = None
    for res in ctx.map('nrt', MODNAME, 'work_inventory', [{}]):
        inv = res['inventory']
    ctx.extra['inventory'] = inv
    ctx.extra['constructors_found'] = len(inv['constructors_found'])
    ctx.extra['constructors_excluded'] = len(inv['constructors_excluded'])
    thorough = ctx.tier == 'thorough'
    NS = 256 if thorough else 64
    cmodes = ['n', 'm', 'u'] if thorough else ['m']
    progenum.run(ctx, MODNAME, 'work_ctor',
                 [{'shard': i, 'of': NS, 'modes': cmodes,
                   'triples': thorough} for i in range(NS)],
                 bound='ctor: 10 shapes on every pair of parameters (full '
                       'product for <= 3 parameters'
                       + (', every triple for 4-7 parameters' if thorough
                          else '') + '), atom modes ' + '/'.join(cmodes))
    # ctorx: the rarer shapes, one at a time, next to a companion shape
    xmodes = ['n', 'm', 'u'] if thorough else ['m']
    nx = len(CTORX_SHAPES)
    progenum.run(ctx, MODNAME, 'work_list',
                 [{'family': 'ctorx', 'shard': i, 'of': NS, 'modes': xmodes,
                   'companions': [None] + CTORX_COMPANIONS}
                  for i in range(NS)],
                 bound=f'ctorx: each of {nx} further shapes (4-element list, '
                       'depth 3, list holding a ChannelList and vice versa, '
                       'ChannelList(value), ChannelList(tuple), tuple inside '
                       'a list ...) on every parameter x {base, '
                       + ', '.join(CTORX_COMPANIONS) + '} on the next '
                       'parameter, atom modes ' + '/'.join(xmodes))
    more = {'family': 'ctorx', 'of': NS, 'modes': ['m', 'u'] if thorough
            else ['m'], 'companions': CTORX_COMPANIONS_MORE}
    if thorough:
        progenum.run(ctx, MODNAME, 'work_list',
                     [dict(more, shard=i) for i in range(NS)],
                     bound=f'ctorx: {nx} further shapes x '
                           f'{len(CTORX_COMPANIONS_MORE)} more companion '
                           'shapes on the next parameter, atom modes m/u')
    else:
        k = 8
        progenum.run(ctx, MODNAME, 'work_list',
                     [dict(more, shard=i, slice_of=k,
                           slice_ix=core.pick_slice(ctx.seed, k))
                      for i in range(NS)],
                     bound=f'ctorx: {nx} further shapes x '
                           f'{len(CTORX_COMPANIONS_MORE)} more companion '
                           f'shapes, 1/{k} slice chosen by seed (not '
                           'exhaustive)')
    progenum.run(ctx, MODNAME, 'work_list',
                 [{'family': 'call', 'shard': i, 'of': 16,
                   'modes': ['m', 'u'] if thorough else ['m']}
                  for i in range(16)],
                 bound='call: the class called like a constructor (default '
                       'rate / urate=), shapes ' + '/'.join(CALL_SHAPES)
                       + ' on every parameter')
    emodes = ['n', 'm', 'u'] if thorough else ['m']
    progenum.run(ctx, MODNAME, 'work_list',
                 [{'family': 'edit', 'shard': i, 'of': NS, 'modes': emodes}
                  for i in range(NS)],
                 bound=f'edit: a ChannelList edited in place ({len(EDITS)} '
                       'edits: ' + '/'.join(EDITS) + ') and then used as '
                       'argument of every constructor (every parameter), as '
                       'operand / receiver of every operator, as receiver / '
                       'argument of every convenience method, as output '
                       'array / nested in one; atom modes '
                       + '/'.join(emodes))
    rmodes = ['n', 'u', 'm'] if thorough else ['n', 'u']
    progenum.run(ctx, MODNAME, 'work_list',
                 [{'family': 'rep', 'shard': i, 'of': NS, 'modes': rmodes}
                  for i in range(NS)],
                 bound='rep: lists repeating ONE object (' +
                       '/'.join(REP_SHAPES + ['rn2']) + ': [x, x], [x, x, x], '
                       'x.dup(), x.dup(3), [[x, x], [x, x]]) on every '
                       'parameter of every constructor alone / next to a '
                       'scalar / next to an equally repeating list / on all '
                       'parameters, as operand and receiver of every '
                       'operator (all routes), as receiver / argument of '
                       'every method, as bus / xfade / channels of the '
                       'output units; unit identity of the result leaves is '
                       'compared; atom modes ' + '/'.join(rmodes))
    progenum.run(ctx, MODNAME, 'work_list',
                 [{'family': 'tuple', 'shard': i, 'of': 16}
                  for i in range(16)],
                 bound='tuple: one tuple argument per parameter position, '
                       'atom modes n/u')
    omodes = ['n', 'u', 'm'] if thorough else ['n', 'u']
    progenum.run(ctx, MODNAME, 'work_list',
                 [{'family': 'op', 'shard': i, 'of': 64, 'modes': omodes}
                  for i in range(64)],
                 bound=f'op: every operator x {len(RECV_SHAPES)} receiver '
                       f'shapes x {len(OTHER_SHAPES)} operand shapes (+ '
                       'operand left to its default), and the routes '
                       'augmented assignment / sc3.base.builtins function '
                       f'(either operand order) x {len(VIA_SHAPES)} operand '
                       'shapes; operand atom modes ' + '/'.join(omodes))
    mmodes = ['n', 'u', 'm'] if thorough else ['m']
    progenum.run(ctx, MODNAME, 'work_list',
                 [{'family': 'meth', 'shard': i, 'of': 64, 'modes': mmodes}
                  for i in range(64)],
                 bound='meth: every ChannelList method x 4 receiver shapes x '
                       '7 shapes on every pair of arguments; the clip=/type= '
                       f'option x {len(OPT_KINDS)} values (strings, None, '
                       'lists of them); poll with explicit label(s); '
                       'argument atom modes ' + '/'.join(mmodes))
    maxlen = 3 if thorough else 2
    progenum.run(ctx, MODNAME, 'work_list',
                 [{'family': 'out', 'shard': i, 'of': 64, 'maxlen': maxlen}
                  for i in range(64)],
                 bound=f'out: 9 output constructors x {len(BUS_SHAPES)} bus '
                       f'shapes x channel arrays of <= {maxlen} elements '
                       'over 6 element kinds x list/ChannelList as array '
                       'and as nested element')
