"""C18 - incoming messages reach exactly the responders that should fire;
malformed datagrams are harmless; callback registries run exactly what is
registered, in order.

Four parts (DESIGN.md section 5, C18):

(1) responder histories  E2 (own BFS driver, systems have close()), mode 'rt'
    (RT-virtual, default schedule): real OscFunc objects, datagrams encoded by
    the strict OSC 1.0 codec, delivered through the real
    OscInterface._handle_request and dispatched by the real SystemClock
    thread; invocation log against mc/oracles/dispatch_ref.py.
(2) patterns             E1, mode 'import': every pattern text of length <= L
    over the OSC pattern alphabet x every valid address of length <= L over
    {a,b,/}: the matcher used by responders.py against mc/oracles/oscpattern.py.
(3) datagram faults      E4, mode 'rt': every truncation / int32 field value /
    type tag substitution of the base datagrams, all byte strings of length
    <= 2, each under a deterministic step budget; classification by
    mc/oracles/oscfault.py.
(4) registries           E2, mode 'rt': CmdPeriod/StartUp/ShutDown,
    ServerBoot/ServerQuit/ServerTree, NotificationCenter against
    mc/oracles/registry_ref.py.
"""

import sys
import itertools

from mc import core
from mc.engines import progenum
from mc.oracles import osc10, oscpattern, oscfault, dispatch_ref, registry_ref

MODNAME = 'mc.checks.c18'
MODE = 'rt'


def REPLAY_MODE(v):
    return 'import' if v['case'].get('part') == 'pattern' else 'rt'


HOST = '127.0.0.1'
A = [HOST, 57200]           # sender A (the src_id of filtered responders)
B = [HOST, 57201]           # sender B
PORT2 = 57121               # second local port (recv_port filter)
BUDGET = 60000              # monitoring events allowed for one datagram
DT = 0.5                    # virtual seconds between two deliveries


# =============================================================================
# worker environment (mode 'rt')

_ENV = {}


class _ErrTap:
    """Captures error records of the sc3 loggers (the library logs instead of
    raising in its clock threads and in the receiver)."""

    def __init__(self):
        import logging

        tap = self

        class H(logging.Handler):
            def emit(self, record):
                et = record.exc_info[0].__name__ if record.exc_info and \
                    record.exc_info[0] else None
                ev = str(record.exc_info[1])[:120] if record.exc_info and \
                    record.exc_info[1] is not None else None
                # which dispatcher was running when the exception arose
                # (observation only: `self` of the frames of the traceback)
                groups = []
                tb = record.exc_info[2] if record.exc_info else None
                while tb is not None:
                    me = tb.tb_frame.f_locals.get('self')
                    for g, d in zip(('exact', 'matching'), tap.disp):
                        if me is d and g not in groups:
                            groups.append(g)
                    tb = tb.tb_next
                tap.records.append([record.name, et, ev, groups])
        self.records = []
        self.disp = ()
        lg = logging.getLogger('sc3')
        lg.setLevel(logging.ERROR)
        lg.propagate = False
        lg.addHandler(H())


def _env():
    """Once per worker: second server, second interface, error tap, and the
    baseline of every global registry the systems touch."""
    if _ENV:
        return _ENV
    from mc import seams
    from sc3.base.main import main
    from sc3.base import _oscinterface as osci
    from sc3.base import responders as rsp
    from sc3.base import systemactions as sac
    from sc3.base.netaddr import NetAddr
    from sc3.synth import server as srv
    ex = seams.Execution()
    s2 = srv.Server('c18b', NetAddr(HOST, 57333))
    iface2 = osci.OscUdpInterface(PORT2)        # the capture class of seams
    iface2.start()
    ex.finish()
    _ENV.update(main=main, osci=osci, rsp=rsp, sac=sac, srv=srv, s2=s2,
                iface2=iface2, tap=_ErrTap(), NetAddr=NetAddr)
    disp = (rsp.OscFunc._default_dispatcher,
            rsp.OscFunc._default_matching_dispatcher)
    _ENV['disp'] = disp
    _ENV['tap'].disp = disp
    _ENV['base'] = {
        'recv': set(osci.OscInterface._recv_functions),
        'disp': [({k: list(v) for k, v in d.active.items()},
                  dict(d.wrapped_funcs), d.registered) for d in disp],
        'proxies': set(rsp.OscFunc._all_func_proxies),
        'cmdp': dict(sac.CmdPeriod._actions),
    }
    return _ENV


def _restore_responders(env, mine):
    """Put the global responder state back to the worker's baseline."""
    from sc3.base.model import NotificationCenter as NC
    base = env['base']
    recv = env['osci'].OscInterface._recv_functions
    recv.clear()
    recv.update(base['recv'])
    for d, (active, wrapped, reg) in zip(env['disp'], base['disp']):
        d.active = {k: list(v) for k, v in active.items()}
        d.wrapped_funcs = dict(wrapped)
        d.registered = reg
    px = env['rsp'].OscFunc._all_func_proxies
    px.clear()
    px.update(base['proxies'])
    acts = env['sac'].CmdPeriod._actions
    acts.clear()
    acts.update(base['cmdp'])
    for r in mine:
        r.enabled = False
        try:
            del NC._registrations[r]
        except KeyError:
            pass


def _jsonable(v):
    if isinstance(v, (list, tuple)):
        return [_jsonable(x) for x in v]
    if isinstance(v, (bytes, bytearray, memoryview)):
        return {'bytes': bytes(v).hex()}
    if isinstance(v, float) and v != v:
        return 'nan'
    if isinstance(v, (bool, int, float, str)) or v is None:
        return v
    return repr(v)


# =============================================================================
# (1) responder histories

class ResponderSys:
    """params: {'variants': [[path, matching, src, recv_port, tmpl(, shared)],
                             ...],
                'max': n, 'msgs': [[address, args, sender, via], ...],
                'kill': bool}
    via 0 = the main interface, 1 = the second interface (PORT2).
    shared: the responder is created with the one function object that all
    `shared` responders of its dispatcher have in common (log entries of that
    function carry no responder id; they are attributed to the responders that
    still own it, in the order the reference expects them).
    kill: the menu offers ['kill', i, j, how]: responder i gets a function that
    logs and then calls j.free() / j.disable() (at most one such responder)."""

    def __init__(self, params, dry=False):
        self.p = params
        self.dry = dry
        self.ref = dispatch_ref.Model()
        self.last = None
        self.closed = False
        self.tainted = False
        if dry:
            return
        from mc import seams, vthreading as vt
        self.env = _env()
        self.vt = vt
        self.ex = seams.Execution()
        self.rs = []
        self.log = []
        log = self.log

        def mk_shared(tag):
            def shared(msg, time, addr, port):
                log.append([tag, 0, _jsonable(msg), time,
                            [getattr(addr, 'hostname', None),
                             getattr(addr, 'port', None)], port])
            return shared
        # one shared object per dispatcher (the order in which the two
        # dispatchers run is not decided, so entries of an object shared
        # across them could not be attributed)
        self.shared_f = {False: mk_shared('S-exact'),
                         True: mk_shared('S-matching')}

    # ---- menu (depends on the reference state only) -------------------------
    def ops(self):
        o = []
        if len(self.ref.rs) < self.p['max']:
            o += [['new', i] for i in range(len(self.p['variants']))]
        for i, r in enumerate(self.ref.rs):
            if not self.ref.live(i):
                continue        # nothing is offered on freed/spent responders
            o += [['enable', i], ['disable', i], ['free', i]]
            if not r.oneshot:
                o += [['one_shot', i], ['func', i]]
        if self.p.get('kill') and \
                not any(r.kills for r in self.ref.rs):
            for i, r in enumerate(self.ref.rs):
                if not self.ref.live(i) or r.oneshot:
                    continue
                for j in range(len(self.ref.rs)):
                    if j != i and self.ref.live(j):
                        o += [['kill', i, j, 'free'],
                              ['kill', i, j, 'disable']]
        o.append(['cmdp'])
        o += [['msg', k] for k in range(len(self.p['msgs']))]
        return o

    def _cb(self, rid, ver):
        log = self.log

        def f(msg, time, addr, port):
            log.append([rid, ver, _jsonable(msg), time,
                        [getattr(addr, 'hostname', None),
                         getattr(addr, 'port', None)], port])
        return f

    def _cb_kill(self, rid, ver, j, how):
        log = self.log
        rs = self.rs

        def f(msg, time, addr, port):
            log.append([rid, ver, _jsonable(msg), time,
                        [getattr(addr, 'hostname', None),
                         getattr(addr, 'port', None)], port])
            if rs[j] is not None:
                getattr(rs[j], how)()
        return f

    # ---- one step -------------------------------------------------------------
    def apply(self, op):
        name = op[0]
        ref = self.ref
        if name == 'msg':
            return self._deliver(op[1])
        if name == 'new':
            var = self.p['variants'][op[1]]
            path, matching, src, rport, tmpl = var[:5]
            shared = len(var) > 5 and var[5]
            r = ref.create(path, matching, src, rport, tmpl, shared)
            if self.dry:
                return []
            OscFunc = self.env['rsp'].OscFunc
            sid = None if src is None else self.env['NetAddr'](src[0], src[1])
            f = self.shared_f[bool(matching)] if shared \
                else self._cb(r.rid, 0)

            def call():
                if matching:
                    return OscFunc.matching(f, path, sid, rport,
                                            arg_template=tmpl)
                return OscFunc(f, path, sid, rport, arg_template=tmpl)
            dis, obj = self._guard(op, call)
            self.rs.append(obj)
            return dis
        if name == 'cmdp':
            ref.cmd_period()
            if self.dry:
                return []
            return self._guard(op, self.env['sac'].CmdPeriod.run)[0]
        i = op[1]
        if name == 'enable':
            ref.enable(i)
        elif name == 'disable':
            ref.disable(i)
        elif name == 'free':
            ref.free(i)
        elif name == 'one_shot':
            ref.one_shot(i)
        elif name == 'func':
            ref.replace_func(i)
        elif name == 'kill':
            ref.set_killer(i, op[2], op[3])
        else:
            raise core.HarnessError(f'bad op {op}')
        if self.dry:
            return []
        obj = self.rs[i]
        if obj is None:
            return []
        if name == 'kill':
            f = self._cb_kill(i, ref.rs[i].ver, op[2], op[3])
            return self._guard(op, lambda: setattr(obj, 'func', f))[0]
        if name == 'func':
            f = self._cb(i, ref.rs[i].ver)
            return self._guard(op, lambda: setattr(obj, 'func', f))[0]
        return self._guard(op, getattr(obj, name))[0]

    def _guard(self, op, call):
        vt = self.vt
        try:
            res = call()
            vt.SCHED.idle()
            return [], res
        except (vt.Deadlock, vt.Livelock) as e:
            return [('resp-op-blocks', 'returns', type(e).__name__,
                     f'{op}: {e}')], None
        except Exception as e:
            return [('resp-op-raises', 'returns', type(e).__name__,
                     f'{op}: {e}')], None

    def _deliver(self, k):
        address, args, sender, via = self.p['msgs'][k]
        ref = self.ref
        port = PORT2 if via else None
        if self.dry:
            try:
                ref.deliver(address, args, sender, port or 57120)
            except oscpattern.Ambiguous:
                pass
            return []
        env, vt = self.env, self.vt
        S = vt.SCHED
        iface = env['iface2'] if via else env['main']._osc_interface
        port = iface.port
        data = osc10.encode_message(address, args)
        S.sleep(DT, exact=True)
        now = S.now
        groups_enabled = {r.matching for r in ref.rs if r.state == 'enabled'}
        try:
            fired = ref.deliver(address, args, sender, port)
        except oscpattern.Ambiguous:
            fired = None
        mark = len(self.log)
        del env['tap'].records[:]
        dis = []
        try:
            iface._handle_request(data, (sender[0], sender[1]))
            S.idle()
        except (vt.Deadlock, vt.Livelock) as e:
            dis.append(('resp-deliver-blocks', 'returns', type(e).__name__,
                        str(e)))
        except BaseException as e:
            if isinstance(e, (KeyboardInterrupt, SystemExit, vt.Abort)):
                raise
            dis.append(('resp-deliver-raises', 'returns',
                        type(e).__name__, str(e)[:200]))
        obs = [list(e) for e in self.log[mark:]]
        errors = [list(x) for x in env['tap'].records]
        if fired is not None:
            # entries of the shared function object: attributed to the
            # responders that still own it, in the order they are expected
            owners = {}
            for opt in (False, True):
                for f in fired:
                    if f['shared'] and f['optional'] == opt:
                        owners.setdefault('S-' + f['group'], []).append(
                            f['rid'])
            for rid in ref.last_killed:     # surplus entries: these first
                if ref.rs[rid].shared:
                    owners.setdefault(
                        'S-matching' if ref.rs[rid].matching else 'S-exact',
                        []).append(rid)
            # Which owner made which call cannot be observed (same function
            # object, same arguments): when exactly the expected number of
            # calls was made, take an attribution that satisfies the demanded
            # order if there is one.
            tags = sorted({e[0] for e in obs if isinstance(e[0], str)})
            mand = {t: [f['rid'] for f in fired if f['shared'] and
                        not f['optional'] and 'S-' + f['group'] == t]
                    for t in tags}
            if tags and all(
                    sum(1 for e in obs if e[0] == t) == len(mand[t])
                    for t in tags):
                for perm in itertools.product(
                        *[itertools.permutations(mand[t]) for t in tags]):
                    it = {t: iter(p) for t, p in zip(tags, perm)}
                    ids = [next(it[e[0]]) if isinstance(e[0], str) else e[0]
                           for e in obs]
                    if not dispatch_ref.check_order(fired, ids):
                        for e, rid in zip(obs, ids):
                            e[0] = rid
                        break
            for e in obs:
                if isinstance(e[0], str):
                    own = owners.get(e[0])
                    e[0] = own.pop(0) if own else 'S+'
        self.last = ['msg', k, [[e[0], e[1]] for e in obs]]
        if ref.last_optional:
            self.tainted = True     # resulting state not decided: not extended
        if any(e[3] for e in errors):
            # An exception escaped from a dispatcher: the loop over the *set*
            # OscInterface._recv_functions was aborted, so whether the other
            # dispatcher saw the message depends on object addresses
            # (DESIGN.md section 6: no deterministic oracle).  From here on
            # the library state is not a function of the history: the
            # history is not extended (see `expand`), and the delivery is
            # judged only when all enabled responders sit in one dispatcher
            # (then nothing depends on the order of the set).
            self.tainted = True
            self.last = ['msg', k, 'address-dependent']
            if len(groups_enabled) > 1:
                return dis
        if fired is None:
            return dis          # meaning of the pattern is a don't-care
        detail = (f'message {[address] + list(args)} from {sender} on port '
                  f'{port}; responders {ref.key()}; errors logged by the '
                  f'library during dispatch: {errors}')
        exp_ids = [f['rid'] for f in fired]
        obs_ids = [e[0] for e in obs]
        expd = {f['rid']: f for f in fired}
        want = [address] + list(args)
        seen = set()
        for e in obs:
            rid = e[0]
            if rid == 'S+':
                dis.append(('resp-extra-shared-function', exp_ids, obs_ids,
                            detail))
                continue
            r = ref.rs[rid]
            if rid not in expd:
                state_before = r.state
                if rid in ref.last_killed:
                    kind = 'resp-fired-after-removed-by-callback'
                elif state_before != 'enabled':
                    kind = 'resp-fired-while-' + state_before
                elif not ref.path_accepts(r, address):
                    kind = 'resp-extra-matching-path' if r.matching \
                        else 'resp-extra-exact-path'
                else:
                    kind = 'resp-extra-filter-ignored'
                dis.append((kind, exp_ids, obs_ids, detail))
                continue
            if rid in seen:
                dis.append(('resp-fired-twice', exp_ids, obs_ids, detail))
                continue
            seen.add(rid)
            if e[1] != expd[rid]['ver']:
                dis.append(('resp-stale-function', expd[rid]['ver'], e[1],
                            detail))
            got = [e[2], e[3], e[4], e[5]]
            exp = [_jsonable(want), now, [sender[0], sender[1]], port]
            if got != exp:
                dis.append(('resp-payload', exp, got, detail))
        for f in fired:
            if f['rid'] in seen or f['optional']:
                continue
            r = ref.rs[f['rid']]
            shot = [g['rid'] for g in fired
                    if ref.rs[g['rid']].oneshot and g['rid'] != f['rid'] and
                    g['group'] == f['group'] and
                    ref.rs[g['rid']].path == r.path]
            if errors:
                kind = 'resp-missed-dispatch-error'
            elif shot:
                kind = 'resp-missed-after-oneshot'
            else:
                kind = 'resp-missed'
            dis.append((kind, exp_ids, obs_ids, detail))
        # (with an optional responder - one that a function of the other
        # dispatcher removes - entries of a shared function object cannot be
        # attributed reliably: no order is demanded for that delivery)
        bad = [] if ref.last_optional else \
            dispatch_ref.check_order(fired, obs_ids)
        if bad:
            g = expd[bad[0][0]]['group']
            dis.append((f'resp-order-{g}', exp_ids, obs_ids,
                        f'demanded before: {bad}; ' + detail))
        return dis

    # ---- state ------------------------------------------------------------------
    def _implkey(self):
        env = self.env
        mine = {id(r): i for i, r in enumerate(self.rs) if r is not None}
        out = []
        for d, (bact, _, _) in zip(env['disp'], env['base']['disp']):
            # the lists of `active` hold wrapped functions or the responders
            # themselves, depending on the version of the library
            fmap = dict(mine)
            for px, fn in d.wrapped_funcs.items():
                if id(px) in mine:
                    fmap.setdefault(id(fn), mine[id(px)])
            bids = {id(fn) for fns in bact.values() for fn in fns}
            act = []
            for path in sorted(d.active):
                ids = [fmap[id(fn)] if id(fn) in fmap else
                       'base' if id(fn) in bids else 'stale'
                       for fn in d.active[path]]
                if any(x != 'base' for x in ids):
                    act.append([path, ids])
            out.append([act, sorted(mine[id(px)] for px in d.wrapped_funcs
                                    if id(px) in mine), bool(d.registered)])
        cp = []
        for fn in env['sac'].CmdPeriod._actions:
            o = getattr(fn, '__self__', None)
            if id(o) in mine:
                cp.append(mine[id(o)])
        en = [None if r is None else bool(r.enabled) for r in self.rs]
        px = sorted(mine[id(r)] for r in env['rsp'].OscFunc._all_func_proxies
                    if id(r) in mine)
        return [out, cp, en, px]

    def key(self):
        if self.tainted:
            return [self.ref.key(), 'address-dependent']
        return [self.ref.key(), self._implkey()]

    def nontrivial(self):
        return self.ref.nontrivial()

    def outcome(self):
        return self.last

    def close(self):
        if self.dry or self.closed:
            return []
        self.closed = True
        _restore_responders(self.env, [r for r in self.rs if r is not None])
        return self.ex.finish()


# =============================================================================
# (1b) responders whose function raises (single dispatcher: deterministic)

RAISE_KINDS = ['plain', 'raiser', 'oneshot', 'oneshot-raiser']


def raise_cases():
    out = []
    for matching in (False, True):
        for n in (1, 2, 3):
            for layout in itertools.product(RAISE_KINDS, repeat=n):
                if not any('raiser' in k for k in layout):
                    continue
                out.append({'part': 'raise', 'matching': matching,
                            'layout': list(layout), 'msgs': 3})
    return out


def run_raise_case(case):
    """Responders of one dispatcher on one path, some of which raise after
    logging; the same message is delivered `msgs` times.  Decided by the
    statement: nobody fires twice for one message, responders created before
    the first raising one fire, a one-shot responder fires at most once ever
    (also when its function raised), firing order is creation order, and the
    next datagram is still processed.  Not decided (don't-care): whether the
    responders after a raising one see that message."""
    from mc import seams, vthreading as vt
    env = _env()
    ex = seams.Execution()
    S = vt.SCHED
    OscFunc = env['rsp'].OscFunc
    log = []
    rs = []
    dis = []

    def cb(i, raises):
        def f(msg, time, addr, port):
            log.append(i)
            if raises:
                raise RuntimeError('user function failed')
        return f
    try:
        for i, kind in enumerate(case['layout']):
            f = cb(i, 'raiser' in kind)
            r = OscFunc.matching(f, '/a') if case['matching'] \
                else OscFunc(f, '/a')
            if kind.startswith('oneshot'):
                r.one_shot()
            rs.append(r)
        S.idle()
        state = ['live'] * len(rs)      # live | spent | maybe (one-shots)
        total = [0] * len(rs)
        data = osc10.encode_message('/a', [1])
        iface = env['main']._osc_interface
        obs_all = []
        for d in range(case['msgs']):
            S.sleep(DT, exact=True)
            mark = len(log)
            try:
                iface._handle_request(data, (A[0], A[1]))
                S.idle()
            except (vt.Deadlock, vt.Livelock) as e:
                dis.append(('raise-deliver-blocks', 'returns',
                            type(e).__name__, str(e)))
                break
            except Exception as e:
                dis.append(('raise-deliver-raises-into-receiver', 'returns',
                            type(e).__name__, str(e)[:200]))
            obs = log[mark:]
            obs_all.append(list(obs))
            must, may = [], []
            stopped = False
            for i, kind in enumerate(case['layout']):
                one = kind.startswith('oneshot')
                if state[i] == 'spent':
                    continue
                if stopped or state[i] == 'maybe':
                    may.append(i)
                    if 'raiser' in kind and i in obs:
                        stopped = True      # it ran, and it raised
                else:
                    must.append(i)
                    if 'raiser' in kind:
                        stopped = True
            detail = f'delivery {d + 1}: must {must} may {may}; all ' \
                     f'deliveries so far {obs_all}'
            if len(set(obs)) != len(obs):
                dis.append(('raise-fired-twice-for-one-message', must, obs,
                            detail))
            for i in obs:
                if i not in must and i not in may:
                    dis.append(('raise-oneshot-fired-again'
                                if case['layout'][i].startswith('oneshot')
                                else 'raise-extra', must, obs, detail))
            for i in must:
                if i not in obs:
                    dis.append(('raise-missed-before-raising-responder',
                                must, obs, detail))
            if obs != sorted(obs):
                dis.append(('raise-order', sorted(obs), obs, detail))
            for i in set(obs):
                total[i] += 1
                if case['layout'][i].startswith('oneshot'):
                    if total[i] > 1 and not any(
                            x[0] == 'raise-oneshot-fired-again' for x in dis):
                        dis.append(('raise-oneshot-fired-again', 1, total[i],
                                    detail))
                    state[i] = 'spent'
            for i in may:
                if i not in obs and case['layout'][i].startswith('oneshot') \
                        and state[i] == 'live':
                    state[i] = 'maybe'
    finally:
        _restore_responders(env, rs)
        problems = ex.finish()
    for pr in problems:
        dis.append(('rt-teardown-problem', [], pr, ''))
    return dis, obs_all


def raise_work(job):
    acc = progenum.Acc(max_samples=2)
    cases = raise_cases()
    for k, case in enumerate(cases):
        if k % job['of'] != job['shard']:
            continue
        dis, obs = run_raise_case(case)
        for kind, exp, o, detail in dis:
            acc.violation(kind, case, exp, o, detail,
                          size=len(case['layout']))
        acc.case(case, len(case['layout']) > 1, obs, steps=case['msgs'])
    return acc.result()


# =============================================================================
# (4) registries

def _labelled(label, log, with_server=None):
    if with_server is None:
        def f(*args):
            log.append([label, _jsonable(args)])
    else:
        def f(server, *args):
            log.append([label, with_server(server), _jsonable(args)])
    f._c18 = label
    return f


class SystemActionSys:
    """params: {'cls': 'CmdPeriod' | 'StartUp' | 'ShutDown'}"""
    ACTIONS = ['a0', 'a1', 'a2']
    ONCE = ['d0', 'd1']

    def __init__(self, params, dry=False):
        self.p = params
        self.dry = dry
        self.ref = registry_ref.SystemActionRef()
        self.last = None
        self.closed = False
        self.once = params['cls'] == 'CmdPeriod'
        if dry:
            return
        self.env = _env()
        self.cls = getattr(self.env['sac'], params['cls'])
        self.ex = None
        if self.once:       # CmdPeriod.run() clears the real clocks
            from mc import seams
            self.ex = seams.Execution()
        self.saved = self.cls._actions
        self.saved_done = getattr(self.cls, 'done', None)
        self.cls.remove_all()
        self.log = []
        self.fn = {a: _labelled(a, self.log)
                   for a in self.ACTIONS + self.ONCE}

    @staticmethod
    def _args(label):
        return [int(label[1]), label]

    def ops(self):
        o = [['add', a] for a in self.ACTIONS]
        o += [['remove', a] for a in self.ACTIONS]
        if self.once:
            o += [['do_once', d] for d in self.ONCE]
        o += [['run'], ['remove_all']]
        return o

    def apply(self, op):
        name = op[0]
        ref = self.ref
        groups = None
        if name == 'add':
            ref.add(op[1], self._args(op[1]))
        elif name == 'remove':
            ref.remove(op[1])
        elif name == 'do_once':
            ref.do_once(op[1], self._args(op[1]))
        elif name == 'remove_all':
            ref.remove_all()
        elif name == 'run':
            groups = ref.run()
        else:
            raise core.HarnessError(f'bad op {op}')
        if self.dry:
            return []
        cls = self.cls
        del self.log[:]
        try:
            if name in ('add', 'do_once'):
                getattr(cls, name)(self.fn[op[1]], *self._args(op[1]))
            elif name == 'remove':
                cls.remove(self.fn[op[1]])
            else:
                getattr(cls, name)()
            if self.ex is not None:
                from mc import vthreading as vt
                vt.SCHED.idle()
        except Exception as e:
            return [('sysact-op-raises', 'returns', type(e).__name__,
                     f'{op}: {e}')]
        obs = [list(x) for x in self.log]
        dis = []
        if name != 'run':
            if obs:
                dis.append(('sysact-runs-outside-run', [], obs, str(op)))
            return dis
        self.last = obs
        lab = [[dict(e, key=e['key'][-1]) for e in g] for g in groups]
        res = registry_ref.check_run(lab, [x[0] for x in obs])
        detail = f'registered (reference): {ref.key()} before the run: ' \
                 f'{[[e["key"], e["first"], e["last"]] for e in lab[0]]}'
        if res is not None:
            dis.append((f'sysact-run-{res[0]}',
                        [e['key'] for e in lab[0]], [x[0] for x in obs],
                        detail))
        for label, args in obs:
            if args != self._args(label):
                dis.append(('sysact-args', self._args(label), args, detail))
        return dis

    def _implkey(self):
        out = []
        for fn, (args, kw) in self.cls._actions.items():
            lab = getattr(fn, '_c18', None)
            if lab is None and args and hasattr(args[0], '_c18'):
                lab = 'once:' + args[0]._c18
            out.append(lab)
        return out

    def key(self):
        return [self.ref.key(), self._implkey()]

    def nontrivial(self):
        return self.ref.nontrivial()

    def outcome(self):
        return self.last

    def close(self):
        if self.dry or self.closed:
            return []
        self.closed = True
        self.cls._actions = self.saved
        if self.saved_done is not None:
            self.cls.done = self.saved_done
        return self.ex.finish() if self.ex is not None else []


class ServerActionSys:
    """params: {'cls': 'ServerBoot' | 'ServerQuit' | 'ServerTree'}"""
    KEYS = ['s', 's2', 'all', 'default']
    ACTIONS = ['a0', 'a1']

    def __init__(self, params, dry=False):
        self.p = params
        self.dry = dry
        self.ref = registry_ref.ServerActionRef('s')
        self.last = None
        self.closed = False
        if dry:
            return
        self.env = _env()
        self.cls = getattr(self.env['sac'], params['cls'])
        srv = self.env['srv']
        self.keys = {'s': srv.Server.default, 's2': self.env['s2'],
                     'all': 'all', 'default': 'default'}
        self.saved = self.cls._servers
        self.cls.remove_all()
        self.log = []
        back = {id(srv.Server.default): 's', id(self.env['s2']): 's2'}
        self.fn = {a: _labelled(a, self.log,
                                lambda s: back.get(id(s), repr(s)))
                   for a in self.ACTIONS}

    @staticmethod
    def _args(label):
        return [int(label[1])]

    def ops(self):
        o = [['add', k, a] for k in self.KEYS for a in self.ACTIONS]
        o += [['remove', k, a] for k in self.KEYS for a in self.ACTIONS]
        o += [['remove_server', k] for k in self.KEYS]
        o += [['run', 's'], ['run', 's2']]
        return o

    def apply(self, op):
        name = op[0]
        ref = self.ref
        groups = None
        if name == 'add':
            ref.add(op[1], op[2], self._args(op[2]))
        elif name == 'remove':
            ref.remove(op[1], op[2])
        elif name == 'remove_server':
            ref.remove_server(op[1])
        elif name == 'run':
            groups = ref.run(op[1])
        else:
            raise core.HarnessError(f'bad op {op}')
        if self.dry:
            return []
        cls = self.cls
        del self.log[:]
        try:
            if name == 'add':
                cls.add(self.keys[op[1]], self.fn[op[2]], *self._args(op[2]))
            elif name == 'remove':
                cls.remove(self.keys[op[1]], self.fn[op[2]])
            elif name == 'remove_server':
                cls.remove_server(self.keys[op[1]])
            else:
                cls.run(self.keys[op[1]])
        except Exception as e:
            return [('srvact-op-raises', 'returns', type(e).__name__,
                     f'{op}: {e}')]
        obs = [list(x) for x in self.log]
        dis = []
        if name != 'run':
            if obs:
                dis.append(('srvact-runs-outside-run', [], obs, str(op)))
            return dis
        self.last = obs
        res = registry_ref.check_run(groups, [x[0] for x in obs])
        detail = f'registered (reference): {ref.key()}'
        if res is not None:
            dis.append((f'srvact-run-{res[0]}',
                        [[e['key'] for e in g] for g in groups],
                        [x[0] for x in obs], detail))
        for label, server, args in obs:
            if server != op[1] or args != self._args(label):
                dis.append(('srvact-args', [op[1], self._args(label)],
                            [server, args], detail))
        return dis

    def _implkey(self):
        back = {id(v): k for k, v in self.keys.items()
                if not isinstance(v, str)}
        out = []
        for k, acts in self.cls._servers.items():
            lab = k if isinstance(k, str) else back.get(id(k), '?')
            out.append([lab, [getattr(fn, '_c18', None) for fn in acts]])
        return sorted(out)

    def key(self):
        return [self.ref.key(), self._implkey()]

    def nontrivial(self):
        return self.ref.nontrivial()

    def outcome(self):
        return self.last

    def close(self):
        if self.dry or self.closed:
            return []
        self.closed = True
        self.cls._servers = self.saved
        return []


class _Obj:
    def __init__(self, name):
        self.name = name

    def __repr__(self):
        return self.name


class NotificationSys:
    """NotificationCenter register / unregister / notify."""
    REG = [['o0', 'm', 'l0', 'f0'], ['o0', 'm', 'l0', 'f1'],
           ['o0', 'm', 'l1', 'f0'], ['o0', 'm', 'l1', 'f1'],
           ['o0', 'n', 'l0', 'f0'], ['o1', 'm', 'l0', 'f0']]
    UNREG = [['o0', 'm', 'l0'], ['o0', 'm', 'l1'], ['o0', 'n', 'l0'],
             ['o1', 'm', 'l0'], ['o0', 'm', None], ['o0', None, None]]
    NOTIFY = [['o0', 'm'], ['o0', 'n'], ['o1', 'm']]

    def __init__(self, params, dry=False):
        self.p = params
        self.dry = dry
        self.ref = registry_ref.NotificationRef()
        self.last = None
        self.closed = False
        if dry:
            return
        from sc3.base.model import NotificationCenter
        self.nc = NotificationCenter
        self.objs = {n: _Obj(n) for n in ('o0', 'o1', 'l0', 'l1')}
        self.log = []
        log = self.log

        def mk(label):
            def f(*args):
                log.append([label] + [repr(a) if isinstance(a, _Obj) else a
                                      for a in args])
            f._c18 = label
            return f
        self.fn = {a: mk(a) for a in ('f0', 'f1')}

    def ops(self):
        return [['register'] + r for r in self.REG] + \
               [['unregister'] + u for u in self.UNREG] + \
               [['notify'] + n for n in self.NOTIFY]

    def apply(self, op):
        name = op[0]
        ref = self.ref
        groups = None
        existed = None
        if name == 'register':
            ref.register(*op[1:])
        elif name == 'unregister':
            existed = ref.exists(*op[1:])
            ref.unregister(*op[1:])
        elif name == 'notify':
            groups = ref.notify(op[1], op[2])
        else:
            raise core.HarnessError(f'bad op {op}')
        if self.dry:
            return []
        nc, ob = self.nc, self.objs
        del self.log[:]
        raised = None
        try:
            if name == 'register':
                nc.register(ob[op[1]], op[2], ob[op[3]], self.fn[op[4]])
            elif name == 'unregister':
                nc.unregister(ob[op[1]], op[2],
                              None if op[3] is None else ob[op[3]])
            else:
                nc.notify(ob[op[1]], op[2], 7)
        except Exception as e:
            raised = e
        obs = [list(x) for x in self.log]
        dis = []
        if raised is not None:
            # unregistering something that is not registered: the library
            # documents KeyError; the statement does not decide -> accepted.
            if not (name == 'unregister' and existed is False and
                    isinstance(raised, KeyError)):
                dis.append(('notif-op-raises', 'returns',
                            type(raised).__name__, f'{op}: {raised}'))
        if name != 'notify':
            if obs:
                dis.append(('notif-runs-outside-notify', [], obs, str(op)))
            return dis
        self.last = obs
        lab = [[dict(e, key=f"{e['key']}:{e['payload']}") for e in g]
               for g in groups]
        res = registry_ref.check_run(lab, [f'{x[3]}:{x[0]}' if len(x) > 3
                                           else repr(x) for x in obs])
        detail = f'registered (reference): {ref.key()}'
        if res is not None:
            dis.append((f'notif-notify-{res[0]}',
                        [e['key'] for e in lab[0]], obs, detail))
        for x in obs:
            if x[1:3] != [op[1], op[2]] or x[4:] != [7]:
                dis.append(('notif-args', [op[1], op[2], '<listener>', 7],
                            x[1:], detail))
        return dis

    def _implkey(self):
        out = []
        for o, msgs in self.nc._registrations.items():
            if not isinstance(o, _Obj):
                continue
            for m, ls in msgs.items():
                ent = [[repr(k), getattr(fn, '_c18', None)]
                       for k, fn in ls.items()]
                if ent:
                    out.append([repr(o), m, ent])
        return sorted(out)

    def key(self):
        return [self.ref.key(), self._implkey()]

    def nontrivial(self):
        return self.ref.nontrivial()

    def outcome(self):
        return self.last

    def close(self):
        if self.dry or self.closed:
            return []
        self.closed = True
        for o in self.objs.values():
            try:
                del self.nc._registrations[o]
            except KeyError:
                pass
        return []


SYSTEMS = {'resp': ResponderSys, 'sysact': SystemActionSys,
           'srvact': ServerActionSys, 'notif': NotificationSys}


# =============================================================================
# own BFS driver (histbfs has no close() hook; same contract otherwise)

def _run_history(cls, params, hist):
    """Fresh system, replay hist; -> (system, disagreements of the last op,
    log of all steps)."""
    s = cls(params)
    log = []
    dis = []
    try:
        for op in hist:
            dis = s.apply(op)
            log.append({'op': op, 'disagreements': [
                [k, repr(e), repr(o)] for k, e, o, _ in dis]})
    except BaseException:
        s.close()
        raise
    return s, dis, log


def expand(job):
    cls = SYSTEMS[job['system']]
    params = job['params']
    last = job['last']
    best = {}
    viol = {}
    nviol = 0
    tr = 0
    outcomes = set()
    for hist in job['hists']:
        d = cls(params, dry=True)
        for op in hist:
            d.apply(op)
        for op in d.ops():
            h2 = hist + [op]
            t, dis, _ = _run_history(cls, params, h2)
            try:
                k = core.digest(t.key())
                nt = bool(t.nontrivial())
                outcomes.add(core.digest(t.outcome()))
            finally:
                problems = t.close()
            if problems:
                dis = list(dis) + [('rt-teardown-problem', [], problems,
                                    'seams.Execution.finish() reported '
                                    'problems')]
            tr += 1
            ch2 = core.canon(h2)
            for kind, exp, obs, detail in dis:
                nviol += 1
                v = {'kind': kind,
                     'case': {'part': 'history', 'system': job['system'],
                              'params': params, 'history': h2},
                     'expected': exp, 'observed': obs, 'detail': detail,
                     'size': len(h2) * 1000 + len(ch2)}
                b = viol.get(kind)
                if b is None or (v['size'], core.canon(v['case'])) < \
                        (b['size'], core.canon(b['case'])):
                    viol[kind] = v
            ok = not dis and not getattr(t, 'tainted', False)
            cur = best.get(k)
            if cur is None:
                best[k] = [ch2, h2, nt, ok]
            else:
                cur[2] = cur[2] or nt
                if (not ok, ch2) < (not cur[3], cur[0]):
                    cur[0], cur[1], cur[3] = ch2, h2, ok
    children = [[None if last else b[1], k, b[2], b[3]]
                for k, b in best.items()]
    return {'children': children, 'viol': list(viol.values()), 'tr': tr,
            'nviol': nviol, 'out': sorted(outcomes)}


def run_bfs(ctx, system, params, depth, label, batch=8):
    seen = {'<root>'}
    frontier = [[]]
    states = 1
    per_level = []
    completed = 0
    for level in range(1, depth + 1):
        if not frontier:
            completed = depth
            break
        order = core.shard_order(len(frontier), ctx.seed + level)
        frontier = [frontier[i] for i in order]
        jobs = [{'system': system, 'params': params, 'last': level == depth,
                 'hists': frontier[i:i + batch]}
                for i in range(0, len(frontier), batch)]
        found = {}
        ntr = 0
        for res in ctx.map('rt', MODNAME, 'expand', jobs):
            ntr += res['tr']
            ctx.violation_count += res['nviol'] - len(res['viol'])
            for v in res['viol']:
                ctx.violation(v)
            for o in res['out']:
                ctx.outcomes.add(o)
            for h2, k, nt, ok in res['children']:
                if k in seen:
                    continue
                cur = found.get(k)
                if cur is None:
                    found[k] = [h2, nt, ok]
                else:
                    cur[1] = cur[1] or nt
                    if h2 is not None and cur[0] is not None and \
                            (not ok, core.canon(h2)) < \
                            (not cur[2], core.canon(cur[0])):
                        cur[0], cur[2] = h2, ok
                    elif h2 is None:
                        cur[2] = cur[2] or ok
        seen.update(found)
        states += len(found)
        ctx.nontrivial += sum(1 for f in found.values() if f[1])
        nxt = sorted((f[0] for f in found.values()
                      if f[2] and f[0] is not None),
                     key=lambda h: core.canon(h))
        if level >= min(depth - 1, 3):
            n = 0
            for h in nxt:
                if n >= 1 or len(ctx.samples) >= 12:
                    break
                ctx.samples.append({'part': 'history', 'system': system,
                                    'params': params, 'history': h})
                n += 1
        ctx.transitions += ntr
        ctx.evaluations += ntr
        ctx.traces += ntr
        per_level.append({'depth': level, 'frontier_in': len(frontier),
                          'transitions': ntr, 'new_states': len(found)})
        frontier = nxt
        completed = level
        if ctx.out_of_time():
            ctx.caps.append(f'{label}: time cap hit after depth {level}')
            break
    ctx.states += states
    ctx.bounds[label] = {'depth_completed': completed, 'states': states,
                         'levels': per_level}
    return states


# =============================================================================
# (2) patterns

PALPHA = 'ab/?*[]!-{},'
AALPHA = 'ab/'


def _matcher():
    try:
        from sc3.base import responders
        return responders._match_osc_address_pattern
    except Exception:           # responders not importable uninitialised
        from sc3.base._oscmatch import osc_rematch_pattern
        return osc_rematch_pattern


def addresses(maxlen):
    out = []
    for n in range(1, maxlen + 1):
        for t in itertools.product(AALPHA, repeat=n - 1):
            a = '/' + ''.join(t)
            if oscpattern.valid_address(a):
                out.append(a)
    return out


def patterns(maxlen):
    """Every text of length <= maxlen over PALPHA that starts with '/', in
    shortlex order."""
    for n in range(1, maxlen + 1):
        for t in itertools.product(PALPHA, repeat=n - 1):
            yield '/' + ''.join(t)


def check_pattern(pattern, addrs, lib):
    """-> (class, outcome string, disagreements [(kind, address, exp, obs)])"""
    cls = oscpattern.classify(pattern)
    if cls == 'ambiguous':
        return cls, None, []
    parts = oscpattern.parse(pattern) if cls == 'ok' else None
    special = any(c in pattern for c in '?*[{')
    out = []
    dis = []
    for a in addrs:
        exp = oscpattern.match_parsed(parts, a) if parts is not None \
            else False
        try:
            obs = lib(pattern, a)
            obs = bool(obs) if isinstance(obs, (bool, int)) else repr(obs)
        except Exception as e:
            obs = 'raises ' + type(e).__name__
        out.append('1' if obs is True else '0' if obs is False else 'x')
        if obs == exp:
            continue
        if isinstance(obs, str):
            # The matcher raised.  Where no match is due this is one way of
            # refusing the pattern (nothing fires; the clock thread logs it),
            # e.g. an unterminated bracket or a stray '}'.
            if exp:
                dis.append(('pattern-raises', a, exp, obs))
            continue
        if cls == 'ill':
            dis.append(('pattern-illformed-matches', a, exp, obs))
        elif obs is True:
            dis.append(('pattern-false-match' if special
                        else 'pattern-literal-false-match', a, exp, obs))
        else:
            dis.append(('pattern-false-nonmatch', a, exp, obs))
    return cls, ''.join(out), dis


def _quiet():
    import warnings
    warnings.simplefilter('ignore', FutureWarning)  # re: "possible nested set"


def pattern_work(job):
    _quiet()
    acc = progenum.Acc()
    lib = _matcher()
    addrs = addresses(job['alen'])
    pairs = 0
    best = {}
    for idx, p in enumerate(patterns(job['plen'])):
        if idx % job['of'] != job['shard']:
            continue
        cls, out, dis = check_pattern(p, addrs, lib)
        acc.count('patterns_' + cls)
        if cls == 'ambiguous':
            continue
        pairs += len(addrs)
        for kind, a, exp, obs in dis:
            rank = (len(p) * 100 + len(a), p, a)
            if kind in best and best[kind] <= rank:
                acc.nviol += 1          # counted, not the smallest
                continue
            best[kind] = rank
            acc.violation(kind, {'part': 'pattern', 'pattern': p,
                                 'address': a}, exp, obs,
                          f'pattern class {cls}', size=rank[0],
                          standalone=(
                              'from sc3.base._oscmatch import '
                              'osc_rematch_pattern\n'
                              f'print(osc_rematch_pattern({p!r}, {a!r}))'
                              f'  # OSC 1.0: {exp}'))
        acc.case({'part': 'pattern', 'pattern': p},
                 nontrivial=(cls == 'ok' and any(c in p for c in '?*[{')),
                 outcome=[cls, out], steps=len(addrs))
    acc.count('pattern_address_pairs', pairs)
    return acc.result()


# =============================================================================
# (3) datagram faults

class _MonBudget:
    """Deterministic step budget on sys.monitoring (as mc/checks/c13.py):
    counts function starts, resumes, jumps and branches."""
    TOOL = 4

    def __init__(self, limit):
        self.limit = limit
        self.n = 0

    def _cb(self, *args):
        self.n += 1
        if self.n > self.limit:
            sys.monitoring.set_events(self.TOOL, 0)
            raise progenum.StepBudgetExceeded(self.limit)

    def __enter__(self):
        mon = sys.monitoring
        ev = mon.events
        if mon.get_tool(self.TOOL) is None:
            mon.use_tool_id(self.TOOL, 'c18-step-budget')
        for e in (ev.JUMP, ev.BRANCH, ev.PY_START, ev.PY_RESUME):
            mon.register_callback(self.TOOL, e, self._cb)
        mon.set_events(self.TOOL,
                       ev.JUMP | ev.BRANCH | ev.PY_START | ev.PY_RESUME)
        return self

    def __exit__(self, *exc):
        sys.monitoring.set_events(self.TOOL, 0)
        return False


def budget(limit):
    if hasattr(sys, 'monitoring'):
        return _MonBudget(limit)
    return progenum.budget(limit)


FUTURE = 64.0       # virtual second carried by the timetag of base 'timed'
SENDER = B
OK_MSG = ['/ok', 7]
# responders present while a faulted datagram is handled.  (No matching
# responder on '/ab': the faults part must not depend on how the matcher
# treats '/a' against the longer path.)
FAULT_PATHS = [['/a', False], ['/ab', False], ['/a', True], ['/ok', False]]
OK_INDEX = 3


def fault_cases(tier):
    """Deterministic list of [origin, hex]."""
    from mc import vthreading as vt
    out = []
    bs = oscfault.bases(vt.T0 + FUTURE)
    for name in sorted(bs):
        d = bs[name]
        out.append([['base', name], d.hex()])
        for desc, x in oscfault.faults(d):
            out.append([[name] + desc, x.hex()])
    out.append([['bytes', 0], ''])
    for x in range(256):
        out.append([['bytes', 1], bytes([x]).hex()])
    for x in range(256):
        for y in range(256):
            out.append([['bytes', 2], bytes([x, y]).hex()])
    return out


def run_fault_case(case):
    """-> (class, observation dict, disagreements)"""
    from mc import seams, vthreading as vt
    env = _env()
    d = bytes.fromhex(case['hex'])
    cl = oscfault.classify(d)
    ex = seams.Execution()
    S = vt.SCHED
    rlog, raw = [], []
    main = env['main']
    OscFunc = env['rsp'].OscFunc
    mine = []
    dis = []

    def rawf(msg, time, addr, port):
        raw.append([_jsonable(msg), time, [addr.hostname, addr.port], port])

    def cb(i):
        def f(msg, time, addr, port):
            rlog.append([i, _jsonable(msg), time, [addr.hostname, addr.port],
                         port])
        return f
    try:
        for i, (path, matching) in enumerate(FAULT_PATHS):
            mine.append(OscFunc.matching(cb(i), path) if matching
                        else OscFunc(cb(i), path))
        main.add_osc_recv_func(rawf)
        iface = main._osc_interface
        S.sleep(DT, exact=True)
        now = S.now
        del env['tap'].records[:]
        bud = budget(BUDGET)
        raised = None
        with bud:
            try:
                iface._handle_request(d, (SENDER[0], SENDER[1]))
            except progenum.StepBudgetExceeded:
                pass
            except BaseException as e:      # noqa
                if isinstance(e, (KeyboardInterrupt, SystemExit, vt.Abort)):
                    raise
                raised = e
        steps = bud.n
        over = steps > BUDGET
        blocked = None
        try:
            S.idle()
        except (vt.Deadlock, vt.Livelock) as e:
            blocked = type(e).__name__
        errors = [list(x) for x in env['tap'].records]
        obs_raw = [list(x) for x in raw]
        obs_r = [list(x) for x in rlog]
        detail = (f'datagram {d!r}; class {cl}; steps {steps}; errors logged '
                  f'by the library: {errors[:3]}')
        if over:
            dis.append(('fault-step-budget-exceeded', f'<= {BUDGET} events',
                        steps, detail))
        if raised is not None:
            dis.append(('fault-raises-into-receiver', 'returns',
                        type(raised).__name__, detail))
        if blocked:
            dis.append(('fault-dispatch-blocks', 'returns', blocked, detail))
        if cl['class'] == 'unrecoverable':
            if obs_raw or obs_r:
                code = cl['why'].split(':')[0]
                dis.append((f'fault-fires-{code}', [],
                            [x[0] for x in obs_raw] or obs_r, detail))
        elif cl['class'] == 'valid' and not over and raised is None:
            exp_raw = []
            exp_r = []
            for tt, msg in cl['messages']:
                t = now if tt in (None, 1) else \
                    oscfault.timetag_to_unix(tt) - vt.T0
                exp_raw.append([_jsonable(msg), t,
                                [SENDER[0], SENDER[1]], iface.port])
                for i, (path, matching) in enumerate(FAULT_PATHS):
                    if path == msg[0]:
                        exp_r.append([i, _jsonable(msg), t,
                                      [SENDER[0], SENDER[1]], iface.port])
            # wire order is demanded among the messages of one time tag;
            # the statement does not order messages of different tags
            def by_time(lst):
                out = {}
                for x in lst:
                    out.setdefault(repr(x[1]), []).append(x)
                return out

            def untimed(lst):
                return sorted(core.canon(x[:1] + x[2:]) for x in lst)
            if by_time(obs_raw) != by_time(exp_raw):
                kind = 'fault-valid-wrong-time' \
                    if untimed(obs_raw) == untimed(exp_raw) \
                    else 'fault-valid-not-delivered'
                dis.append((kind, exp_raw, obs_raw, detail))
            elif sorted(obs_r, key=core.canon) != \
                    sorted(exp_r, key=core.canon):
                dis.append(('fault-valid-responders',
                            sorted(exp_r, key=core.canon),
                            sorted(obs_r, key=core.canon), detail))
        # the receiver must still work
        del raw[:]
        del rlog[:]
        S.sleep(DT, exact=True)
        now2 = S.now
        after = None
        try:
            iface._handle_request(osc10.encode_message(OK_MSG[0], OK_MSG[1:]),
                                  (SENDER[0], SENDER[1]))
            S.idle()
        except (vt.Deadlock, vt.Livelock) as e:
            after = type(e).__name__
        except Exception as e:
            after = 'raises ' + type(e).__name__
        want = [OK_MSG, now2, [SENDER[0], SENDER[1]], iface.port]
        if after or [list(x) for x in raw] != [want] or \
                [list(x) for x in rlog] != [[OK_INDEX] + want]:
            dis.append(('fault-next-datagram-lost', [want],
                        [after, [list(x) for x in raw],
                         [list(x) for x in rlog]], detail))
        obs = {'class': cl['class'], 'fired': [x[0] for x in obs_raw],
               'over': over, 'raised': raised is not None}
        if any(e[3] for e in errors):
            obs['fired'] = 'address-dependent'  # see ResponderSys._deliver
    finally:
        try:
            main.remove_osc_recv_func(rawf)
        except Exception:
            pass
        _restore_responders(env, mine)
        problems = ex.finish()
    if problems:
        dis.append(('rt-teardown-problem', [], problems, ''))
    return cl, obs, dis, steps


def fault_work(job):
    acc = progenum.Acc()
    cases = fault_cases(job['tier'])
    maxsteps = 0
    for idx, (origin, hx) in enumerate(cases):
        if idx % job['of'] != job['shard']:
            continue
        if origin[0] == 'bytes' and origin[1] == 2 and job['tier'] == 'quick' \
                and (idx // job['of']) % job['slice_of'] != job['slice']:
            continue
        case = {'part': 'fault', 'origin': origin, 'hex': hx}
        cl, obs, dis, steps = run_fault_case(case)
        if not obs['over']:
            maxsteps = max(maxsteps, steps)
        acc.count('fault_' + cl['class'])
        for kind, exp, ob, detail in dis:
            acc.violation(kind, case, exp, ob, detail,
                          size=len(hx) * 10 + len(core.canon(origin)),
                          standalone=(
                              'from sc3.base._osclib import OscPacket\n'
                              f'p = OscPacket(bytes.fromhex({hx!r}))  # '
                              f'{cl["class"]}: {cl.get("why", "")}\n'
                              'print([(t.message.address, t.message.params)'
                              ' for t in p.messages])'))
        acc.case(case, nontrivial=(origin[0] != 'base' and len(hx) > 4),
                 outcome=[cl['class'], obs['fired'], obs['over'],
                          sorted({d[0] for d in dis})], steps=2)
    acc.extra['max_steps_within_budget'] = [maxsteps]
    return acc.result()


# =============================================================================
# replay

def replay(job):
    case = job['case']
    part = case.get('part')
    if part == 'pattern':
        _quiet()
        cls, out, dis = check_pattern(case['pattern'], [case['address']],
                                      _matcher())
        return {'violates': any(d[0] == job['kind'] for d in dis),
                'class': cls, 'disagreements': [list(map(repr, d))
                                                for d in dis]}
    if part == 'raise':
        dis, obs = run_raise_case(case)
        return {'violates': any(d[0] == job['kind'] for d in dis),
                'deliveries': obs,
                'disagreements': [[d[0], repr(d[1]), repr(d[2])]
                                  for d in dis]}
    if part == 'fault':
        cl, obs, dis, steps = run_fault_case(case)
        return {'violates': any(d[0] == job['kind'] for d in dis),
                'class': cl['class'], 'why': cl.get('why'), 'obs': obs,
                'steps': None if obs['over'] else steps,
                'disagreements': [[d[0], repr(d[1]), repr(d[2])]
                                  for d in dis]}
    cls = SYSTEMS[case['system']]
    s, dis, log = _run_history(cls, case['params'], case['history'])
    problems = s.close()
    hit = any(k == job['kind'] for st in log
              for k, _, _ in st['disagreements'])
    if problems and job['kind'] == 'rt-teardown-problem':
        hit = True
    return {'violates': hit, 'log': log}


# =============================================================================
# known findings predicates

# (the repair of both open findings is proposed in
# /verif/fixes/C18-dispatchers-keep-proxies-in-active.patch)

def _variant_of(v, rid):
    """variant (list) with which responder `rid` of the history was made"""
    news = [op for op in v['case']['history'] if op[0] == 'new']
    return v['case']['params']['variants'][news[rid][1]] \
        if rid < len(news) else None


def shared_function_object(v):
    """at least two responders of the exact dispatcher were created with
    the same function object"""
    if v['case'].get('system') != 'resp':
        return False
    var = v['case']['params']['variants']
    n = sum(1 for op in v['case']['history']
            if op[0] == 'new' and not var[op[1]][1] and
            len(var[op[1]]) > 5 and var[op[1]][5])
    return n >= 2


def removed_by_callback_exact(v):
    """an exact responder's function frees / disables another responder"""
    if v['case'].get('system') != 'resp':
        return False
    for op in v['case']['history']:
        if op[0] == 'kill':
            var = _variant_of(v, op[1])
            if var is not None and not var[1]:
                return True
    return False


PREDICATES = {f.__name__: f for f in (shared_function_object,
                                      removed_by_callback_exact)}


# =============================================================================
# parent side

RESP_PARAMS = {
    # paths: prefix sharing, two dispatchers, wildcards that must not cross '/'
    'paths': {
        'variants': [['/a', False, None, None, None],
                     ['/a', True, None, None, None],
                     ['/ab', True, None, None, None],
                     ['/a/b', True, None, None, None]],
        'max': 3,
        'msgs': [['/a', [1], A, 0], ['/ab', [2], B, 0], ['/a*', [1], A, 0],
                 ['/?b', [1], B, 0], ['/{a,ab}', [1], A, 0]]},
    # filters: source address and argument template on one path
    'filters': {
        'variants': [['/a', False, None, None, None],
                     ['/a', False, A, None, None],
                     ['/a', False, None, None, [1]],
                     ['/a', True, A, None, [1]]],
        'max': 3,
        'msgs': [['/a', [1], A, 0], ['/a', [1], B, 0], ['/a', [2], A, 0],
                 ['/a', [], A, 0]]},
    # identity: responders that share one function object, and a function
    # that frees / disables another responder while a message is dispatched
    'identity': {
        'variants': [['/a', False, None, None, None, True],
                     ['/a', False, None, None, None],
                     ['/a', True, None, None, None, True]],
        'max': 3, 'kill': True,
        'msgs': [['/a', [1], A, 0]]},
    # ports: receive port filter, second interface; an ill-formed pattern
    'ports': {
        'variants': [['/a', False, None, None, None],
                     ['/a', False, None, PORT2, None],
                     ['/a', True, None, PORT2, None],
                     ['a', True, None, None, None]],
        'max': 3,
        'msgs': [['/a', [1], A, 0], ['/a', [1], A, 1], ['/a[', [1], A, 0],
                 ['/[!b]', [1], B, 1]]},
    # both: source address (with and without a port) together with a
    # receive port, every sender x port combination
    'both': {
        'variants': [['/a', False, [HOST, None], PORT2, None],
                     ['/a', False, A, PORT2, None],
                     ['/a', True, [HOST, None], PORT2, [1]],
                     ['/a', False, [HOST, None], None, None]],
        'max': 3,
        'msgs': [['/a', [1], A, 0], ['/a', [1], A, 1], ['/a', [1], B, 1],
                 ['/a', [2], B, 0]]},
}


def _timed(ctx, label, t0):
    import time
    ctx.extra.setdefault('wall_s_by_part', {})[label] = \
        round(time.time() - t0, 1)
    return time.time()


def main(ctx):
    import time
    t0 = time.time()
    quick = ctx.tier == 'quick'
    ctx.rule = (
        'histories (E2): BFS over all operation histories up to the depth '
        'given in bounds, on real OscFunc / registry objects, states '
        'deduplicated on (reference state with registration ranks, '
        'dispatcher/registry contents of the library); non-trivial = some '
        'responder or registered action changed life-cycle state at least '
        'twice (creation/registration counts as the first change). '
        'patterns (E1): every text over the pattern alphabet up to the '
        'length bound x every valid address; one evaluation = one pattern '
        'against all addresses; non-trivial = well-formed and contains one of '
        '? * [ {. faults (E4): every single fault of the menu on each base '
        'datagram plus all short byte strings; non-trivial = a faulted '
        'datagram of more than 2 bytes.')
    ctx.assumptions += [
        'oracles written from the OSC 1.0 specification and the property '
        'statement: mc/oracles/oscpattern.py (part-wise, whole-address '
        'matching), dispatch_ref.py, registry_ref.py, oscfault.py, osc10.py',
        'RT-virtual mode (mc/seams.py): real SystemClock thread under the '
        'cooperative scheduler, default schedule, virtual time; datagrams '
        'enter through OscInterface._handle_request (no socket)',
        'order is demanded only between responders of one dispatcher / '
        'actions of one registry whose creation and latest registration '
        'ranks agree; exact-vs-matching order is a don\'t-care',
        'ambiguous pattern texts and lenient datagram faults (see the '
        'oracle docstrings) are don\'t-cares apart from: no exception, no '
        'hang, next datagram still delivered',
        f'step budget {BUDGET} sys.monitoring events per datagram '
        '(PY_START, PY_RESUME, JUMP, BRANCH)']
    of = 64
    # (2) patterns first: cheapest, own pool
    plen, alen = (5, 5) if quick else (6, 6)
    ctx.extra['pattern_alphabet'] = PALPHA
    ctx.extra['addresses'] = len(addresses(alen))
    progenum.run(ctx, MODNAME, 'pattern_work',
                 [{'shard': i, 'of': of, 'plen': plen, 'alen': alen}
                  for i in range(of)], mode='import',
                 bound=f'patterns: length <= {plen} x valid addresses of '
                       f'length <= {alen}')
    ctx.close()
    t0 = _timed(ctx, 'patterns', t0)
    # (3) faults
    slice_of = 8
    jobs = [{'shard': i, 'of': of, 'tier': ctx.tier, 'slice_of': slice_of,
             'slice': core.pick_slice(ctx.seed, slice_of)}
            for i in range(of)]
    progenum.run(ctx, MODNAME, 'fault_work', jobs, mode='rt',
                 bound='faults: all truncations / int32 fields / type tags '
                       f'of {len(oscfault.bases(0.0))} base datagrams, byte '
                       'strings of length <= ' +
                       ('1 (+ 1/8 slice of length 2)' if quick else '2'))
    ms = ctx.extra.pop('max_steps_within_budget', [])
    ctx.extra['max_steps_within_budget'] = max(ms) if ms else 0
    t0 = _timed(ctx, 'faults', t0)
    # (1) responder histories
    depth = 4 if quick else 6
    for name in sorted(RESP_PARAMS):
        run_bfs(ctx, 'resp', RESP_PARAMS[name], depth,
                f'responders/{name}: depth {depth}')
    progenum.run(ctx, MODNAME, 'raise_work',
                 [{'shard': i, 'of': 16} for i in range(16)], mode='rt',
                 bound='responders whose function raises: all layouts of <=3 '
                       'responders over plain/raiser/oneshot/oneshot-raiser, '
                       'both dispatchers, 3 deliveries')
    t0 = _timed(ctx, 'responders', t0)
    # (4) registries
    d = 5 if quick else 6
    for cname in ('CmdPeriod', 'StartUp', 'ShutDown'):
        run_bfs(ctx, 'sysact', {'cls': cname}, d,
                f'registry/{cname}: depth {d}', batch=16)
    d = 4 if quick else 5
    for cname in ('ServerBoot', 'ServerQuit', 'ServerTree'):
        run_bfs(ctx, 'srvact', {'cls': cname}, d,
                f'registry/{cname}: depth {d}', batch=16)
    d = 4 if quick else 6
    run_bfs(ctx, 'notif', {}, d,
            f'registry/NotificationCenter: depth {d}', batch=16)
    _timed(ctx, 'registries', t0)
