"""C18 - incoming messages reach exactly the responders that should fire;
malformed datagrams are harmless; callback registries run exactly what is
registered, in order.

Parts (DESIGN.md section 5, C18):

(1) responder histories  E2 (own BFS driver, systems have close()), mode 'rt'
    (RT-virtual, default schedule): real OscFunc objects, datagrams encoded by
    the strict OSC 1.0 codec, delivered through the real
    OscInterface._handle_request and dispatched by the real SystemClock
    thread; invocation log against mc/oracles/dispatch_ref.py.  Families:
    paths, filters, identity (shared function objects, callbacks that free /
    disable), ports, both (source + receive port; senders on two hosts),
    permanent (responders that persist beyond CmdPeriod), cmdperiod (user
    actions of CmdPeriod that declare a responder permanent / free / disable
    it; CmdPeriod.run and hard_run).
(1b) responders whose function raises (one dispatcher).
(1c) filter matrix        E1, mode 'rt': ONE responder - creation route
    (constructor, OscFunc.matching, dispatcher=, the oscfunc decorator, a
    dispatcher object of its own) x path spelling x function arity x source
    address x receive port x argument template (scalar, wildcard, falsy
    value, strings, floats, user functions) x preparation (none, function
    replaced, one_shot, disable/enable) x delivery (single messages, bundles)
    - against every message of a product address x arguments x sender (two
    hosts) x port.
(2) patterns             E1, mode 'import': every pattern text of length <= L
    over a pattern alphabet x every valid address of length <= L over an
    address alphabet, for the families of PFAMILIES: the matcher used by
    responders.py against mc/oracles/oscpattern.py.
(3) datagram faults      E4, mode 'rt': every truncation / int32 field value /
    type tag substitution of the base datagrams, all byte strings of length
    <= 2, each under a deterministic step budget; classification by
    mc/oracles/oscfault.py.
(3b) transport loops     E1, mode 'rt': the library's own
    OscUdpInterface._udp_run / OscTcpInterface._tcp_run (a private second
    load of _oscinterface.py; seams replaced the module attribute) run
    synchronously on a scripted socket: every sequence of <=3 datagrams /
    frames of a menu (valid ones, unrecoverable ones, empty datagrams from
    other peers; TCP: frames of size zero, frames that arrive in two pieces,
    framing-destroying length prefixes) followed by a valid one and the
    own-address sentinel / end of stream.  Every valid one must be delivered
    once, in order; nothing may escape the loop; the loop ends only there.
(4) registries           E2, mode 'rt': CmdPeriod/StartUp/ShutDown (add with
    positional and keyword arguments, remove, remove_all, run, do_once,
    hard_run, defer, an action that removes another one), ServerBoot/
    ServerQuit/ServerTree, NotificationCenter (register, register_one_shot,
    unregister, notify, registration_exists, clear) against
    mc/oracles/registry_ref.py.
"""

import sys
import itertools

from mc import core
from mc.engines import progenum
from mc.oracles import osc10, oscpattern, oscfault, dispatch_ref, registry_ref

MODNAME = 'mc.checks.c18'
MODE = 'rt'


def REPLAY_MODE(v):
    return 'import' if v['case'].get('part') == 'pattern' else 'rt'


HOST = '127.0.0.1'
A = [HOST, 57200]           # sender A (the src_id of filtered responders)
B = [HOST, 57201]           # sender B
PORT2 = 57121               # second local port (recv_port filter)
BUDGET = 60000              # monitoring events allowed for one datagram
DT = 0.5                    # virtual seconds between two deliveries


# =============================================================================
# worker environment (mode 'rt')

_ENV = {}


class _ErrTap:
    """Captures error records of the sc3 loggers (the library logs instead of
    raising in its clock threads and in the receiver)."""

    def __init__(self):
        import logging

        tap = self

        class H(logging.Handler):
            def emit(self, record):
                et = record.exc_info[0].__name__ if record.exc_info and \
                    record.exc_info[0] else None
                ev = str(record.exc_info[1])[:120] if record.exc_info and \
                    record.exc_info[1] is not None else None
                # which dispatcher was running when the exception arose
                # (observation only: `self` of the frames of the traceback)
                groups = []
                tb = record.exc_info[2] if record.exc_info else None
                while tb is not None:
                    me = tb.tb_frame.f_locals.get('self')
                    for g, d in zip(('exact', 'matching'), tap.disp):
                        if me is d and g not in groups:
                            groups.append(g)
                    tb = tb.tb_next
                tap.records.append([record.name, et, ev, groups])
        self.records = []
        self.disp = ()
        lg = logging.getLogger('sc3')
        lg.setLevel(logging.ERROR)
        lg.propagate = False
        lg.addHandler(H())


def _env():
    """Once per worker: second server, second interface, error tap, and the
    baseline of every global registry the systems touch."""
    if _ENV:
        return _ENV
    from mc import seams
    from sc3.base.main import main
    from sc3.base import _oscinterface as osci
    from sc3.base import responders as rsp
    from sc3.base import systemactions as sac
    from sc3.base.netaddr import NetAddr
    from sc3.synth import server as srv
    ex = seams.Execution()
    s2 = srv.Server('c18b', NetAddr(HOST, 57333))
    iface2 = osci.OscUdpInterface(PORT2)        # the capture class of seams
    iface2.start()
    ex.finish()
    _ENV.update(main=main, osci=osci, rsp=rsp, sac=sac, srv=srv, s2=s2,
                iface2=iface2, tap=_ErrTap(), NetAddr=NetAddr)
    disp = (rsp.OscFunc._default_dispatcher,
            rsp.OscFunc._default_matching_dispatcher)
    _ENV['disp'] = disp
    _ENV['tap'].disp = disp
    _ENV['base'] = {
        'recv': set(osci.OscInterface._recv_functions),
        'disp': [({k: list(v) for k, v in d.active.items()},
                  dict(d.wrapped_funcs), d.registered) for d in disp],
        'proxies': set(rsp.OscFunc._all_func_proxies),
        'cmdp': dict(sac.CmdPeriod._actions),
    }
    return _ENV


def _restore_responders(env, mine):
    """Put the global responder state back to the worker's baseline."""
    from sc3.base.model import NotificationCenter as NC
    base = env['base']
    recv = env['osci'].OscInterface._recv_functions
    recv.clear()
    recv.update(base['recv'])
    for d, (active, wrapped, reg) in zip(env['disp'], base['disp']):
        d.active = {k: list(v) for k, v in active.items()}
        d.wrapped_funcs = dict(wrapped)
        d.registered = reg
    px = env['rsp'].OscFunc._all_func_proxies
    px.clear()
    px.update(base['proxies'])
    acts = env['sac'].CmdPeriod._actions
    acts.clear()
    acts.update(base['cmdp'])
    for r in mine:
        r.enabled = False
        try:
            del NC._registrations[r]
        except KeyError:
            pass


def _jsonable(v):
    if isinstance(v, (list, tuple)):
        return [_jsonable(x) for x in v]
    if isinstance(v, (bytes, bytearray, memoryview)):
        return {'bytes': bytes(v).hex()}
    if isinstance(v, float) and v != v:
        return 'nan'
    if isinstance(v, (bool, int, float, str)) or v is None:
        return v
    return repr(v)


# =============================================================================
# (1) responder histories

class ResponderSys:
    """params: {'variants': [[path, matching, src, recv_port, tmpl(, shared)],
                             ...],
                'max': n, 'msgs': [[address, args, sender, via], ...],
                'kill': bool, 'permanent': bool, 'cpacts': [...],
                'hard': bool}
    via 0 = the main interface, 1 = the second interface (PORT2).
    shared: the responder is created with the one function object that all
    `shared` responders of its dispatcher have in common (log entries of that
    function carry no responder id; they are attributed to the responders that
    still own it, in the order the reference expects them).
    kill: the menu offers ['kill', i, j, how]: responder i gets a function that
    logs and then calls j.free() / j.disable() (at most one such responder).
    permanent: the menu offers ['permanent', i, bool] on live responders
    (a permanent responder persists beyond CmdPeriod).
    cpacts: [[how, j], ...]: the menu offers ['cpact', k] (once each): a
    user action is registered in CmdPeriod which, whenever CmdPeriod runs,
    declares responder j permanent / frees it / disables it.
    hard: the menu also offers ['hard_cmdp'] (CmdPeriod.hard_run)."""

    def __init__(self, params, dry=False):
        self.p = params
        self.dry = dry
        self.ref = dispatch_ref.Model()
        self.last = None
        self.closed = False
        self.tainted = False
        if dry:
            return
        from mc import seams, vthreading as vt
        self.env = _env()
        self.vt = vt
        self.ex = seams.Execution()
        self.rs = []
        self.log = []
        log = self.log

        def mk_shared(tag):
            def shared(msg, time, addr, port):
                log.append([tag, 0, _jsonable(msg), time,
                            [getattr(addr, 'hostname', None),
                             getattr(addr, 'port', None)], port])
            return shared
        # one shared object per dispatcher (the order in which the two
        # dispatchers run is not decided, so entries of an object shared
        # across them could not be attributed)
        self.shared_f = {False: mk_shared('S-exact'),
                         True: mk_shared('S-matching')}

    # ---- menu (depends on the reference state only) -------------------------
    def ops(self):
        o = []
        if len(self.ref.rs) < self.p['max']:
            o += [['new', i] for i in range(len(self.p['variants']))]
        for i, r in enumerate(self.ref.rs):
            if not self.ref.live(i):
                continue        # nothing is offered on freed/spent responders
            o += [['enable', i], ['disable', i], ['free', i]]
            if not r.oneshot:
                o += [['one_shot', i], ['func', i]]
        if self.p.get('kill') and \
                not any(r.kills for r in self.ref.rs):
            for i, r in enumerate(self.ref.rs):
                if not self.ref.live(i) or r.oneshot:
                    continue
                for j in range(len(self.ref.rs)):
                    if j != i and self.ref.live(j):
                        o += [['kill', i, j, 'free'],
                              ['kill', i, j, 'disable']]
        if self.p.get('permanent'):
            for i, r in enumerate(self.ref.rs):
                if self.ref.live(i):
                    o.append(['permanent', i, not r.permanent])
        done = {a['k'] for a in self.ref.cp_actions}
        o += [['cpact', k] for k in range(len(self.p.get('cpacts', ())))
              if k not in done]
        o.append(['cmdp'])
        if self.p.get('hard'):
            o.append(['hard_cmdp'])
        o += [['msg', k] for k in range(len(self.p['msgs']))]
        return o

    def _cb(self, rid, ver):
        log = self.log

        def f(msg, time, addr, port):
            log.append([rid, ver, _jsonable(msg), time,
                        [getattr(addr, 'hostname', None),
                         getattr(addr, 'port', None)], port])
        return f

    def _cb_kill(self, rid, ver, j, how):
        log = self.log
        rs = self.rs

        def f(msg, time, addr, port):
            log.append([rid, ver, _jsonable(msg), time,
                        [getattr(addr, 'hostname', None),
                         getattr(addr, 'port', None)], port])
            if rs[j] is not None:
                getattr(rs[j], how)()
        return f

    # ---- one step -------------------------------------------------------------
    def apply(self, op):
        name = op[0]
        ref = self.ref
        if name == 'msg':
            return self._deliver(op[1])
        if name == 'new':
            var = self.p['variants'][op[1]]
            path, matching, src, rport, tmpl = var[:5]
            shared = len(var) > 5 and var[5]
            r = ref.create(path, matching, src, rport, tmpl, shared)
            if self.dry:
                return []
            OscFunc = self.env['rsp'].OscFunc
            sid = None if src is None else self.env['NetAddr'](src[0], src[1])
            f = self.shared_f[bool(matching)] if shared \
                else self._cb(r.rid, 0)

            def call():
                if matching:
                    return OscFunc.matching(f, path, sid, rport,
                                            arg_template=tmpl)
                return OscFunc(f, path, sid, rport, arg_template=tmpl)
            dis, obj = self._guard(op, call)
            self.rs.append(obj)
            return dis
        if name in ('cmdp', 'hard_cmdp'):
            ref.cmd_period()
            if ref.undecided:
                self.tainted = True     # resulting state not decided
            if self.dry:
                return []
            cp = self.env['sac'].CmdPeriod
            return self._guard(
                op, cp.run if name == 'cmdp' else cp.hard_run)[0]
        if name == 'cpact':
            how, j = self.p['cpacts'][op[1]]
            ref.add_cp_action(op[1], how, j)
            if self.dry:
                return []
            rs = self.rs

            def act():
                if j < len(rs) and rs[j] is not None:
                    if how == 'permanent':
                        rs[j].permanent = True
                    else:
                        getattr(rs[j], how)()
            act._c18cp = op[1]
            return self._guard(
                op, lambda: self.env['sac'].CmdPeriod.add(act))[0]
        i = op[1]
        if name == 'enable':
            ref.enable(i)
        elif name == 'disable':
            ref.disable(i)
        elif name == 'free':
            ref.free(i)
        elif name == 'one_shot':
            ref.one_shot(i)
        elif name == 'func':
            ref.replace_func(i)
        elif name == 'kill':
            ref.set_killer(i, op[2], op[3])
        elif name == 'permanent':
            ref.set_permanent(i, op[2])
        else:
            raise core.HarnessError(f'bad op {op}')
        if self.dry:
            return []
        obj = self.rs[i]
        if obj is None:
            return []
        if name == 'permanent':
            return self._guard(
                op, lambda: setattr(obj, 'permanent', bool(op[2])))[0]
        if name == 'kill':
            f = self._cb_kill(i, ref.rs[i].ver, op[2], op[3])
            return self._guard(op, lambda: setattr(obj, 'func', f))[0]
        if name == 'func':
            f = self._cb(i, ref.rs[i].ver)
            return self._guard(op, lambda: setattr(obj, 'func', f))[0]
        return self._guard(op, getattr(obj, name))[0]

    def _guard(self, op, call):
        vt = self.vt
        try:
            res = call()
            vt.SCHED.idle()
            return [], res
        except (vt.Deadlock, vt.Livelock) as e:
            return [('resp-op-blocks', 'returns', type(e).__name__,
                     f'{op}: {e}')], None
        except Exception as e:
            return [('resp-op-raises', 'returns', type(e).__name__,
                     f'{op}: {e}')], None

    def _deliver(self, k):
        address, args, sender, via = self.p['msgs'][k]
        ref = self.ref
        port = PORT2 if via else None
        if self.dry:
            try:
                ref.deliver(address, args, sender, port or 57120)
            except oscpattern.Ambiguous:
                pass
            return []
        env, vt = self.env, self.vt
        S = vt.SCHED
        iface = env['iface2'] if via else env['main']._osc_interface
        port = iface.port
        data = osc10.encode_message(address, args)
        S.sleep(DT, exact=True)
        now = S.now
        groups_enabled = {r.matching for r in ref.rs if r.state == 'enabled'}
        try:
            fired = ref.deliver(address, args, sender, port)
        except oscpattern.Ambiguous:
            fired = None
        mark = len(self.log)
        del env['tap'].records[:]
        dis = []
        try:
            iface._handle_request(data, (sender[0], sender[1]))
            S.idle()
        except (vt.Deadlock, vt.Livelock) as e:
            dis.append(('resp-deliver-blocks', 'returns', type(e).__name__,
                        str(e)))
        except BaseException as e:
            if isinstance(e, (KeyboardInterrupt, SystemExit, vt.Abort)):
                raise
            dis.append(('resp-deliver-raises', 'returns',
                        type(e).__name__, str(e)[:200]))
        obs = [list(e) for e in self.log[mark:]]
        errors = [list(x) for x in env['tap'].records]
        if fired is not None:
            # entries of the shared function object: attributed to the
            # responders that still own it, in the order they are expected
            owners = {}
            for opt in (False, True):
                for f in fired:
                    if f['shared'] and f['optional'] == opt:
                        owners.setdefault('S-' + f['group'], []).append(
                            f['rid'])
            for rid in ref.last_killed:     # surplus entries: these first
                if ref.rs[rid].shared:
                    owners.setdefault(
                        'S-matching' if ref.rs[rid].matching else 'S-exact',
                        []).append(rid)
            # Which owner made which call cannot be observed (same function
            # object, same arguments): when exactly the expected number of
            # calls was made, take an attribution that satisfies the demanded
            # order if there is one.
            tags = sorted({e[0] for e in obs if isinstance(e[0], str)})
            mand = {t: [f['rid'] for f in fired if f['shared'] and
                        not f['optional'] and 'S-' + f['group'] == t]
                    for t in tags}
            if tags and all(
                    sum(1 for e in obs if e[0] == t) == len(mand[t])
                    for t in tags):
                for perm in itertools.product(
                        *[itertools.permutations(mand[t]) for t in tags]):
                    it = {t: iter(p) for t, p in zip(tags, perm)}
                    ids = [next(it[e[0]]) if isinstance(e[0], str) else e[0]
                           for e in obs]
                    if not dispatch_ref.check_order(fired, ids):
                        for e, rid in zip(obs, ids):
                            e[0] = rid
                        break
            for e in obs:
                if isinstance(e[0], str):
                    own = owners.get(e[0])
                    e[0] = own.pop(0) if own else 'S+'
        # (outcome statistic: exact before matching responders - the order
        # between the two dispatchers depends on object addresses)
        self.last = ['msg', k, sorted(
            ([e[0], e[1]] for e in obs),
            key=lambda x: ref.rs[x[0]].matching
            if isinstance(x[0], int) and x[0] < len(ref.rs) else 2)]
        if ref.last_optional:
            self.tainted = True     # resulting state not decided: not extended
        if any(e[3] for e in errors):
            # An exception escaped from a dispatcher: the loop over the *set*
            # OscInterface._recv_functions was aborted, so whether the other
            # dispatcher saw the message depends on object addresses
            # (DESIGN.md section 6: no deterministic oracle).  From here on
            # the library state is not a function of the history: the
            # history is not extended (see `expand`), and the delivery is
            # judged only when all enabled responders sit in one dispatcher
            # (then nothing depends on the order of the set).
            self.tainted = True
            self.last = ['msg', k, 'address-dependent']
            if len(groups_enabled) > 1:
                return dis
        if fired is None:
            return dis          # meaning of the pattern is a don't-care
        detail = (f'message {[address] + list(args)} from {sender} on port '
                  f'{port}; responders {ref.key()}; errors logged by the '
                  f'library during dispatch: {errors}')
        exp_ids = [f['rid'] for f in fired]
        obs_ids = [e[0] for e in obs]
        expd = {f['rid']: f for f in fired}
        want = [address] + list(args)
        seen = set()
        for e in obs:
            rid = e[0]
            if rid == 'S+':
                dis.append(('resp-extra-shared-function', exp_ids, obs_ids,
                            detail))
                continue
            r = ref.rs[rid]
            if rid not in expd:
                state_before = r.state
                if rid in ref.last_killed:
                    kind = 'resp-fired-after-removed-by-callback'
                elif state_before != 'enabled':
                    kind = 'resp-fired-while-' + state_before
                elif not ref.path_accepts(r, address):
                    kind = 'resp-extra-matching-path' if r.matching \
                        else 'resp-extra-exact-path'
                else:
                    kind = 'resp-extra-filter-ignored'
                dis.append((kind, exp_ids, obs_ids, detail))
                continue
            if rid in seen:
                dis.append(('resp-fired-twice', exp_ids, obs_ids, detail))
                continue
            seen.add(rid)
            if e[1] != expd[rid]['ver']:
                dis.append(('resp-stale-function', expd[rid]['ver'], e[1],
                            detail))
            got = [e[2], e[3], e[4], e[5]]
            exp = [_jsonable(want), now, [sender[0], sender[1]], port]
            if got != exp:
                dis.append(('resp-payload', exp, got, detail))
        for f in fired:
            if f['rid'] in seen or f['optional']:
                continue
            r = ref.rs[f['rid']]
            shot = [g['rid'] for g in fired
                    if ref.rs[g['rid']].oneshot and g['rid'] != f['rid'] and
                    g['group'] == f['group'] and
                    ref.rs[g['rid']].path == r.path]
            if errors:
                kind = 'resp-missed-dispatch-error'
            elif shot:
                kind = 'resp-missed-after-oneshot'
            elif r.survived_dd:
                kind = 'resp-missed-permanent-declared-while-disabled'
            elif r.permanent and r.survived:
                kind = 'resp-missed-permanent'
            else:
                kind = 'resp-missed'
            dis.append((kind, exp_ids, obs_ids, detail))
        # (with an optional responder - one that a function of the other
        # dispatcher removes - entries of a shared function object cannot be
        # attributed reliably: no order is demanded for that delivery)
        bad = [] if ref.last_optional else \
            dispatch_ref.check_order(fired, obs_ids)
        if bad:
            g = expd[bad[0][0]]['group']
            dis.append((f'resp-order-{g}', exp_ids, obs_ids,
                        f'demanded before: {bad}; ' + detail))
        return dis

    # ---- state ------------------------------------------------------------------
    def _implkey(self):
        env = self.env
        mine = {id(r): i for i, r in enumerate(self.rs) if r is not None}
        out = []
        for d, (bact, _, _) in zip(env['disp'], env['base']['disp']):
            # the lists of `active` hold wrapped functions or the responders
            # themselves, depending on the version of the library
            fmap = dict(mine)
            for px, fn in d.wrapped_funcs.items():
                if id(px) in mine:
                    fmap.setdefault(id(fn), mine[id(px)])
            bids = {id(fn) for fns in bact.values() for fn in fns}
            act = []
            for path in sorted(d.active):
                ids = [fmap[id(fn)] if id(fn) in fmap else
                       'base' if id(fn) in bids else 'stale'
                       for fn in d.active[path]]
                if any(x != 'base' for x in ids):
                    act.append([path, ids])
            out.append([act, sorted(mine[id(px)] for px in d.wrapped_funcs
                                    if id(px) in mine), bool(d.registered)])
        cp = []
        for fn in env['sac'].CmdPeriod._actions:
            o = getattr(fn, '__self__', None)
            if id(o) in mine:
                cp.append(mine[id(o)])
            elif hasattr(fn, '_c18cp'):
                cp.append(['act', fn._c18cp])
        en = [None if r is None else bool(r.enabled) for r in self.rs]
        px = sorted(mine[id(r)] for r in env['rsp'].OscFunc._all_func_proxies
                    if id(r) in mine)
        return [out, cp, en, px]

    def key(self):
        if self.tainted:
            return [self.ref.key(), 'address-dependent']
        return [self.ref.key(), self._implkey()]

    def nontrivial(self):
        return self.ref.nontrivial()

    def outcome(self):
        return self.last

    def close(self):
        if self.dry or self.closed:
            return []
        self.closed = True
        _restore_responders(self.env, [r for r in self.rs if r is not None])
        return self.ex.finish()


# =============================================================================
# (1b) responders whose function raises (single dispatcher: deterministic)

RAISE_KINDS = ['plain', 'raiser', 'oneshot', 'oneshot-raiser']


def raise_cases():
    out = []
    for matching in (False, True):
        for n in (1, 2, 3):
            for layout in itertools.product(RAISE_KINDS, repeat=n):
                if not any('raiser' in k for k in layout):
                    continue
                out.append({'part': 'raise', 'matching': matching,
                            'layout': list(layout), 'msgs': 3})
    return out


def run_raise_case(case):
    """Responders of one dispatcher on one path, some of which raise after
    logging; the same message is delivered `msgs` times.  Decided by the
    statement: nobody fires twice for one message, responders created before
    the first raising one fire, a one-shot responder fires at most once ever
    (also when its function raised), firing order is creation order, and the
    next datagram is still processed.  Not decided (don't-care): whether the
    responders after a raising one see that message."""
    from mc import seams, vthreading as vt
    env = _env()
    ex = seams.Execution()
    S = vt.SCHED
    OscFunc = env['rsp'].OscFunc
    log = []
    rs = []
    dis = []

    def cb(i, raises):
        def f(msg, time, addr, port):
            log.append(i)
            if raises:
                raise RuntimeError('user function failed')
        return f
    try:
        for i, kind in enumerate(case['layout']):
            f = cb(i, 'raiser' in kind)
            r = OscFunc.matching(f, '/a') if case['matching'] \
                else OscFunc(f, '/a')
            if kind.startswith('oneshot'):
                r.one_shot()
            rs.append(r)
        S.idle()
        state = ['live'] * len(rs)      # live | spent | maybe (one-shots)
        total = [0] * len(rs)
        data = osc10.encode_message('/a', [1])
        iface = env['main']._osc_interface
        obs_all = []
        for d in range(case['msgs']):
            S.sleep(DT, exact=True)
            mark = len(log)
            try:
                iface._handle_request(data, (A[0], A[1]))
                S.idle()
            except (vt.Deadlock, vt.Livelock) as e:
                dis.append(('raise-deliver-blocks', 'returns',
                            type(e).__name__, str(e)))
                break
            except Exception as e:
                dis.append(('raise-deliver-raises-into-receiver', 'returns',
                            type(e).__name__, str(e)[:200]))
            obs = log[mark:]
            obs_all.append(list(obs))
            must, may = [], []
            stopped = False
            for i, kind in enumerate(case['layout']):
                one = kind.startswith('oneshot')
                if state[i] == 'spent':
                    continue
                if stopped or state[i] == 'maybe':
                    may.append(i)
                    if 'raiser' in kind and i in obs:
                        stopped = True      # it ran, and it raised
                else:
                    must.append(i)
                    if 'raiser' in kind:
                        stopped = True
            detail = f'delivery {d + 1}: must {must} may {may}; all ' \
                     f'deliveries so far {obs_all}'
            if len(set(obs)) != len(obs):
                dis.append(('raise-fired-twice-for-one-message', must, obs,
                            detail))
            for i in obs:
                if i not in must and i not in may:
                    dis.append(('raise-oneshot-fired-again'
                                if case['layout'][i].startswith('oneshot')
                                else 'raise-extra', must, obs, detail))
            for i in must:
                if i not in obs:
                    dis.append(('raise-missed-before-raising-responder',
                                must, obs, detail))
            if obs != sorted(obs):
                dis.append(('raise-order', sorted(obs), obs, detail))
            for i in set(obs):
                total[i] += 1
                if case['layout'][i].startswith('oneshot'):
                    if total[i] > 1 and not any(
                            x[0] == 'raise-oneshot-fired-again' for x in dis):
                        dis.append(('raise-oneshot-fired-again', 1, total[i],
                                    detail))
                    state[i] = 'spent'
            for i in may:
                if i not in obs and case['layout'][i].startswith('oneshot') \
                        and state[i] == 'live':
                    state[i] = 'maybe'
    finally:
        _restore_responders(env, rs)
        problems = ex.finish()
    for pr in problems:
        dis.append(('rt-teardown-problem', [], pr, ''))
    return dis, obs_all


def raise_work(job):
    acc = progenum.Acc(max_samples=2)
    cases = raise_cases()
    for k, case in enumerate(cases):
        if k % job['of'] != job['shard']:
            continue
        dis, obs = run_raise_case(case)
        for kind, exp, o, detail in dis:
            acc.violation(kind, case, exp, o, detail,
                          size=len(case['layout']))
        acc.case(case, len(case['layout']) > 1, obs, steps=case['msgs'])
    return acc.result()


# =============================================================================
# (1c) filter matrix: one responder x every message of a product

H2 = '127.0.0.2'
C = [H2, 57200]             # sender C: the port of A on another host

MX_ROUTES = ['ctor', 'matching', 'dispatcher', 'deco', 'deco-matching',
             'own', 'own-matching']     # own: a dispatcher object of its own
MX_PATHS = ['/a', 'a']
MX_ARITY = ['f4', 'fvar', 'f1']
MX_SRC = [None, A, [HOST, None], [H2, None], [H2, 57200]]
MX_RPORT = [None, PORT2, 'main']
MX_TMPL = [None, [], [1], [0], [None, 2], [1, 2], 1, ['x'], [0.5],
           [{'pred': 'odd'}], [None, {'pred': 'pos'}]]
MX_PRE = ['none', 'func', 'one_shot', 'disable-enable']
MX_DELIVERY = ['single', 'bundle']
# the messages every case receives
MX_ADDR = ['/a', '/ab', '/[a-b]']
MX_ARGS = [[], [0], [1], [2], [1, 2], [0, 2], [3, 2], ['x'], [0.5], [1, 'x']]
MX_SENDERS = [A, B, C]
MX_VIA = [0, 1]
MX_SLICES = 4


def _mx_case(route, path, arity, src, rport, tmpl, pre, delivery):
    return {'part': 'matrix', 'route': route, 'path': path, 'arity': arity,
            'src': src, 'rport': rport, 'tmpl': tmpl, 'pre': pre,
            'delivery': delivery}


def matrix_cases(tier, slice_no=0):
    """Thorough: F1 (every source x receive port x template x preparation x
    delivery mode, for a plain and a matching responder) and F2 (every
    creation route x path spelling x function arity x preparation, with
    source / port / template each absent or present).  Quick: F1 with single
    deliveries and preparation none / func, F2 with all filters absent or
    all present, and the seed-selected 1/MX_SLICES slice of the rest of F1."""
    quick = tier == 'quick'
    out, seen = [], set()

    def add(c):
        k = core.canon(c)
        if k not in seen:
            seen.add(k)
            out.append(c)
    n = 0
    for route in ('ctor', 'matching'):
        for src in MX_SRC:
            for rport in MX_RPORT:
                for tmpl in MX_TMPL:
                    for pre in MX_PRE:
                        for delivery in MX_DELIVERY:
                            base = delivery == 'single' and \
                                pre in ('none', 'func')
                            if not quick or base or \
                                    n % MX_SLICES == slice_no:
                                add(_mx_case(route, '/a', 'f4', src, rport,
                                             tmpl, pre, delivery))
                            if not base:
                                n += 1
    for route in MX_ROUTES:
        for path in MX_PATHS:
            for arity in MX_ARITY:
                for pre in MX_PRE:
                    for src in (None, A):
                        for rport in (None, PORT2):
                            for tmpl in (None, [1]):
                                nf = (src is not None) + (rport is not None) \
                                    + (tmpl is not None)
                                if quick and nf not in (0, 3):
                                    continue
                                add(_mx_case(route, path, arity, src, rport,
                                             tmpl, pre, 'single'))
    return out


def matrix_messages():
    """Every argument list on the responder's address; two of them on the
    other addresses; each from every sender on every port."""
    return [[a, args, snd, via] for snd in MX_SENDERS for via in MX_VIA
            for a in MX_ADDR for args in MX_ARGS
            if a == MX_ADDR[0] or args in ([1], [1, 2])]


def run_matrix_case(case):
    """-> (disagreements, observed firing counts (string), nontrivial)"""
    from mc import seams, vthreading as vt
    env = _env()
    ex = seams.Execution()
    S = vt.SCHED
    rsp = env['rsp']
    OscFunc = rsp.OscFunc
    main_iface = env['main']._osc_interface
    ifaces = [main_iface, env['iface2']]
    rport = main_iface.port if case['rport'] == 'main' else case['rport']
    matching = case['route'] in ('matching', 'dispatcher', 'deco-matching',
                                 'own-matching')
    ref = dispatch_ref.Model()
    rr = ref.create(case['path'], matching, case['src'], rport, case['tmpl'])
    log = []
    dis = []
    mine = []

    def mk(ver):
        if case['arity'] == 'f4':
            def f(msg, time, addr, port):
                log.append([ver, [msg, time, addr, port]])
        elif case['arity'] == 'fvar':
            def f(*args):
                log.append([ver, list(args)])
        else:
            def f(msg):
                log.append([ver, [msg]])
        return f

    def plain(entry):
        ver, a = entry
        out = [ver, _jsonable(a[0])]
        if len(a) > 1:
            out.append(a[1])
        if len(a) > 2:
            out.append([getattr(a[2], 'hostname', None),
                        getattr(a[2], 'port', None)])
        out += [_jsonable(x) for x in a[3:]]
        return out
    try:
        src = case['src']
        sid = None if src is None else env['NetAddr'](src[0], src[1])
        tmpl = case['tmpl']
        if isinstance(tmpl, list):
            tmpl = [dispatch_ref.PREDS[x['pred']] if isinstance(x, dict)
                    else x for x in tmpl]
        f0 = mk(0)
        route = case['route']
        try:
            if route == 'ctor':
                r = OscFunc(f0, case['path'], sid, rport, arg_template=tmpl)
            elif route == 'matching':
                r = OscFunc.matching(f0, case['path'], sid, rport,
                                     arg_template=tmpl)
            elif route == 'dispatcher':
                r = OscFunc(f0, case['path'], src_id=sid, recv_port=rport,
                            arg_template=tmpl,
                            dispatcher=OscFunc._default_matching_dispatcher)
            elif route in ('own', 'own-matching'):
                d = rsp.OscMessagePatternDispatcher() \
                    if route == 'own-matching' else rsp.OscMessageDispatcher()
                r = OscFunc(f0, case['path'], sid, recv_port=rport,
                            arg_template=tmpl, dispatcher=d)
            else:
                kw = {}
                if sid is not None:
                    kw['src_id'] = sid
                if rport is not None:
                    kw['recv_port'] = rport
                if tmpl is not None:
                    kw['arg_template'] = tmpl
                if route == 'deco-matching':
                    r = rsp.oscfunc(case['path'], matching=True, **kw)(f0)
                else:
                    r = rsp.oscfunc(case['path'], **kw)(f0)
            mine.append(r)
            pre = case['pre']
            if pre == 'func':
                ref.replace_func(0)
                r.func = mk(1)
            elif pre == 'one_shot':
                ref.one_shot(0)
                r.one_shot()
            elif pre == 'disable-enable':
                ref.disable(0)
                ref.enable(0)
                r.disable()
                r.enable()
            S.idle()
        except (vt.Deadlock, vt.Livelock) as e:
            dis.append(('matrix-op-blocks', 'returns', type(e).__name__,
                        str(e)))
            return dis, '', False
        except Exception as e:
            dis.append(('matrix-op-raises', 'returns', type(e).__name__,
                        str(e)[:200]))
            return dis, '', False
        S.sleep(DT, exact=True)
        now = S.now
        msgs = matrix_messages()
        if case['delivery'] == 'bundle':
            groups = []
            for snd in MX_SENDERS:
                for via in MX_VIA:
                    groups.append([m for m in msgs
                                   if m[2] == snd and m[3] == via])
        else:
            groups = [[m] for m in msgs]
        counts = []
        nfire = nrej = 0
        for grp in groups:
            snd, via = grp[0][2], grp[0][3]
            iface = ifaces[via]
            enc = [osc10.encode_message(m[0], m[1]) for m in grp]
            data = enc[0] if case['delivery'] == 'single' \
                else osc10.encode_bundle(1, enc)
            exp = []
            why = []
            for m in grp:
                state = rr.state
                fired = ref.deliver(m[0], m[1], snd, iface.port)
                if fired:
                    nfire += 1
                    exp.append([fired[0]['ver'], _jsonable([m[0]] + m[1]),
                                now, [snd[0], snd[1]], iface.port])
                    why.append(None)
                    continue
                if state != 'enabled':
                    why.append('while-' + state)
                elif not ref.path_accepts(rr, m[0]):
                    why.append('path')
                else:
                    nrej += 1
                    one = dispatch_ref.Responder(0, rr.path, matching, None,
                                                 None, None, 0)
                    one.src = rr.src
                    if not ref.filters_accept(one, m[1], snd, iface.port):
                        why.append('source')
                        continue
                    one.src, one.recv_port = None, rr.recv_port
                    if not ref.filters_accept(one, m[1], snd, iface.port):
                        why.append('port')
                        continue
                    why.append('template')
            mark = len(log)
            del env['tap'].records[:]
            try:
                iface._handle_request(data, (snd[0], snd[1]))
                S.idle()
            except (vt.Deadlock, vt.Livelock) as e:
                dis.append(('matrix-deliver-blocks', 'returns',
                            type(e).__name__, str(e)))
                break
            except BaseException as e:
                if isinstance(e, (KeyboardInterrupt, SystemExit, vt.Abort)):
                    raise
                dis.append(('matrix-deliver-raises', 'returns',
                            type(e).__name__, str(e)[:200]))
            obs = [plain(e) for e in log[mark:]]
            counts.append(len(obs))
            if case['arity'] == 'f1':
                exp = [e[:2] for e in exp]
            if obs == exp:
                continue
            errors = [list(x) for x in env['tap'].records]
            detail = (f'messages {[[m[0]] + m[1] for m in grp]} from {snd} '
                      f'on port {iface.port}; responder {ref.key()[0]}; '
                      f'errors logged by the library: {errors[:3]}')
            # which message is concerned
            left = list(obs)
            for m, w in zip(grp, why):
                want = _jsonable([m[0]] + m[1])
                got = [e for e in left if e[1] == want]
                for e in got:
                    left.remove(e)
                if w is None:
                    if not got:
                        dis.append(('matrix-missed', exp, obs, detail))
                    elif len(got) > 1:
                        dis.append(('matrix-fired-twice', exp, obs, detail))
                    elif got[0] not in exp:
                        dis.append(('matrix-stale-function'
                                    if got[0][0] != exp[0][0]
                                    else 'matrix-payload', exp, obs, detail))
                elif got:
                    dis.append((f'matrix-extra-{w}', exp, obs, detail))
            if left:
                dis.append(('matrix-payload', exp, obs, detail))
            elif not any(d[3] is detail for d in dis):
                dis.append(('matrix-bundle-order', exp, obs, detail))
        return dis, ''.join(str(min(c, 9)) for c in counts), \
            bool(nfire and nrej)
    finally:
        _restore_responders(env, mine)
        problems = ex.finish()
        for pr in problems:
            dis.append(('rt-teardown-problem', [], pr, ''))


def matrix_work(job):
    acc = progenum.Acc(max_samples=2)
    cases = matrix_cases(job['tier'], job['slice'])
    for k, case in enumerate(cases):
        if k % job['of'] != job['shard']:
            continue
        dis, out, nt = run_matrix_case(case)
        for kind, exp, o, detail in dis:
            acc.violation(kind, case, exp, o, detail)
        acc.case(case, nt, out, steps=len(out))
    return acc.result()


# =============================================================================
# (3b) transport loops: the real OscUdpInterface._udp_run / OscTcpInterface
# ._tcp_run on a scripted socket

TR_PORT = 57140             # local port of the interface under test
TR_BIND = [HOST, TR_PORT]
TR_PEER = [HOST, 57110]     # the TCP peer


def _tr_payloads():
    m = osc10.encode_message
    i = m('/a', [1])
    b2 = osc10.encode_bundle(1, [m('/a', [2]), m('/ab', [3])])
    import struct
    neg = b2[:16] + struct.pack('>i', -4) + b2[20:]
    blob = m('/a', [b'\x01\x02\x03\x04\x05'])
    over = blob[:8] + struct.pack('>i', 64) + blob[12:]
    return {'msg': i, 'bundle': b2, 'final': m('/ab', [9]),
            'byte': b'\x00', 'cut': i[:11], 'negelem': neg, 'overblob': over,
            'cutbundle': b2[:12], 'empty': b''}


# UDP menu: [name, payload, peer]; the payload classes are asserted below
UDP_MENU = [['msg', 'msg', A], ['bundle', 'bundle', B],
            ['empty-from-peer', 'empty', A],
            ['empty-from-other-host-same-port', 'empty', [H2, TR_PORT]],
            ['byte', 'byte', A], ['cut', 'cut', A], ['negelem', 'negelem', B],
            ['overblob', 'overblob', A], ['cutbundle', 'cutbundle', B]]
# TCP menu: [name, payload | None, how]; how: whole | split-payload |
# split-header (short reads: the frame arrives in two pieces) | zero (a frame
# of size 0) | neglen / overlen (a size prefix that destroys the framing:
# only as the last item, nothing can be demanded afterwards but a clean end)
TCP_MENU = [['msg', 'msg', 'whole'], ['bundle', 'bundle', 'whole'],
            ['msg-split-payload', 'msg', 'split-payload'],
            ['msg-split-header', 'msg', 'split-header'],
            ['byte', 'byte', 'whole'], ['cut', 'cut', 'whole'],
            ['negelem', 'negelem', 'whole'], ['zero-size', None, 'zero']]
TCP_LAST = [['final', 'final', 'whole'], ['negative-length', None, 'neglen'],
            ['oversized-length', None, 'overlen']]


def transport_cases():
    out = []
    n = len(UDP_MENU)
    for k in range(0, 4):
        for seq in itertools.product(range(n), repeat=k):
            out.append({'part': 'transport', 'proto': 'udp',
                        'seq': list(seq), 'last': 0})
    n = len(TCP_MENU)
    for k in range(0, 4):
        for seq in itertools.product(range(n), repeat=k):
            for last in range(len(TCP_LAST)):
                if last and k > 2:
                    continue
                out.append({'part': 'transport', 'proto': 'tcp',
                            'seq': list(seq), 'last': last})
    return out


def _real_transport_classes(env):
    """The library's own OscUdpInterface / OscTcpInterface code (mc/seams.py
    replaced the module attribute by a capture class): a second load of
    sc3/base/_oscinterface.py as a private module whose OscInterface shares
    the registry of receive functions with the library's."""
    if 'real_osci' in env:
        return env['real_osci']
    import importlib.util
    from mc import seams
    osci = env['osci']
    spec = importlib.util.spec_from_file_location(
        'sc3.base._oscinterface_c18', osci.__file__)
    mod = importlib.util.module_from_spec(spec)
    spec.loader.exec_module(mod)
    mod.threading = seams._VTModule
    mod.OscInterface._recv_functions = osci.OscInterface._recv_functions
    env['real_osci'] = mod
    return mod


class _FakeSocket:
    """Scripted socket.  UDP: items [(bytes, (host, port))]; TCP: a list of
    byte segments (recv never crosses a segment boundary: what has arrived
    so far).  Before every read the pending dispatches run and virtual time
    advances by DT."""

    def __init__(self, S, items, sockname, peer=None):
        self.S = S
        self.items = list(items)
        self.sockname = tuple(sockname)
        self.peer = None if peer is None else tuple(peer)
        self.times = []         # virtual instant of every read
        self.past_end = 0
        self.type = None

    def _wait(self):
        self.S.idle()
        self.S.sleep(DT, exact=True)
        self.times.append(self.S.now)

    def getsockname(self):
        return self.sockname

    def getpeername(self):
        return self.peer

    def recvfrom(self, n):
        self._wait()
        if not self.items:
            self.past_end += 1
            raise OSError('scripted socket: read past the last datagram')
        data, addr = self.items.pop(0)
        return data[:n], tuple(addr)

    def recv(self, n):
        if n < 0:
            raise ValueError('negative buffersize in recv')
        if n == 0:
            return b''
        self._wait()
        if not self.items:
            self.past_end += 1
            return b''          # end of stream
        seg = self.items[0]
        out, rest = seg[:n], seg[n:]
        if rest:
            self.items[0] = rest
        else:
            self.items.pop(0)
        return out

    def close(self):
        pass


def run_transport_case(case):
    """-> (disagreements, outcome)"""
    import struct
    from mc import seams, vthreading as vt
    env = _env()
    mod = _real_transport_classes(env)
    pay = _tr_payloads()
    ex = seams.Execution()
    S = vt.SCHED
    OscFunc = env['rsp'].OscFunc
    log = []
    mine = []
    dis = []
    udp = case['proto'] == 'udp'

    def cb(i):
        def f(msg, time, addr, port):
            log.append([i, _jsonable(msg), time,
                        [getattr(addr, 'hostname', None),
                         getattr(addr, 'port', None)], port])
        return f
    feats = set()
    try:
        mine.append(OscFunc(cb(0), '/a'))
        mine.append(OscFunc(cb(1), '/ab'))
        S.idle()
        # ---- the script and what it must lead to
        items = []
        plan = []       # per datagram / frame: [payload | None, peer, reads]
        if udp:
            menu = [UDP_MENU[k] for k in case['seq']] + \
                [['final', 'final', B]]
            for name, p, peer in menu:
                items.append((pay[p], peer))
                plan.append([pay[p], peer, 1])
                if p == 'empty':
                    feats.add('empty')
            items.append((b'', TR_BIND))        # what unbind() sends
            iface = mod.OscUdpInterface(TR_PORT)
        else:
            menu = [TCP_MENU[k] for k in case['seq']] + \
                [TCP_LAST[case['last']]]
            for name, p, how in menu:
                if how == 'zero':
                    items.append(struct.pack('>i', 0))
                    plan.append([None, TR_PEER, 1])
                    feats.add('zero')
                elif how == 'neglen':
                    items.append(struct.pack('>i', -8) + pay['msg'])
                    feats.add('neglen')
                elif how == 'overlen':
                    items.append(struct.pack('>i', 64) + pay['msg'][:8])
                    feats.add('overlen')
                else:
                    fr = struct.pack('>i', len(pay[p])) + pay[p]
                    if how == 'split-payload':
                        items += [fr[:10], fr[10:]]
                        plan.append([pay[p], TR_PEER, 3])
                        feats.add('short')
                    elif how == 'split-header':
                        items += [fr[:2], fr[2:]]
                        plan.append([pay[p], TR_PEER, 3])
                        feats.add('short')
                    else:
                        items.append(fr)
                        plan.append([pay[p], TR_PEER, 2])
            iface = mod.OscTcpInterface(TR_PORT)
        try:
            iface._socket.close()       # the unbound socket of __init__
        except Exception:
            pass
        sock = _FakeSocket(S, items, TR_BIND, None if udp else TR_PEER)
        iface._socket = sock
        del env['tap'].records[:]
        raised = None
        try:
            if udp:
                iface._udp_run()
            else:
                iface._tcp_run()
            S.idle()
        except (vt.Deadlock, vt.Livelock) as e:
            raised = e
        except BaseException as e:
            if isinstance(e, (KeyboardInterrupt, SystemExit, vt.Abort)):
                raise
            raised = e
        errors = [list(x)[:3] for x in env['tap'].records]
        # (one label per script: the first of these that it contains)
        feat = next((x for x in ('short', 'zero', 'neglen', 'overlen',
                                 'empty') if x in feats), 'plain')
        framing_lost = bool(feats & {'neglen', 'overlen'})
        pre = f'transport-{case["proto"]}'
        detail = (f'script {[m[0] for m in menu]}; reads at '
                  f'{sock.times}; left unread: {len(sock.items)}; errors '
                  f'logged by the library: {errors[:4]}')
        if raised is not None:
            dis.append((f'{pre}-loop-raises-{feat}', 'returns',
                        f'{type(raised).__name__}: {raised}'[:120], detail))
        if sock.items and not framing_lost:
            # (after a length prefix that destroys the framing the receiver
            # may stop wherever it likes)
            dis.append((f'{pre}-loop-ended-early-{feat}', 0,
                        len(sock.items), detail))
        if udp and sock.past_end:
            dis.append((f'{pre}-loop-ignores-own-sentinel-{feat}', 0,
                        sock.past_end, detail))
        # what must have been delivered: every valid payload, in order,
        # at the instant of the read that completed it
        exp = []
        r = 0
        for p, peer, reads in plan:
            r += reads
            if p is None:
                continue
            cl = oscfault.classify(p)
            if cl['class'] == 'lenient':
                raise core.HarnessError('transport menu: undecided payload')
            if cl['class'] != 'valid':
                continue
            t = sock.times[r - 1] if r - 1 < len(sock.times) else None
            for _, msg in cl['messages']:
                rid = {'/a': 0, '/ab': 1}[msg[0]]
                exp.append([rid, _jsonable(msg), t, [peer[0], peer[1]],
                            TR_PORT])
        obs = [list(e) for e in log]
        strip = [e[:2] + e[3:] for e in obs]
        want = [e[:2] + e[3:] for e in exp]
        if strip != want:
            if all(e in want for e in strip) and len(strip) < len(want):
                kind = 'valid-lost'
            else:
                kind = 'wrong-delivery'
            dis.append((f'{pre}-{kind}-{feat}', exp, obs, detail))
        elif udp and obs != exp:
            # a datagram carries the instant of the read that returned it
            dis.append((f'{pre}-wrong-time-{feat}', exp, obs, detail))
        elif not udp and ([e[2] for e in obs] != sorted(e[2] for e in obs) or
                          any(e[2] not in sock.times for e in obs)):
            # a stream: which read completes a frame is up to the receiver;
            # the time must be one of the reception instants, in order
            dis.append((f'{pre}-wrong-time-{feat}', sock.times,
                        [e[2] for e in obs], detail))
        return dis, [len(obs), len(sock.items), raised is None]
    finally:
        _restore_responders(env, mine)
        for pr in ex.finish():
            dis.append(('rt-teardown-problem', [], pr, ''))


def transport_work(job):
    acc = progenum.Acc(max_samples=2)
    for k, case in enumerate(transport_cases()):
        if k % job['of'] != job['shard']:
            continue
        dis, out = run_transport_case(case)
        for kind, exp, o, detail in dis:
            acc.violation(kind, case, exp, o, detail,
                          size=len(case['seq']) * 100 + sum(case['seq']) +
                          case['last'])
        acc.case(case, nontrivial=len(case['seq']) > 0, outcome=out,
                 steps=len(case['seq']) + 1)
    return acc.result()


# =============================================================================
# (4) registries

def _labelled(label, log, with_server=None, then=None):
    """A registered action: logs its label, positional and keyword
    arguments; `then` (optional) is called afterwards."""
    if with_server is None:
        def f(*args, **kw):
            log.append([label, _jsonable(args) + [dict(kw)]])
            if then is not None:
                then()
    else:
        def f(server, *args, **kw):
            log.append([label, with_server(server),
                        _jsonable(args) + [dict(kw)]])
    f._c18 = label
    return f


class SystemActionSys:
    """params: {'cls': 'CmdPeriod' | 'StartUp' | 'ShutDown'}
    Actions are registered with positional and keyword arguments.  'r0' is
    an action that removes 'a1' from the registry when it runs.  CmdPeriod
    also has do_once and hard_run, StartUp also has defer."""
    ACTIONS = ['a0', 'a1', 'a2']
    ONCE = ['d0', 'd1']
    REMOVER, TARGET = 'r0', 'a1'
    DEFER = ['a0', 'a1']

    def __init__(self, params, dry=False):
        self.p = params
        self.dry = dry
        self.once = params['cls'] == 'CmdPeriod'
        self.startup = params['cls'] == 'StartUp'
        self.ref = registry_ref.SystemActionRef(
            self.REMOVER, self.TARGET, track_done=self.startup)
        self.last = None
        self.closed = False
        if dry:
            return
        self.env = _env()
        self.cls = getattr(self.env['sac'], params['cls'])
        self.ex = None
        if self.once:       # CmdPeriod.run() clears the real clocks
            from mc import seams
            self.ex = seams.Execution()
        self.saved = self.cls._actions
        self.saved_done = getattr(self.cls, 'done', None)
        self.cls.remove_all()
        if self.startup:
            self.cls.done = False       # as before the library has started
        self.log = []
        self.fn = {a: _labelled(a, self.log)
                   for a in self.ACTIONS + self.ONCE}
        self.fn[self.REMOVER] = _labelled(
            self.REMOVER, self.log,
            then=lambda: self.cls.remove(self.fn[self.TARGET]))

    @staticmethod
    def _args(label):
        return [int(label[1]), label]

    @staticmethod
    def _kw(label):
        return {'k': label + 'k'}

    def ops(self):
        o = [['add', a] for a in self.ACTIONS + [self.REMOVER]]
        o += [['remove', a] for a in self.ACTIONS + [self.REMOVER]]
        if self.once:
            o += [['do_once', d] for d in self.ONCE]
            o += [['hard_run']]
        if self.startup:
            o += [['defer', a] for a in self.DEFER]
        o += [['run'], ['remove_all']]
        return o

    def apply(self, op):
        name = op[0]
        ref = self.ref
        groups = None
        if name == 'add':
            ref.add(op[1], self._args(op[1]))
        elif name == 'remove':
            ref.remove(op[1])
        elif name == 'do_once':
            ref.do_once(op[1], self._args(op[1]))
        elif name == 'remove_all':
            ref.remove_all()
        elif name in ('run', 'hard_run'):
            groups = ref.run()
        elif name == 'defer':
            if ref.defer(op[1], self._args(op[1])):
                # evaluated at once, exactly once, not registered
                groups = [[{'key': ('a', op[1]), 'first': 0, 'last': 0,
                            'payload': self._args(op[1])}]]
                ref.optional = []
        else:
            raise core.HarnessError(f'bad op {op}')
        if self.dry:
            return []
        cls = self.cls
        del self.log[:]
        try:
            if name in ('add', 'do_once', 'defer'):
                getattr(cls, name)(self.fn[op[1]], *self._args(op[1]),
                                   **self._kw(op[1]))
            elif name == 'remove':
                cls.remove(self.fn[op[1]])
            else:
                getattr(cls, name)()
            if self.ex is not None:
                from mc import vthreading as vt
                vt.SCHED.idle()
        except Exception as e:
            return [('sysact-op-raises', 'returns', type(e).__name__,
                     f'{op}: {e}')]
        obs = [list(x) for x in self.log]
        dis = []
        if groups is None:
            if obs:
                dis.append(('sysact-runs-outside-run', [], obs, str(op)))
            return dis
        self.last = obs
        lab = [[dict(e, key=e['key'][-1]) for e in g] for g in groups]
        seen = [x[0] for x in obs]
        res = registry_ref.check_run(lab, seen)
        if res is not None and ref.optional:
            # the action removed during this run may also have stayed away
            opt = {k[-1] for k in ref.optional}
            res2 = registry_ref.check_run(
                [[e for e in g if e['key'] not in opt] for g in lab], seen)
            if res2 is None:
                res = None
        detail = f'registered (reference): {ref.key()} before the run: ' \
                 f'{[[e["key"], e["first"], e["last"]] for e in lab[0]]}; ' \
                 f'may stay away: {ref.optional}'
        if res is not None:
            kind = f'sysact-{name}-{res[0]}' if name != 'run' \
                else f'sysact-run-{res[0]}'
            dis.append((kind, [e['key'] for e in lab[0]], seen, detail))
        for label, args in obs:
            want = self._args(label) + [self._kw(label)]
            if args != want:
                dis.append(('sysact-args', want, args, detail))
        return dis

    def _implkey(self):
        out = []
        for fn, (args, kw) in self.cls._actions.items():
            lab = getattr(fn, '_c18', None)
            if lab is None and args and hasattr(args[0], '_c18'):
                lab = 'once:' + args[0]._c18
            out.append(lab)
        if self.startup:
            out.append(['done', bool(self.cls.done)])
        return out

    def key(self):
        return [self.ref.key(), self._implkey()]

    def nontrivial(self):
        return self.ref.nontrivial()

    def outcome(self):
        return self.last

    def close(self):
        if self.dry or self.closed:
            return []
        self.closed = True
        self.cls._actions = self.saved
        if self.saved_done is not None:
            self.cls.done = self.saved_done
        return self.ex.finish() if self.ex is not None else []


class ServerActionSys:
    """params: {'cls': 'ServerBoot' | 'ServerQuit' | 'ServerTree'}"""
    KEYS = ['s', 's2', 'all', 'default']
    ACTIONS = ['a0', 'a1']

    def __init__(self, params, dry=False):
        self.p = params
        self.dry = dry
        self.ref = registry_ref.ServerActionRef('s')
        self.last = None
        self.closed = False
        if dry:
            return
        self.env = _env()
        self.cls = getattr(self.env['sac'], params['cls'])
        srv = self.env['srv']
        self.keys = {'s': srv.Server.default, 's2': self.env['s2'],
                     'all': 'all', 'default': 'default'}
        self.saved = self.cls._servers
        self.cls.remove_all()
        self.log = []
        back = {id(srv.Server.default): 's', id(self.env['s2']): 's2'}
        self.fn = {a: _labelled(a, self.log,
                                lambda s: back.get(id(s), repr(s)))
                   for a in self.ACTIONS}

    @staticmethod
    def _args(label):
        return [int(label[1])]

    @staticmethod
    def _kw(label):
        return {'k': label + 'k'}

    def ops(self):
        o = [['add', k, a] for k in self.KEYS for a in self.ACTIONS]
        o += [['remove', k, a] for k in self.KEYS for a in self.ACTIONS]
        o += [['remove_server', k] for k in self.KEYS]
        o += [['run', 's'], ['run', 's2'], ['remove_all']]
        return o

    def apply(self, op):
        name = op[0]
        ref = self.ref
        groups = None
        if name == 'add':
            ref.add(op[1], op[2], self._args(op[2]))
        elif name == 'remove':
            ref.remove(op[1], op[2])
        elif name == 'remove_server':
            ref.remove_server(op[1])
        elif name == 'remove_all':
            ref.remove_all()
        elif name == 'run':
            groups = ref.run(op[1])
        else:
            raise core.HarnessError(f'bad op {op}')
        if self.dry:
            return []
        cls = self.cls
        del self.log[:]
        try:
            if name == 'add':
                cls.add(self.keys[op[1]], self.fn[op[2]], *self._args(op[2]),
                        **self._kw(op[2]))
            elif name == 'remove':
                cls.remove(self.keys[op[1]], self.fn[op[2]])
            elif name == 'remove_server':
                cls.remove_server(self.keys[op[1]])
            elif name == 'remove_all':
                cls.remove_all()
            else:
                cls.run(self.keys[op[1]])
        except Exception as e:
            return [('srvact-op-raises', 'returns', type(e).__name__,
                     f'{op}: {e}')]
        obs = [list(x) for x in self.log]
        dis = []
        if name != 'run':
            if obs:
                dis.append(('srvact-runs-outside-run', [], obs, str(op)))
            return dis
        self.last = obs
        res = registry_ref.check_run(groups, [x[0] for x in obs])
        detail = f'registered (reference): {ref.key()}'
        if res is not None:
            dis.append((f'srvact-run-{res[0]}',
                        [[e['key'] for e in g] for g in groups],
                        [x[0] for x in obs], detail))
        for label, server, args in obs:
            want = self._args(label) + [self._kw(label)]
            if server != op[1] or args != want:
                dis.append(('srvact-args', [op[1], want],
                            [server, args], detail))
        return dis

    def _implkey(self):
        back = {id(v): k for k, v in self.keys.items()
                if not isinstance(v, str)}
        out = []
        for k, acts in self.cls._servers.items():
            lab = k if isinstance(k, str) else back.get(id(k), '?')
            out.append([lab, [getattr(fn, '_c18', None) for fn in acts]])
        return sorted(out)

    def key(self):
        return [self.ref.key(), self._implkey()]

    def nontrivial(self):
        return self.ref.nontrivial()

    def outcome(self):
        return self.last

    def close(self):
        if self.dry or self.closed:
            return []
        self.closed = True
        self.cls._servers = self.saved
        return []


class _Obj:
    def __init__(self, name):
        self.name = name

    def __repr__(self):
        return self.name


class NotificationSys:
    """NotificationCenter register / unregister / notify."""
    REG = [['o0', 'm', 'l0', 'f0'], ['o0', 'm', 'l0', 'f1'],
           ['o0', 'm', 'l1', 'f0'], ['o0', 'm', 'l1', 'f1'],
           ['o0', 'n', 'l0', 'f0'], ['o1', 'm', 'l0', 'f0']]
    UNREG = [['o0', 'm', 'l0'], ['o0', 'm', 'l1'], ['o0', 'n', 'l0'],
             ['o1', 'm', 'l0'], ['o0', 'm', None], ['o0', None, None]]
    NOTIFY = [['o0', 'm'], ['o0', 'n'], ['o1', 'm']]
    ONESHOT = [['o0', 'm', 'l0', 'f0'], ['o0', 'm', 'l1', 'f1']]
    EXISTS = [['o0', 'm', 'l0'], ['o0', 'm', 'l1'], ['o1', 'm', 'l0']]

    def __init__(self, params, dry=False):
        self.p = params
        self.dry = dry
        self.ref = registry_ref.NotificationRef()
        self.last = None
        self.closed = False
        if dry:
            return
        from sc3.base.model import NotificationCenter
        self.nc = NotificationCenter
        self.saved = NotificationCenter._registrations  # clear() rebinds it
        self.objs = {n: _Obj(n) for n in ('o0', 'o1', 'l0', 'l1')}
        self.log = []
        log = self.log

        def mk(label):
            def f(*args):
                log.append([label] + [repr(a) if isinstance(a, _Obj) else a
                                      for a in args])
            f._c18 = label
            return f
        self.fn = {a: mk(a) for a in ('f0', 'f1')}

    def ops(self):
        return [['register'] + r for r in self.REG] + \
               [['register_one_shot'] + r for r in self.ONESHOT] + \
               [['unregister'] + u for u in self.UNREG] + \
               [['notify'] + n for n in self.NOTIFY] + \
               [['exists'] + e for e in self.EXISTS] + [['clear']]

    def apply(self, op):
        name = op[0]
        ref = self.ref
        groups = None
        existed = None
        answer = None
        if name == 'register':
            ref.register(*op[1:])
        elif name == 'register_one_shot':
            ref.register(*op[1:], once=True)
        elif name == 'unregister':
            existed = ref.exists(*op[1:])
            ref.unregister(*op[1:])
        elif name == 'notify':
            groups = ref.notify(op[1], op[2])
        elif name == 'exists':
            answer = ref.exists(*op[1:])
        elif name == 'clear':
            ref.clear()
        else:
            raise core.HarnessError(f'bad op {op}')
        if self.dry:
            return []
        nc, ob = self.nc, self.objs
        del self.log[:]
        raised = None
        got = None
        try:
            if name in ('register', 'register_one_shot'):
                getattr(nc, name)(ob[op[1]], op[2], ob[op[3]],
                                  self.fn[op[4]])
            elif name == 'exists':
                got = nc.registration_exists(ob[op[1]], op[2], ob[op[3]])
            elif name == 'clear':
                nc.clear()
            elif name == 'unregister':
                nc.unregister(ob[op[1]], op[2],
                              None if op[3] is None else ob[op[3]])
            else:
                nc.notify(ob[op[1]], op[2], 7)
        except Exception as e:
            raised = e
        obs = [list(x) for x in self.log]
        dis = []
        if raised is not None:
            # unregistering something that is not registered: the library
            # documents KeyError; the statement does not decide -> accepted.
            if not (name == 'unregister' and existed is False and
                    isinstance(raised, KeyError)):
                dis.append(('notif-op-raises', 'returns',
                            type(raised).__name__, f'{op}: {raised}'))
        if name == 'exists' and raised is None and got is not answer:
            dis.append(('notif-registration-exists', answer, got,
                        f'{op}; registered (reference): {ref.key()}'))
        if name != 'notify':
            if obs:
                dis.append(('notif-runs-outside-notify', [], obs, str(op)))
            return dis
        self.last = obs
        lab = [[dict(e, key=f"{e['key']}:{e['payload']}") for e in g]
               for g in groups]
        res = registry_ref.check_run(lab, [f'{x[3]}:{x[0]}' if len(x) > 3
                                           else repr(x) for x in obs])
        detail = f'registered (reference): {ref.key()}'
        if res is not None:
            dis.append((f'notif-notify-{res[0]}',
                        [e['key'] for e in lab[0]], obs, detail))
        for x in obs:
            if x[1:3] != [op[1], op[2]] or x[4:] != [7]:
                dis.append(('notif-args', [op[1], op[2], '<listener>', 7],
                            x[1:], detail))
        return dis

    def _implkey(self):
        out = []

        def lab(fn):
            if hasattr(fn, '_c18'):
                return fn._c18
            cells = getattr(fn, '__closure__', None) or ()
            for c in cells:         # the wrapper of register_one_shot
                if hasattr(c.cell_contents, '_c18'):
                    return 'once:' + c.cell_contents._c18
            return None
        for o, msgs in self.nc._registrations.items():
            if not isinstance(o, _Obj):
                continue
            for m, ls in msgs.items():
                ent = [[repr(k), lab(fn)]
                       for k, fn in ls.items()]
                if ent:
                    out.append([repr(o), m, ent])
        return sorted(out)

    def key(self):
        return [self.ref.key(), self._implkey()]

    def nontrivial(self):
        return self.ref.nontrivial()

    def outcome(self):
        return self.last

    def close(self):
        if self.dry or self.closed:
            return []
        self.closed = True
        for reg in (self.nc._registrations, self.saved):
            for o in self.objs.values():
                try:
                    del reg[o]
                except KeyError:
                    pass
        self.nc._registrations = self.saved
        return []


SYSTEMS = {'resp': ResponderSys, 'sysact': SystemActionSys,
           'srvact': ServerActionSys, 'notif': NotificationSys}


# =============================================================================
# own BFS driver (histbfs has no close() hook; same contract otherwise)

def _run_history(cls, params, hist):
    """Fresh system, replay hist; -> (system, disagreements of the last op,
    log of all steps)."""
    s = cls(params)
    log = []
    dis = []
    try:
        for op in hist:
            dis = s.apply(op)
            log.append({'op': op, 'disagreements': [
                [k, repr(e), repr(o)] for k, e, o, _ in dis]})
    except BaseException:
        s.close()
        raise
    return s, dis, log


def expand(job):
    cls = SYSTEMS[job['system']]
    params = job['params']
    last = job['last']
    best = {}
    viol = {}
    nviol = 0
    tr = 0
    outcomes = set()
    for hist in job['hists']:
        d = cls(params, dry=True)
        for op in hist:
            d.apply(op)
        for op in d.ops():
            h2 = hist + [op]
            t, dis, _ = _run_history(cls, params, h2)
            try:
                k = core.digest(t.key())
                nt = bool(t.nontrivial())
                outcomes.add(core.digest(t.outcome()))
            finally:
                problems = t.close()
            if problems:
                dis = list(dis) + [('rt-teardown-problem', [], problems,
                                    'seams.Execution.finish() reported '
                                    'problems')]
            tr += 1
            ch2 = core.canon(h2)
            for kind, exp, obs, detail in dis:
                nviol += 1
                v = {'kind': kind,
                     'case': {'part': 'history', 'system': job['system'],
                              'params': params, 'history': h2},
                     'expected': exp, 'observed': obs, 'detail': detail,
                     'size': len(h2) * 1000 + len(ch2)}
                b = viol.get(kind)
                if b is None or (v['size'], core.canon(v['case'])) < \
                        (b['size'], core.canon(b['case'])):
                    viol[kind] = v
            ok = not dis and not getattr(t, 'tainted', False)
            cur = best.get(k)
            if cur is None:
                best[k] = [ch2, h2, nt, ok]
            else:
                cur[2] = cur[2] or nt
                if (not ok, ch2) < (not cur[3], cur[0]):
                    cur[0], cur[1], cur[3] = ch2, h2, ok
    children = [[None if last else b[1], k, b[2], b[3]]
                for k, b in best.items()]
    return {'children': children, 'viol': list(viol.values()), 'tr': tr,
            'nviol': nviol, 'out': sorted(outcomes)}


def run_bfs(ctx, system, params, depth, label, batch=8):
    seen = {'<root>'}
    frontier = [[]]
    states = 1
    per_level = []
    completed = 0
    for level in range(1, depth + 1):
        if not frontier:
            completed = depth
            break
        order = core.shard_order(len(frontier), ctx.seed + level)
        frontier = [frontier[i] for i in order]
        jobs = [{'system': system, 'params': params, 'last': level == depth,
                 'hists': frontier[i:i + batch]}
                for i in range(0, len(frontier), batch)]
        found = {}
        ntr = 0
        for res in ctx.map('rt', MODNAME, 'expand', jobs):
            ntr += res['tr']
            ctx.violation_count += res['nviol'] - len(res['viol'])
            for v in res['viol']:
                ctx.violation(v)
            for o in res['out']:
                ctx.outcomes.add(o)
            for h2, k, nt, ok in res['children']:
                if k in seen:
                    continue
                cur = found.get(k)
                if cur is None:
                    found[k] = [h2, nt, ok]
                else:
                    cur[1] = cur[1] or nt
                    if h2 is not None and cur[0] is not None and \
                            (not ok, core.canon(h2)) < \
                            (not cur[2], core.canon(cur[0])):
                        cur[0], cur[2] = h2, ok
                    elif h2 is None:
                        cur[2] = cur[2] or ok
        seen.update(found)
        states += len(found)
        ctx.nontrivial += sum(1 for f in found.values() if f[1])
        nxt = sorted((f[0] for f in found.values()
                      if f[2] and f[0] is not None),
                     key=lambda h: core.canon(h))
        if level >= min(depth - 1, 3):
            n = 0
            for h in nxt:
                if n >= 1 or len(ctx.samples) >= 12:
                    break
                ctx.samples.append({'part': 'history', 'system': system,
                                    'params': params, 'history': h})
                n += 1
        ctx.transitions += ntr
        ctx.evaluations += ntr
        ctx.traces += ntr
        per_level.append({'depth': level, 'frontier_in': len(frontier),
                          'transitions': ntr, 'new_states': len(found)})
        frontier = nxt
        completed = level
        if ctx.out_of_time():
            ctx.caps.append(f'{label}: time cap hit after depth {level}')
            break
    ctx.states += states
    ctx.bounds[label] = {'depth_completed': completed, 'states': states,
                         'levels': per_level}
    return states


# =============================================================================
# (2) patterns

PALPHA = 'ab/?*[]!-{},'
AALPHA = 'ab/'

# Pattern families: (pattern alphabet, address alphabet, (plen, alen) quick,
# (plen, alen) thorough, extra).  'core' is the OSC pattern alphabet over the
# names {a, b}.  The other families put characters into the pattern and into
# the addresses that 'core' cannot tell apart:
#   range    ranges with an interior and an outside character ([a-c] against
#            b and d), '-' and '!' as ordinary name characters;
#   literal  characters that are ordinary in OSC ("any other character matches
#            only the same character") but special in regular expressions;
#   setlit   such characters inside brackets ('^' does not negate in OSC);
#   altlit   such characters inside braces.
# extra: the quick tier adds a seed-selected 1/8 slice of the patterns of
# length plen + 1.
PFAMILIES = {
    'core': (PALPHA, AALPHA, (5, 5), (6, 6), False),
    'range': ('ac/[]-!', 'abcd-!/', (6, 3), (7, 4), True),
    'literal': ('a/.+^$|()\\*', 'a.+^$|()\\/', (4, 3), (5, 4), False),
    'setlit': ('ab/[]!^\\.', 'ab^\\./', (5, 3), (6, 4), False),
    'altlit': ('ab/{},.|(', 'ab.|(/', (5, 3), (6, 4), False),
}
PSLICES = 8


def _matcher():
    try:
        from sc3.base import responders
        return responders._match_osc_address_pattern
    except Exception:           # responders not importable uninitialised
        from sc3.base._oscmatch import osc_rematch_pattern
        return osc_rematch_pattern


def addresses(maxlen, aalpha=AALPHA):
    out = []
    for n in range(1, maxlen + 1):
        for t in itertools.product(aalpha, repeat=n - 1):
            a = '/' + ''.join(t)
            if oscpattern.valid_address(a):
                out.append(a)
    return out


def patterns(maxlen, palpha=PALPHA, minlen=1):
    """Every text of length minlen..maxlen over palpha that starts with '/',
    in shortlex order."""
    for n in range(minlen, maxlen + 1):
        for t in itertools.product(palpha, repeat=n - 1):
            yield '/' + ''.join(t)


def check_pattern(pattern, addrs, lib):
    """-> (class, outcome string, disagreements [(kind, address, exp, obs)])"""
    cls = oscpattern.classify(pattern)
    if cls == 'ambiguous':
        return cls, None, []
    parts = oscpattern.parse(pattern) if cls == 'ok' else None
    special = any(c in pattern for c in '?*[{')
    out = []
    dis = []
    for a in addrs:
        exp = oscpattern.match_parsed(parts, a) if parts is not None \
            else False
        try:
            obs = lib(pattern, a)
            obs = bool(obs) if isinstance(obs, (bool, int)) else repr(obs)
        except Exception as e:
            obs = 'raises ' + type(e).__name__
        out.append('1' if obs is True else '0' if obs is False else 'x')
        if obs == exp:
            continue
        if isinstance(obs, str):
            # The matcher raised.  Where no match is due this is one way of
            # refusing the pattern (nothing fires; the clock thread logs it),
            # e.g. an unterminated bracket or a stray '}'.
            if exp:
                dis.append(('pattern-raises', a, exp, obs))
            continue
        if cls == 'ill':
            dis.append(('pattern-illformed-matches', a, exp, obs))
        elif obs is True:
            dis.append(('pattern-false-match' if special
                        else 'pattern-literal-false-match', a, exp, obs))
        else:
            dis.append(('pattern-false-nonmatch', a, exp, obs))
    return cls, ''.join(out), dis


def _quiet():
    import warnings
    warnings.simplefilter('ignore', FutureWarning)  # re: "possible nested set"


# Family 'sep' (structured, not a plain alphabet product): every pattern
# construct at every position of a path that may hold the '/' separator.
# Patterns '/' + prefix + construct + suffix; paths: EVERY text '/' + t with t
# over 'ab/' of length 1..4, valid address or not ('/a/', '//b': the part-wise
# rule of OSC 1.0 still decides - the parts are the texts between the
# separators and a construct matches inside one part only; pattern texts with
# empty parts stay don't-cares).  'c' never occurs in a path, so '[!c]' is
# the class that accepts every name character.
SEP_CONSTRUCTS = ['?', '*', '[b]', '[ab]', '[a-b]', '[!b]', '[!a]', '[!c]',
                  '[!ab]', '[!a-b]', '{a,b}', '{a,ab}', '**', '?*', '*?',
                  '??', '[!c][!c]', '[!c]?', '?[!c]', '[!c]*']


def sep_patterns():
    pre = [''.join(t) for n in range(3) for t in itertools.product('ab',
                                                                   repeat=n)]
    suf = [''.join(t) for n in range(3) for t in itertools.product('ab/',
                                                                   repeat=n)]
    return ['/' + p + c + x for p in pre for c in SEP_CONSTRUCTS for x in suf]


def sep_paths():
    return ['/' + ''.join(t) for n in range(1, 5)
            for t in itertools.product('ab/', repeat=n)]


def pattern_work(job):
    """job: {'fam', 'plen', 'alen', 'shard', 'of'} and optionally 'slice' /
    'slice_of': additionally the patterns of length plen + 1 whose index
    (within that length) is in the slice."""
    _quiet()
    acc = progenum.Acc()
    lib = _matcher()
    sep = job.get('fam') == 'sep'
    if sep:
        palpha, addrs = None, sep_paths()
    else:
        palpha, aalpha = PFAMILIES[job.get('fam', 'core')][:2]
        addrs = addresses(job['alen'], aalpha)
    pairs = 0
    best = {}

    def todo():
        if sep:
            for idx, p in enumerate(sep_patterns()):
                if idx % job['of'] == job['shard']:
                    yield p
            return
        idx = 0
        for p in patterns(job['plen'], palpha):
            if idx % job['of'] == job['shard']:
                yield p
            idx += 1
        if job.get('slice') is not None:
            for k, p in enumerate(patterns(job['plen'] + 1, palpha,
                                           job['plen'] + 1)):
                if k % job['slice_of'] == job['slice'] and \
                        (k // job['slice_of']) % job['of'] == job['shard']:
                    yield p
    for p in todo():
        cls, out, dis = check_pattern(p, addrs, lib)
        acc.count('patterns_' + cls)
        if cls == 'ambiguous':
            continue
        pairs += len(addrs)
        for kind, a, exp, obs in dis:
            rank = (len(p) * 100 + len(a), p, a)
            if kind in best and best[kind] <= rank:
                acc.nviol += 1          # counted, not the smallest
                continue
            best[kind] = rank
            acc.violation(kind, {'part': 'pattern', 'pattern': p,
                                 'address': a}, exp, obs,
                          f'pattern class {cls}', size=rank[0],
                          standalone=(
                              'from sc3.base._oscmatch import '
                              'osc_rematch_pattern\n'
                              f'print(osc_rematch_pattern({p!r}, {a!r}))'
                              f'  # OSC 1.0: {exp}'))
        acc.case({'part': 'pattern', 'pattern': p},
                 nontrivial=(cls == 'ok' and any(c in p for c in '?*[{')),
                 outcome=[cls, out], steps=len(addrs))
    acc.count('pattern_address_pairs', pairs)
    return acc.result()


# =============================================================================
# (3) datagram faults

class _MonBudget:
    """Deterministic step budget on sys.monitoring (as mc/checks/c13.py):
    counts function starts, resumes, jumps and branches."""
    TOOL = 4

    def __init__(self, limit):
        self.limit = limit
        self.n = 0

    def _cb(self, *args):
        self.n += 1
        if self.n > self.limit:
            sys.monitoring.set_events(self.TOOL, 0)
            raise progenum.StepBudgetExceeded(self.limit)

    def __enter__(self):
        mon = sys.monitoring
        ev = mon.events
        if mon.get_tool(self.TOOL) is None:
            mon.use_tool_id(self.TOOL, 'c18-step-budget')
        for e in (ev.JUMP, ev.BRANCH, ev.PY_START, ev.PY_RESUME):
            mon.register_callback(self.TOOL, e, self._cb)
        mon.set_events(self.TOOL,
                       ev.JUMP | ev.BRANCH | ev.PY_START | ev.PY_RESUME)
        return self

    def __exit__(self, *exc):
        sys.monitoring.set_events(self.TOOL, 0)
        return False


def budget(limit):
    if hasattr(sys, 'monitoring'):
        return _MonBudget(limit)
    return progenum.budget(limit)


FUTURE = 64.0       # virtual second carried by the timetag of base 'timed'
SENDER = B
OK_MSG = ['/ok', 7]
# responders present while a faulted datagram is handled.  (No matching
# responder on '/ab': the faults part must not depend on how the matcher
# treats '/a' against the longer path.)
FAULT_PATHS = [['/a', False], ['/ab', False], ['/a', True], ['/ok', False]]
OK_INDEX = 3


def fault_cases(tier):
    """Deterministic list of [origin, hex]."""
    from mc import vthreading as vt
    out = []
    bs = oscfault.bases(vt.T0 + FUTURE)
    for name in sorted(bs):
        d = bs[name]
        out.append([['base', name], d.hex()])
        for desc, x in oscfault.faults(d):
            out.append([[name] + desc, x.hex()])
    out.append([['bytes', 0], ''])
    for x in range(256):
        out.append([['bytes', 1], bytes([x]).hex()])
    for x in range(256):
        for y in range(256):
            out.append([['bytes', 2], bytes([x, y]).hex()])
    return out


def run_fault_case(case):
    """-> (class, observation dict, disagreements)"""
    from mc import seams, vthreading as vt
    env = _env()
    d = bytes.fromhex(case['hex'])
    cl = oscfault.classify(d)
    ex = seams.Execution()
    S = vt.SCHED
    rlog, raw = [], []
    main = env['main']
    OscFunc = env['rsp'].OscFunc
    mine = []
    dis = []

    def rawf(msg, time, addr, port):
        raw.append([_jsonable(msg), time, [addr.hostname, addr.port], port])

    def cb(i):
        def f(msg, time, addr, port):
            rlog.append([i, _jsonable(msg), time, [addr.hostname, addr.port],
                         port])
        return f
    try:
        for i, (path, matching) in enumerate(FAULT_PATHS):
            mine.append(OscFunc.matching(cb(i), path) if matching
                        else OscFunc(cb(i), path))
        main.add_osc_recv_func(rawf)
        iface = main._osc_interface
        S.sleep(DT, exact=True)
        now = S.now
        del env['tap'].records[:]
        bud = budget(BUDGET)
        raised = None
        with bud:
            try:
                iface._handle_request(d, (SENDER[0], SENDER[1]))
            except progenum.StepBudgetExceeded:
                pass
            except BaseException as e:      # noqa
                if isinstance(e, (KeyboardInterrupt, SystemExit, vt.Abort)):
                    raise
                raised = e
        steps = bud.n
        over = steps > BUDGET
        blocked = None
        try:
            S.idle()
        except (vt.Deadlock, vt.Livelock) as e:
            blocked = type(e).__name__
        errors = [list(x) for x in env['tap'].records]
        obs_raw = [list(x) for x in raw]
        obs_r = [list(x) for x in rlog]
        detail = (f'datagram {d!r}; class {cl}; steps {steps}; errors logged '
                  f'by the library: {errors[:3]}')
        if over:
            dis.append(('fault-step-budget-exceeded', f'<= {BUDGET} events',
                        steps, detail))
        if raised is not None:
            dis.append(('fault-raises-into-receiver', 'returns',
                        type(raised).__name__, detail))
        if blocked:
            dis.append(('fault-dispatch-blocks', 'returns', blocked, detail))
        if cl['class'] == 'unrecoverable':
            if obs_raw or obs_r:
                code = cl['why'].split(':')[0]
                dis.append((f'fault-fires-{code}', [],
                            [x[0] for x in obs_raw] or obs_r, detail))
        elif cl['class'] == 'valid' and not over and raised is None:
            exp_raw = []
            exp_r = []
            for tt, msg in cl['messages']:
                t = now if tt in (None, 1) else \
                    oscfault.timetag_to_unix(tt) - vt.T0
                exp_raw.append([_jsonable(msg), t,
                                [SENDER[0], SENDER[1]], iface.port])
                for i, (path, matching) in enumerate(FAULT_PATHS):
                    if path == msg[0]:
                        exp_r.append([i, _jsonable(msg), t,
                                      [SENDER[0], SENDER[1]], iface.port])
            # wire order is demanded among the messages of one time tag;
            # the statement does not order messages of different tags
            def by_time(lst):
                out = {}
                for x in lst:
                    out.setdefault(repr(x[1]), []).append(x)
                return out

            def untimed(lst):
                return sorted(core.canon(x[:1] + x[2:]) for x in lst)
            if by_time(obs_raw) != by_time(exp_raw):
                kind = 'fault-valid-wrong-time' \
                    if untimed(obs_raw) == untimed(exp_raw) \
                    else 'fault-valid-not-delivered'
                dis.append((kind, exp_raw, obs_raw, detail))
            elif sorted(obs_r, key=core.canon) != \
                    sorted(exp_r, key=core.canon):
                dis.append(('fault-valid-responders',
                            sorted(exp_r, key=core.canon),
                            sorted(obs_r, key=core.canon), detail))
        # the receiver must still work
        del raw[:]
        del rlog[:]
        S.sleep(DT, exact=True)
        now2 = S.now
        after = None
        try:
            iface._handle_request(osc10.encode_message(OK_MSG[0], OK_MSG[1:]),
                                  (SENDER[0], SENDER[1]))
            S.idle()
        except (vt.Deadlock, vt.Livelock) as e:
            after = type(e).__name__
        except Exception as e:
            after = 'raises ' + type(e).__name__
        want = [OK_MSG, now2, [SENDER[0], SENDER[1]], iface.port]
        if after or [list(x) for x in raw] != [want] or \
                [list(x) for x in rlog] != [[OK_INDEX] + want]:
            dis.append(('fault-next-datagram-lost', [want],
                        [after, [list(x) for x in raw],
                         [list(x) for x in rlog]], detail))
        obs = {'class': cl['class'], 'fired': [x[0] for x in obs_raw],
               'over': over, 'raised': raised is not None}
        if any(e[3] for e in errors):
            obs['fired'] = 'address-dependent'  # see ResponderSys._deliver
    finally:
        try:
            main.remove_osc_recv_func(rawf)
        except Exception:
            pass
        _restore_responders(env, mine)
        problems = ex.finish()
    if problems:
        dis.append(('rt-teardown-problem', [], problems, ''))
    return cl, obs, dis, steps


def fault_work(job):
    acc = progenum.Acc()
    cases = fault_cases(job['tier'])
    maxsteps = 0
    for idx, (origin, hx) in enumerate(cases):
        if idx % job['of'] != job['shard']:
            continue
        if origin[0] == 'bytes' and origin[1] == 2 and job['tier'] == 'quick' \
                and (idx // job['of']) % job['slice_of'] != job['slice']:
            continue
        case = {'part': 'fault', 'origin': origin, 'hex': hx}
        cl, obs, dis, steps = run_fault_case(case)
        if not obs['over']:
            maxsteps = max(maxsteps, steps)
        acc.count('fault_' + cl['class'])
        for kind, exp, ob, detail in dis:
            acc.violation(kind, case, exp, ob, detail,
                          size=len(hx) * 10 + len(core.canon(origin)),
                          standalone=(
                              'from sc3.base._osclib import OscPacket\n'
                              f'p = OscPacket(bytes.fromhex({hx!r}))  # '
                              f'{cl["class"]}: {cl.get("why", "")}\n'
                              'print([(t.message.address, t.message.params)'
                              ' for t in p.messages])'))
        acc.case(case, nontrivial=(origin[0] != 'base' and len(hx) > 4),
                 outcome=[cl['class'], obs['fired'], obs['over'],
                          sorted({d[0] for d in dis})], steps=2)
    acc.extra['max_steps_within_budget'] = [maxsteps]
    return acc.result()


# =============================================================================
# replay

def replay(job):
    case = job['case']
    part = case.get('part')
    if part == 'pattern':
        _quiet()
        cls, out, dis = check_pattern(case['pattern'], [case['address']],
                                      _matcher())
        return {'violates': any(d[0] == job['kind'] for d in dis),
                'class': cls, 'disagreements': [list(map(repr, d))
                                                for d in dis]}
    if part == 'raise':
        dis, obs = run_raise_case(case)
        return {'violates': any(d[0] == job['kind'] for d in dis),
                'deliveries': obs,
                'disagreements': [[d[0], repr(d[1]), repr(d[2])]
                                  for d in dis]}
    if part == 'transport':
        dis, out = run_transport_case(case)
        return {'violates': any(d[0] == job['kind'] for d in dis),
                'outcome': out,
                'disagreements': [[d[0], repr(d[1]), repr(d[2])]
                                  for d in dis]}
    if part == 'matrix':
        dis, out, nt = run_matrix_case(case)
        return {'violates': any(d[0] == job['kind'] for d in dis),
                'fired': out,
                'disagreements': [[d[0], repr(d[1]), repr(d[2])]
                                  for d in dis]}
    if part == 'fault':
        cl, obs, dis, steps = run_fault_case(case)
        return {'violates': any(d[0] == job['kind'] for d in dis),
                'class': cl['class'], 'why': cl.get('why'), 'obs': obs,
                'steps': None if obs['over'] else steps,
                'disagreements': [[d[0], repr(d[1]), repr(d[2])]
                                  for d in dis]}
    cls = SYSTEMS[case['system']]
    s, dis, log = _run_history(cls, case['params'], case['history'])
    problems = s.close()
    hit = any(k == job['kind'] for st in log
              for k, _, _ in st['disagreements'])
    if problems and job['kind'] == 'rt-teardown-problem':
        hit = True
    return {'violates': hit, 'log': log}


# =============================================================================
# known findings predicates

# (shared_function_object / removed_by_callback_exact: repaired in the
# library, see known_findings.json; permanent_set_while_disabled: repair
# proposed in /verif/fixes/C18-permanent-set-while-disabled.patch)

def _variant_of(v, rid):
    """variant (list) with which responder `rid` of the history was made"""
    news = [op for op in v['case']['history'] if op[0] == 'new']
    return v['case']['params']['variants'][news[rid][1]] \
        if rid < len(news) else None


def shared_function_object(v):
    """at least two responders of the exact dispatcher were created with
    the same function object"""
    if v['case'].get('system') != 'resp':
        return False
    var = v['case']['params']['variants']
    n = sum(1 for op in v['case']['history']
            if op[0] == 'new' and not var[op[1]][1] and
            len(var[op[1]]) > 5 and var[op[1]][5])
    return n >= 2


def removed_by_callback_exact(v):
    """an exact responder's function frees / disables another responder"""
    if v['case'].get('system') != 'resp':
        return False
    for op in v['case']['history']:
        if op[0] == 'kill':
            var = _variant_of(v, op[1])
            if var is not None and not var[1]:
                return True
    return False


def permanent_set_while_disabled(v):
    """a responder was declared permanent while it was disabled, enabled
    again, and CmdPeriod ran before the message that it misses"""
    if v['case'].get('system') != 'resp':
        return False
    m = ResponderSys(v['case']['params'], dry=True)
    armed = set()       # registered in CmdPeriod although permanent
    hit = set()
    for op in v['case']['history']:
        if op[0] == 'permanent' and op[2] and \
                m.ref.rs[op[1]].state == 'disabled':
            armed.add(op[1])
        elif op[0] == 'permanent' and not op[2]:
            armed.discard(op[1])
        elif op[0] == 'cmdp':
            hit |= {i for i in armed if m.ref.rs[i].permanent}
        m.apply(op)
    exp = v.get('expected')
    obs = v.get('observed')
    missing = set(exp or []) - set(obs or []) \
        if isinstance(exp, list) and isinstance(obs, list) else set()
    return bool(missing) and missing <= hit


def tcp_frame_not_reassembled(v):
    """TCP script with a frame of size zero, a frame that arrives in two
    pieces (short read) or a negative length prefix"""
    c = v['case']
    if c.get('part') != 'transport' or c.get('proto') != 'tcp':
        return False
    hows = {TCP_MENU[k][2] for k in c['seq']} | {TCP_LAST[c['last']][2]}
    return bool(hows & {'zero', 'split-payload', 'split-header', 'neglen'})


PREDICATES = {f.__name__: f for f in (shared_function_object,
                                      removed_by_callback_exact,
                                      permanent_set_while_disabled,
                                      tcp_frame_not_reassembled)}


# =============================================================================
# parent side

RESP_PARAMS = {
    # paths: prefix sharing, two dispatchers, wildcards that must not cross '/'
    'paths': {
        'variants': [['/a', False, None, None, None],
                     ['/a', True, None, None, None],
                     ['/ab', True, None, None, None],
                     ['/a/b', True, None, None, None]],
        'max': 3,
        'msgs': [['/a', [1], A, 0], ['/ab', [2], B, 0], ['/a*', [1], A, 0],
                 ['/?b', [1], B, 0], ['/{a,ab}', [1], A, 0]]},
    # filters: source address and argument template on one path
    'filters': {
        'variants': [['/a', False, None, None, None],
                     ['/a', False, A, None, None],
                     ['/a', False, None, None, [1]],
                     ['/a', True, A, None, [1]]],
        'max': 3,
        'msgs': [['/a', [1], A, 0], ['/a', [1], B, 0], ['/a', [2], A, 0],
                 ['/a', [], A, 0], ['/a', [1], C, 0]]},
    # identity: responders that share one function object, and a function
    # that frees / disables another responder while a message is dispatched
    'identity': {
        'variants': [['/a', False, None, None, None, True],
                     ['/a', False, None, None, None],
                     ['/a', True, None, None, None, True]],
        'max': 3, 'kill': True,
        'msgs': [['/a', [1], A, 0]]},
    # ports: receive port filter, second interface; an ill-formed pattern
    'ports': {
        'variants': [['/a', False, None, None, None],
                     ['/a', False, None, PORT2, None],
                     ['/a', True, None, PORT2, None],
                     ['a', True, None, None, None]],
        'max': 3,
        'msgs': [['/a', [1], A, 0], ['/a', [1], A, 1], ['/a[', [1], A, 0],
                 ['/[!b]', [1], B, 1]]},
    # both: source address (with and without a port) together with a
    # receive port, every sender x port combination
    'both': {
        'variants': [['/a', False, [HOST, None], PORT2, None],
                     ['/a', False, A, PORT2, None],
                     ['/a', True, [HOST, None], PORT2, [1]],
                     ['/a', False, [HOST, None], None, None]],
        'max': 3,
        'msgs': [['/a', [1], A, 0], ['/a', [1], A, 1], ['/a', [1], B, 1],
                 ['/a', [2], B, 0], ['/a', [1], C, 1]]},
    # cmdperiod: user actions of CmdPeriod that declare a responder
    # permanent / free it / disable it before or after the responder's own
    # CmdPeriod action; CmdPeriod.run and CmdPeriod.hard_run
    'cmdperiod': {
        'variants': [['/a', False, None, None, None]],
        'max': 2, 'permanent': True, 'hard': True,
        'cpacts': [['permanent', 0], ['free', 0], ['disable', 0]],
        'msgs': [['/a', [1], A, 0]]},
    # permanent: responders that persist beyond CmdPeriod
    'permanent': {
        'variants': [['/a', False, None, None, None],
                     ['/a', True, None, None, None]],
        'max': 2, 'permanent': True,
        'msgs': [['/a', [1], A, 0]]},
}


RESP_DEPTH = {'permanent': (6, 7), 'cmdperiod': (5, 6)}       # (quick, thorough); default (4, 6)


def _timed(ctx, label, t0):
    import time
    ctx.extra.setdefault('wall_s_by_part', {})[label] = \
        round(time.time() - t0, 1)
    return time.time()


def main(ctx):
    import time
    t0 = time.time()
    quick = ctx.tier == 'quick'
    ctx.rule = (
        'histories (E2): BFS over all operation histories up to the depth '
        'given in bounds, on real OscFunc / registry objects, states '
        'deduplicated on (reference state with registration ranks, '
        'dispatcher/registry contents of the library); non-trivial = some '
        'responder or registered action changed life-cycle state at least '
        'twice (creation/registration counts as the first change). '
        'patterns (E1): every text over the pattern alphabet of each family '
        '(core; range: interior/outside characters of ranges, literal - and '
        '!; literal/setlit/altlit: characters that are special in regular '
        'expressions but ordinary in OSC, outside and inside brackets and '
        'braces; sep: every construct at every position of every path '
        'over ab/ of length <= 5, so that each construct meets the '
        'separator) up to the length bound x every valid address; one '
        'evaluation = one pattern '
        'against all addresses; non-trivial = well-formed and contains one of '
        '? * [ {. faults (E4): every single fault of the menu on each base '
        'datagram plus all short byte strings; non-trivial = a faulted '
        'datagram of more than 2 bytes. transport loops (E1): one '
        'evaluation = one script of datagrams / TCP frames fed to the real '
        'receive loop; non-trivial = at least one item before the final '
        'valid one. filter matrix (E1): one evaluation '
        '= one responder configuration against all messages of the product; '
        'non-trivial = the reference demands that it fires for some message '
        'and that one of its filters rejects another message on its path.')
    ctx.assumptions += [
        'oracles written from the OSC 1.0 specification and the property '
        'statement: mc/oracles/oscpattern.py (part-wise, whole-address '
        'matching), dispatch_ref.py, registry_ref.py, oscfault.py, osc10.py',
        'RT-virtual mode (mc/seams.py): real SystemClock thread under the '
        'cooperative scheduler, default schedule, virtual time; datagrams '
        'enter through OscInterface._handle_request (no socket)',
        'order is demanded only between responders of one dispatcher / '
        'actions of one registry whose creation and latest registration '
        'ranks agree; exact-vs-matching order is a don\'t-care',
        'a permanent responder persists beyond CmdPeriod (documented), '
        'whether it was enabled or disabled when declared permanent; an '
        'action removed from a registry by another action during a run '
        '(run and hard_run) must not run when the remover is demanded to '
        'run before it, must run when it is demanded to run before the '
        'remover, and may or may not run only when their order is not '
        'demanded; a responder declared permanent (freed, disabled) by a '
        'CmdPeriod action that was registered before the responder was '
        'created / last enabled is not freed by that CmdPeriod; a CmdPeriod '
        'action registered after that moment finds the responder freed '
        '(what follows is not decided, not extended); '
        'StartUp.defer evaluates at once after StartUp.run, registers '
        'before; user functions with fewer than four parameters must still '
        'be invoked (spare arguments are documented to be discarded)',
        'ambiguous pattern texts and lenient datagram faults (see the '
        'oracle docstrings) are don\'t-cares apart from: no exception, no '
        'hang, next datagram still delivered',
        'transport loops: scripted socket objects (recvfrom pops datagrams; '
        'recv returns what has arrived, never across a segment boundary, '
        'b"" at end of stream, ValueError for a negative size as CPython '
        'does); a TCP message carries one of the reception instants (which '
        'read completes a frame is up to the receiver); after a length '
        'prefix that destroys the framing only a clean end is demanded',
        f'step budget {BUDGET} sys.monitoring events per datagram '
        '(PY_START, PY_RESUME, JUMP, BRANCH)']
    of = 64
    # (2) patterns first: cheapest, own pool
    ctx.extra['pattern_alphabet'] = PALPHA
    ctx.extra['pattern_families'] = {}
    for fam in sorted(PFAMILIES):
        palpha, aalpha, q, t, extra = PFAMILIES[fam]
        plen, alen = q if quick else t
        ctx.extra['pattern_families'][fam] = {
            'pattern_alphabet': palpha, 'address_alphabet': aalpha,
            'addresses': len(addresses(alen, aalpha))}
        jobs = [{'fam': fam, 'shard': i, 'of': of, 'plen': plen,
                 'alen': alen} for i in range(of)]
        label = (f'patterns/{fam}: length <= {plen} over {palpha!r} x valid '
                 f'addresses of length <= {alen} over {aalpha!r}')
        if extra and quick:
            for j in jobs:
                j['slice_of'] = PSLICES
                j['slice'] = core.pick_slice(ctx.seed, PSLICES)
            label += f' (+ 1/{PSLICES} slice of length {plen + 1})'
        progenum.run(ctx, MODNAME, 'pattern_work', jobs, mode='import',
                     bound=label)
    progenum.run(ctx, MODNAME, 'pattern_work',
                 [{'fam': 'sep', 'shard': i, 'of': 16} for i in range(16)],
                 mode='import',
                 bound=f'patterns/sep: {len(sep_patterns())} patterns / + '
                       f'prefix (<=2 over ab) + one of {len(SEP_CONSTRUCTS)} '
                       'constructs + suffix (<=2 over ab/) x all '
                       f'{len(sep_paths())} paths /t, t over ab/ of length '
                       '1..4 (also with empty parts)')
    ctx.extra['addresses'] = ctx.extra['pattern_families']['core']['addresses']
    ctx.close()
    t0 = _timed(ctx, 'patterns', t0)
    # (3) faults
    slice_of = 8
    jobs = [{'shard': i, 'of': of, 'tier': ctx.tier, 'slice_of': slice_of,
             'slice': core.pick_slice(ctx.seed, slice_of)}
            for i in range(of)]
    progenum.run(ctx, MODNAME, 'fault_work', jobs, mode='rt',
                 bound='faults: all truncations / int32 fields / type tags '
                       f'of {len(oscfault.bases(0.0))} base datagrams, byte '
                       'strings of length <= ' +
                       ('1 (+ 1/8 slice of length 2)' if quick else '2'))
    ms = ctx.extra.pop('max_steps_within_budget', [])
    ctx.extra['max_steps_within_budget'] = max(ms) if ms else 0
    progenum.run(ctx, MODNAME, 'transport_work',
                 [{'shard': i, 'of': of} for i in range(of)], mode='rt',
                 bound='transport loops: the real _udp_run / _tcp_run on a '
                       'scripted socket, every sequence of <=3 datagrams '
                       f'over a menu of {len(UDP_MENU)} (UDP) / '
                       f'{len(TCP_MENU)} frames (TCP) followed by a valid '
                       'one and the own-address sentinel / end of stream '
                       '(TCP also: a framing-destroying length prefix last, '
                       f'<=2 before it): {len(transport_cases())} scripts')
    t0 = _timed(ctx, 'faults', t0)
    # (1) responder histories
    for name in sorted(RESP_PARAMS):
        # (the small 'permanent' family needs new, permanent, disable,
        # enable, cmdp, msg)
        depth = RESP_DEPTH.get(name, (4, 6))[0 if quick else 1]
        run_bfs(ctx, 'resp', RESP_PARAMS[name], depth,
                f'responders/{name}: depth {depth}')
    progenum.run(ctx, MODNAME, 'raise_work',
                 [{'shard': i, 'of': 16} for i in range(16)], mode='rt',
                 bound='responders whose function raises: all layouts of <=3 '
                       'responders over plain/raiser/oneshot/oneshot-raiser, '
                       'both dispatchers, 3 deliveries')
    mxs = core.pick_slice(ctx.seed, MX_SLICES)
    ctx.extra['matrix_messages_per_case'] = len(matrix_messages())
    progenum.run(ctx, MODNAME, 'matrix_work',
                 [{'shard': i, 'of': of, 'tier': ctx.tier, 'slice': mxs}
                  for i in range(of)], mode='rt',
                 bound='filter matrix: one responder (creation route x path '
                       'spelling x function arity x source x receive port x '
                       'argument template x preparation x delivery mode) '
                       f'against {len(matrix_messages())} messages '
                       '(address x arguments x sender x port): ' +
                       (f'{len(matrix_cases("quick", mxs))} cases (F1 single '
                        'with preparation none/func, F2 corners, '
                        f'1/{MX_SLICES} slice of the rest of F1)'
                        if quick else
                        f'{len(matrix_cases("thorough"))} cases (F1, F2)'))
    t0 = _timed(ctx, 'responders', t0)
    # (4) registries
    d = 5 if quick else 6
    for cname in ('CmdPeriod', 'StartUp', 'ShutDown'):
        run_bfs(ctx, 'sysact', {'cls': cname}, d,
                f'registry/{cname}: depth {d}', batch=16)
    d = 4 if quick else 5
    for cname in ('ServerBoot', 'ServerQuit', 'ServerTree'):
        run_bfs(ctx, 'srvact', {'cls': cname}, d,
                f'registry/{cname}: depth {d}', batch=16)
    d = 4 if quick else 6
    run_bfs(ctx, 'notif', {}, d,
            f'registry/NotificationCenter: depth {d}', batch=16)
    _timed(ctx, 'registries', t0)
